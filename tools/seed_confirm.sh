#!/bin/bash
# tools/seed_confirm.sh <prop> <worktree> <seed-id>: re-confirm a sub-agent's seeded change in its scratch worktree and store it under /verif/seeded/<seed-id>/
# (1) bug only: existing tests pass  (2) bug + demo: demo fails  (3) demo only: passes.  Then run our check for <prop> against /repo with the patch applied.
set -u
P=$1; WT=$2; ID=$3
OUT=/verif/seeded/$ID; mkdir -p $OUT
cd $WT || exit 2
export CARGO_NET_OFFLINE=true
git checkout -q -- . 2>/dev/null
git apply patch.diff || { echo "patch does not apply in worktree"; exit 2; }
R1=$(cargo test --offline 2>&1 | grep "test result" | head -1)
git apply demo/demo.patch || { echo "demo does not apply"; exit 2; }
R2=$(cargo test --offline 2>&1 | grep "test result" | head -1)
git apply -R patch.diff
R3=$(cargo test --offline 2>&1 | grep "test result" | head -1)
git checkout -q -- .
cp patch.diff $OUT/patch.diff; mkdir -p $OUT/demo; cp -r demo/* $OUT/demo/
echo "bug only:   $R1"; echo "bug + demo: $R2"; echo "demo only:  $R3"
# our check on a scratch worktree of /repo's HEAD with the patch applied (never on /repo itself)
SW=/tmp/seedcf_$$
git -C /repo worktree add -q --detach $SW HEAD || exit 3
git -C $SW apply $OUT/patch.diff || { echo "patch does not apply to /repo HEAD"; git -C /repo worktree remove --force $SW; exit 3; }
cd /verif && VERIF_REPO=$SW VERIF_NO_EVIDENCE=1 timeout 1200 ./check $P > $OUT/check_output.txt 2>&1; RC=$?
git -C /repo worktree remove --force $SW; git -C /repo worktree prune
grep "VIOLATION\|UNDECIDED\|^$P " $OUT/check_output.txt | cut -c1-200
echo "check exit=$RC"
python3 - "$P" "$ID" "$R1" "$R2" "$R3" "$RC" <<'PY'
import json,sys,re
p,i,r1,r2,r3,rc=sys.argv[1:7]
out=open('/verif/seeded/%s/check_output.txt'%i).read()
meta={"property":p,"id":i,"bug_only_existing_tests":r1.strip(),"bug_plus_demo":r2.strip(),"demo_only":r3.strip(),
      "our_check_exit":int(rc),"violations":re.findall(r"VIOLATION property=\S+ replay=\S+/([^/\s]+)\.json",out),
      "caught": int(rc)==1, "expect_caught": int(rc)==1,
      "ran":"tools/seed_confirm.sh: cargo test in the sub-agent's scratch worktree (bug only / bug+demo / demo only), then ./check %s on /repo with patch.diff applied (git apply; git checkout -- . afterwards)"%p}
json.dump(meta,open('/verif/seeded/%s/meta.json'%i,'w'),indent=1)
PY
