#!/bin/bash
# tools/seed_rerun.sh [id…]: apply each stored seeded change to a scratch worktree of /repo's HEAD (never to /repo itself, so that work in /repo is not disturbed),
# run the property's check against it (VERIF_REPO), undo, and refresh meta.json (caught / violations)
cd /verif
IDS="$@"; [ -z "$IDS" ] && IDS=$(ls seeded)
WT=/tmp/seedwt_$$
git -C /repo worktree add -q --detach $WT HEAD || exit 2
trap 'git -C /repo worktree remove --force $WT 2>/dev/null; git -C /repo worktree prune' EXIT
for ID in $IDS; do
  D=/verif/seeded/$ID; [ -f $D/patch.diff ] || continue
  P=$(python3 -c "import json;print(json.load(open('$D/meta.json'))['property'])")
  if ! git -C $WT apply --check $D/patch.diff 2>/dev/null; then echo "$ID: patch no longer applies"; continue; fi
  git -C $WT apply $D/patch.diff
  VERIF_REPO=$WT VERIF_NO_EVIDENCE=1 timeout 1500 ./check $P > $D/check_output.txt 2>&1; RC=$?
  git -C $WT checkout -- .
  python3 - "$D" "$RC" <<'PY'
import json,sys,re
d,rc=sys.argv[1],int(sys.argv[2])
m=json.load(open(d+'/meta.json')); out=open(d+'/check_output.txt').read()
m['our_check_exit']=rc; m['violations']=re.findall(r"VIOLATION property=\S+ replay=\S+/([^/\s]+)\.json",out)
m['caught']=(rc==1); m['expect_caught']=(rc==1)
m['undecided']=re.findall(r"UNDECIDED unit=(\S+)",out)
json.dump(m,open(d+'/meta.json','w'),indent=1)
print("%-45s exit=%d %s %s" % (m['id'],rc,m['violations'][:2],m['undecided']))
PY
done
