#!/bin/bash
# tools/seed_try.sh <seed-id> <prop> [check args]: run ./check <prop> on a scratch worktree of /repo HEAD with seeded/<seed-id>/patch.diff applied (development aid)
ID=$1; P=$2; shift 2
SW=/tmp/seedtry_$$
git -C /repo worktree add -q --detach $SW HEAD || exit 3
git -C $SW apply /verif/seeded/$ID/patch.diff || { echo "patch does not apply to /repo HEAD"; git -C /repo worktree remove --force $SW; exit 3; }
cd /verif && VERIF_REPO=$SW VERIF_NO_EVIDENCE=1 timeout 1500 ./check $P "$@" 2>&1 | grep "VIOLATION\|UNDECIDED\|^$P " | cut -c1-250
git -C /repo worktree remove --force $SW; git -C /repo worktree prune
