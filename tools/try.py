#!/usr/bin/env python3
"""Development aid (not a registered check): run candidate-format programs on the real compiler + the 6502 interpreter.
usage: VERIF_REPO=<tree> tools/try.py <file.py defining PROGS=[{decl, body, init, expect, ...}]>  or  tools/try.py -c 'decl' 'body' 'sym=val,..' 'sym=val,..' [-O1]"""
import sys, os, json
sys.path.insert(0, os.path.dirname(os.path.dirname(os.path.abspath(__file__))))
from vf import replay, core
scratch = os.environ.get("TRY_SCRATCH", "/tmp/pp/try_" + __import__("hashlib").md5(core.REPO.encode()).hexdigest()[:8])
os.makedirs(scratch, exist_ok=True)
def kv(s):
    return {a.split("=")[0]: int(a.split("=")[1], 0) for a in s.split(",") if a}
if sys.argv[1] == "-c":
    decl, body, init, exp = sys.argv[2:6]
    args = sys.argv[6:] or ["-O0"]
    lifted = {"source": "%s\nvoid main() { %s }\n" % (decl, body), "args": args, "expect": {"panic": False}, "simulate": {"init": kv(init), "expect": kv(exp), "stack_empty": True}}
    r = replay.run_probe(lifted, scratch)
    if "-v" in os.environ.get("TRY_FLAGS", ""):
        print(r["stdout"])
    print(json.dumps({k: r.get(k) for k in ("disagrees", "simulation", "stderr")}, indent=1)[:1500])
