#!/bin/bash
# tools/run_all.sh [--update-ledger]: run every claimed check once (refreshes evidence); prints one line per property
cd /verif
for p in $(python3 -c "import json;print(' '.join(c['property_id'] for c in json.load(open('MANIFEST.json'))['checks']))"); do
  timeout 1500 ./check $p "$@" > /tmp/run_all_$p.log 2>&1; rc=$?
  echo "exit=$rc $(tail -1 /tmp/run_all_$p.log)"
done
