#!/bin/sh
# tools/mut.sh <prop> <file> <python-regex> <replacement> [count]  -- apply one textual change to a scratch copy of /repo and run the check
PROP=$1; FILE=$2; PAT=$3; REP=$4; CNT=${5:-1}
D=$(mktemp -d /var/tmp/mut_XXXXXX)
rsync -a --exclude target --exclude .git ${MUT_SRC:-/repo}/ $D/
python3 - "$D/$FILE" "$PAT" "$REP" "$CNT" <<'PY'
import re,sys
p,pat,rep,cnt=sys.argv[1:5]
s=open(p).read()
n,k=re.subn(pat,rep,s,count=int(cnt),flags=re.M|re.S)
if k==0: print("MUTATION DID NOT APPLY"); sys.exit(3)
open(p,'w').write(n)
PY
[ $? = 3 ] && { rm -rf $D; exit 3; }
(cd /verif && VERIF_REPO=$D VERIF_NO_EVIDENCE=1 ./check $PROP $6 $7 | grep -v "^$" | tail -6; )
rm -rf $D
