#!/usr/bin/env python3
"""Development aid (not a registered check): run a unit's candidates() on the real compiler + interpreter and list the disagreements.
usage: VERIF_REPO=<tree> tools/try_candidates.py u_switch"""
import sys, os, json, importlib
sys.path.insert(0, os.path.dirname(os.path.dirname(os.path.abspath(__file__))))
from vf import replay, core
scratch = os.environ.get("TRY_SCRATCH", "/tmp/pp/try_" + __import__("hashlib").md5(core.REPO.encode()).hexdigest()[:8])
os.makedirs(scratch, exist_ok=True)
mod = importlib.import_module("units." + sys.argv[1])
cs = mod.candidates(None)
bad = 0
for c in cs:
    r = replay.run_probe(c, scratch)
    if r.get("disagrees"):
        bad += 1
        print("DISAGREES", c.get("note"), c["source"].replace("\n", " ")[:200], json.dumps(r.get("simulation"))[:300])
print("%d / bad %d" % (len(cs), bad))
