"""./check <Cxx> [--tier quick|thorough] [--keep] [--update-ledger] | --replay <file> | --list"""
import argparse
import concurrent.futures as cf
import json
import os
import shutil
import sys
import tempfile
import time

from . import core
from .rustcut import Undecided

PROP_UNITS = None


def units_for(prop, units):
    return [m for m in units.values() if prop in m.PROPS]


def main(argv=None):
    ap = argparse.ArgumentParser()
    ap.add_argument("prop", nargs="?")
    ap.add_argument("--tier", default=os.environ.get("VERIF_TIER", "quick"))
    ap.add_argument("--keep", action="store_true", help="keep the scratch directory (debugging)")
    ap.add_argument("--update-ledger", action="store_true")
    ap.add_argument("--replay")
    ap.add_argument("--list", action="store_true")
    ap.add_argument("--unit", action="append", help="restrict to these units (debugging; evidence is not written)")
    ap.add_argument("--verbose", "-v", action="store_true")
    ap.add_argument("--no-evidence", action="store_true")
    ap.add_argument("--jobs", type=int, default=int(os.environ.get("VERIF_JOBS", "16")))
    a = ap.parse_args(argv)
    sys.path.insert(0, core.VERIF)
    units = core.load_units()
    if a.list:
        for n, m in units.items():
            print(n, m.TOOL, ",".join(m.PROPS))
        return 0
    if a.replay:
        from . import replay
        return replay.replay_file(a.replay)
    if not a.prop:
        ap.error("property id required")
    prop = a.prop
    seed = int(os.environ.get("VERIF_SEED", "0") or 0)
    tier = a.tier if a.tier in ("quick", "thorough") else "quick"
    mods = units_for(prop, units)
    if a.unit:
        mods = [m for m in mods if m.NAME in a.unit]
    if not mods:
        print("no unit serves %s (see MANIFEST.not_applicable)" % prop)
        return 2
    scratch = tempfile.mkdtemp(prefix="vf_%s_" % prop, dir=os.environ.get("VERIF_SCRATCH", "/var/tmp"))
    t0 = time.time()
    try:
        results = []
        nk = sum(1 for m in mods if m.TOOL == "kani") or 1
        kjobs = max(4, a.jobs // 2)      # harness processes are single-threaded and short: oversubscription keeps the cores busy
        with cf.ThreadPoolExecutor(max_workers=min(len(mods), 8)) as ex:
            futs = {ex.submit(core.run_unit, m, scratch, tier, seed, kjobs): m for m in mods}
            for f in cf.as_completed(futs):
                m = futs[f]
                try:
                    results.extend(f.result())
                except Undecided as e:
                    r = core.Result(core.Unit(m.NAME, m.TOOL, m.PROPS, []), None)
                    r.undecided = str(e)
                    results.append(r)
        if a.verbose:
            for r in results:
                print("==== %s cfg=%s verified=%d errors=%d undecided=%s" % (r.unit.name, r.cfg, r.verified_count, r.error_count, r.undecided))
                print(r.raw_tail)
        if a.update_ledger:
            os.makedirs(os.path.join(core.VERIF, "ledger"), exist_ok=True)
            for r in results:
                if r.undecided:
                    print("UNDECIDED unit=%s reason=%s (ledger not updated)" % (r.unit.name, r.undecided))
                    continue
                name = r.unit.name + (("@" + r.cfg) if r.cfg else "")
                json.dump({"obligations": sorted(set(o["id"] for o in r.obligations)), "verified_count": r.verified_count},
                          open(os.path.join(core.VERIF, "ledger", name + ".json"), "w"), indent=1, sort_keys=True)
        if tier == "thorough":
            from . import mutants
            mres = mutants.run_catalogue(prop, mods, scratch, a.jobs) if not a.unit else None
        else:
            mres = None
        return verdict(prop, tier, seed, mods, results, time.time() - t0, write=not (a.unit or a.no_evidence or os.environ.get('VERIF_NO_EVIDENCE')), mres=mres, scratch=scratch)
    finally:
        if a.keep:
            print("scratch kept:", scratch)
        else:
            shutil.rmtree(scratch, ignore_errors=True)


def serves(prop, props, unit):
    """an obligation counts for the property it is tagged with; in a unit that serves C15, an obligation about what the emitted code computes (C01)
    counts for C15 as well: a construct translated wrongly differs from its rewritten form translated rightly; so does an obligation about the optimizer
    leaving the computation alone (C02): the final state C15 speaks of is that of the code after optimization, and one of two equivalent forms may be
    the only one a wrong rule fires on"""
    return prop in props or (prop == "C15" and ("C01" in props or "C02" in props) and "C15" in unit.props)


def verdict(prop, tier, seed, mods, results, wall, write=True, mres=None, scratch=None):
    known, fixed = core.load_known()
    known_ids = {e["obligation"]: e for e in known}      # an obligation may serve several properties
    undecided = [r for r in results if r.undecided]
    obligations = {}
    bounded_obl = {}       # bounded stand-ins (simulation corpus): reported, never counted as proof obligations
    failed = {}
    for r in results:
        if r.undecided:
            continue
        for o in r.obligations:
            if serves(prop, o["props"], r.unit):
                key = o["id"] + (("@" + r.cfg) if r.cfg else "")
                if o.get("bounded"):
                    bounded_obl[key] = dict(o, cfg=r.cfg)
                else:
                    obligations[key] = dict(o, cfg=r.cfg)
        for f in r.failed:
            if serves(prop, f["props"], r.unit):
                key = f["id"] + (("@" + r.cfg) if r.cfg else "")
                failed[key] = f
                if key not in obligations and key not in bounded_obl:   # side condition discovered by the verifier
                    obligations[key] = {"id": f["id"], "props": f["props"], "clause": f["clause"], "backend": "verus/z3" if r.unit.tool == "verus" else "kani/cbmc", "unit": r.unit.name, "cfg": r.cfg, "side_condition": True}
    # harnesses whose solver timed out: neither discharged nor failed
    timeouts = []
    for r in results:
        for oid in getattr(r, "timeouts", []) or []:
            key = oid + (("@" + r.cfg) if r.cfg else "")
            if key in obligations:
                del obligations[key]
                timeouts.append((r.unit.name, r.cfg, oid))
    # implicit side conditions: each verus query (function / loop) that verified carries its
    # overflow / index / unwrap / unreachable obligations; counted from the verifier's own report.
    implicit = sum(r.verified_count for r in results if r.unit.tool == "verus" and not r.undecided and prop in r.unit.implicit)
    violations = []
    known_seen = []
    for key, f in sorted(failed.items()):
        e = known_ids.get(f["id"])
        if e is not None and (not e.get("cfg") or e.get("cfg") == f.get("cfg")):
            known_seen.append((e, f))
        else:
            violations.append((key, f))
    out_lines = []
    for e, f in known_seen:
        out_lines.append("KNOWN-FINDING: property=%s %s — %s [witness: %s]" % (prop, f["id"], e.get("what", ""), e.get("witness", "")))
    replay_paths = []
    if violations:
        os.makedirs(os.path.join(core.VERIF, "replay"), exist_ok=True)
        from . import replay
        for key, f in violations:
            path, reproduced = replay.make_replay(prop, key, f, results, scratch)
            replay_paths.append(path)
            out_lines.append("VIOLATION property=%s replay=%s%s" % (prop, path, "" if reproduced else " no-failing-input-found"))
    for r in undecided:
        out_lines.append("UNDECIDED unit=%s%s reason=%s" % (r.unit.name, ("@" + r.cfg) if r.cfg else "", r.undecided))
    for un, cfg, oid in timeouts:
        out_lines.append("UNDECIDED unit=%s%s reason=solver timeout on %s (neither discharged nor failed)" % (un, ("@" + cfg) if cfg else "", oid))
    mut_info = None
    if mres is not None:
        mut_info = mres
        for m in mres.get("missed", []):
            out_lines.append("UNDECIDED mutant-catalogue: seeded change %s was not caught by %s" % (m["name"], m["expect"]))
    # obligations recorded as known findings are reported separately and not counted as obligations of this run
    n_known = len([1 for e, f in known_seen if (f["id"] + (("@" + f["cfg"]) if f.get("cfg") else "")) not in bounded_obl])
    n_viol_proof = len([1 for key, f in violations if key not in bounded_obl])
    n_obl = len(obligations) + implicit - n_known
    discharged = n_obl - n_viol_proof
    bounded_info = None
    if bounded_obl:
        bfailed = [k for k in bounded_obl if k in failed]
        bounded_info = {"label": "BOUNDED stand-in, not a proof and not counted in obligations/discharged: programs compiled by the real compiler, emitted code executed on a 6502 interpreter "
                                 "from stated initial values, result compared with C semantics",
                        "groups": len(bounded_obl), "groups_agreeing": len(bounded_obl) - len(bfailed),
                        "programs": sum(getattr(r, "programs", 0) for r in results if r.unit.tool == "sim" and not r.undecided),
                        "groups_disagreeing": sorted(bfailed), "bound": "the listed programs and initial values only"}
    ev = {
        "property_id": prop,
        "tier": tier,
        "seed": seed,
        "level": "proof",
        "coverage": {
            "obligations": n_obl,
            "discharged": discharged,
            "named_obligations": len(obligations),
            "implicit_side_condition_queries": implicit,
            "checker_cmd": " ; ".join(sorted(set(r.cmd for r in results if r.cmd))),
            "trusted_base": sorted(set(sum([list(getattr(m, "TRUSTED", [])) for m in mods], []))),
            "functions_under_contract": sorted(set(sum([list(r.unit.functions) for r in results], []))),
            "units": [{"unit": r.unit.name, "cfg": r.cfg, "tool": r.unit.tool, "named": len(r.obligations), "verifier_verified": r.verified_count,
                       "verifier_errors": r.error_count, "solver_s": round(r.solver_s, 3), "wall_s": round(r.wall_s, 2),
                       "undecided": r.undecided, "extraction_drops": r.unit.dropped, "rewrites": r.unit.rewrites[:40], "bounded": r.unit.bounded,
                       "stability": getattr(r, "stability", None), "assumption_sites": getattr(r, "assumption_sites", [])} for r in results],
            "samples": [{"obligation": k, "clause": o["clause"][:300], "backend": o["backend"], "unit": o["unit"]} for k, o in sorted(obligations.items())][:400],
            "failed": [{"obligation": k, "kind": f["kind"], "message": f["message"][:300]} for k, f in sorted(failed.items())],
            "known_findings_seen": [e["obligation"] for e, f in known_seen],
            "undecided_units": [r.unit.name for r in undecided],
            "explanation": "obligations = named contract clauses (ensures / invariant / call-site requires / asserts / Kani harnesses) generated from /repo's current text for this property + verifier queries carrying the implicit panic-freedom side conditions of the functions under contract; discharged = those the back end accepted on this run",
            "mutant_catalogue": mut_info,
            "bounded_stand_in": bounded_info,
        },
        "assumptions": sorted(set(sum([list(r.unit.assumptions) for r in results], []))),
        "wall_s": round(wall, 2),
        "violations": len(violations),
    }
    if write:
        os.makedirs(os.path.join(core.VERIF, "evidence"), exist_ok=True)
        with open(os.path.join(core.VERIF, "evidence", prop + ".json"), "w") as f:
            json.dump(ev, f, indent=1)
    for l in out_lines:
        print(l)
    print("%s tier=%s units=%d obligations=%d discharged=%d known=%d violations=%d undecided=%d%s wall=%.1fs" % (
        prop, tier, len(results), n_obl, discharged, len(known_seen), len(violations), len(undecided) + len(timeouts),
        (" bounded-groups=%d/%d" % (bounded_info["groups_agreeing"], bounded_info["groups"])) if bounded_info else "", wall))
    if violations:
        return 1
    if undecided or timeouts or (mres and mres.get("missed")):
        return 2
    return 0


def undecided_blocks(prop, undecided):
    """A unit that could not be set up makes the whole run undecided (exit 2): no VIOLATION line."""
    return bool(undecided)


if __name__ == "__main__":
    sys.exit(main())
