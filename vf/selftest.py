"""setup_cmd: nothing to build (pure python + installed verifiers); checks the tools are present."""
import shutil, subprocess, sys
ok = True
for t in ("verus", "cargo", "cargo-kani"):
    if shutil.which(t) is None:
        print("missing tool:", t); ok = False
sys.exit(0 if ok else 1)
