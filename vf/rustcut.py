"""Rust-aware text cutting: a masker that blanks comments / strings / char literals,
brace matching, item lookup, and the Cut object that carries text taken from /repo
plus every rewrite and splice applied to it.

Nothing here parses Rust; it is a tokenizer-level tool.  Whatever it cannot find
raises Undecided (exit 2 in the check), never an alarm.
"""
import re


class Undecided(Exception):
    """The machinery could not set up the verification problem (lost anchor, ...)."""


def mask(text):
    """Return a string of the same length where the *contents* of comments, string
    literals and char literals are replaced by spaces (newlines kept)."""
    out = list(text)
    n = len(text)
    i = 0

    def blank(a, b):
        for k in range(a, b):
            if out[k] != "\n":
                out[k] = " "

    while i < n:
        c = text[i]
        if c == "/" and i + 1 < n and text[i + 1] == "/":
            j = text.find("\n", i)
            if j < 0:
                j = n
            blank(i, j)
            i = j
        elif c == "/" and i + 1 < n and text[i + 1] == "*":
            depth = 1
            j = i + 2
            while j < n and depth > 0:
                if text.startswith("/*", j):
                    depth += 1
                    j += 2
                elif text.startswith("*/", j):
                    depth -= 1
                    j += 2
                else:
                    j += 1
            blank(i, j)
            i = j
        elif c == '"' or (c in "br" and re.match(r'(?:b?r#*"|b")', text[i:i + 8]) and (i == 0 or not (text[i - 1].isalnum() or text[i - 1] == "_"))):
            m = re.match(r'(b?)(r?)(#*)"', text[i:i + 40])
            if m is None:
                i += 1
                continue
            raw = m.group(2) == "r"
            hashes = m.group(3)
            j = i + m.end()
            if raw:
                endtok = '"' + hashes
                k = text.find(endtok, j)
                if k < 0:
                    k = n
                blank(i + m.end(), k)
                i = k + len(endtok)
            else:
                while j < n and text[j] != '"':
                    if text[j] == "\\":
                        j += 1
                    j += 1
                blank(i + 1, j)
                i = j + 1
        elif c == "'":
            # char literal or lifetime
            m = re.match(r"'(?:\\(?:u\{[0-9a-fA-F_]+\}|x[0-9a-fA-F]{2}|.)|[^\\'\n])'", text[i:i + 14])
            if m:
                blank(i + 1, i + m.end() - 1)
                i += m.end()
            else:
                i += 1
        else:
            i += 1
    return "".join(out)


def match_brace(masked, open_idx, open_ch="{", close_ch="}"):
    assert masked[open_idx] == open_ch, (masked[open_idx - 10:open_idx + 10], open_ch)
    depth = 0
    for k in range(open_idx, len(masked)):
        ch = masked[k]
        if ch == open_ch:
            depth += 1
        elif ch == close_ch:
            depth -= 1
            if depth == 0:
                return k
    raise Undecided("unbalanced %s at offset %d" % (open_ch, open_idx))


def line_of(text, idx):
    return text.count("\n", 0, idx) + 1


def line_start(text, idx):
    return text.rfind("\n", 0, idx) + 1


def norm_ws(s):
    return re.sub(r"\s+", " ", s).strip()


class SourceFile:
    def __init__(self, repo, rel):
        self.rel = rel
        self.path = "%s/%s" % (repo, rel)
        try:
            with open(self.path) as f:
                self.text = f.read()
        except OSError as e:
            raise Undecided("cannot read %s: %s" % (self.path, e))
        self.masked = mask(self.text)

    # ---- lookup -------------------------------------------------------
    def _span_of_block(self, start_kw_idx):
        ob = self.masked.find("{", start_kw_idx)
        if ob < 0:
            raise Undecided("no body after offset %d in %s" % (start_kw_idx, self.rel))
        return ob, match_brace(self.masked, ob)

    def find_impl(self, name, nth=1):
        """Span (start, open_brace, close_brace) of the nth `impl … name {`."""
        pat = re.compile(r"\bimpl(?:\s*<[^>{]*>)?\s+(?:[\w:<>']+\s+for\s+)?" + re.escape(name) + r"\b[^{;]*\{")
        ms = [m for m in pat.finditer(self.masked)]
        if len(ms) < nth:
            raise Undecided("impl %s (#%d) not found in %s" % (name, nth, self.rel))
        m = ms[nth - 1]
        ob = m.end() - 1
        return m.start(), ob, match_brace(self.masked, ob)

    def find_fn_span(self, name, lo=0, hi=None, nth=1):
        hi = len(self.text) if hi is None else hi
        pat = re.compile(r"\bfn\s+" + re.escape(name) + r"\b")
        ms = [m for m in pat.finditer(self.masked, lo, hi)]
        if len(ms) < nth:
            raise Undecided("fn %s (#%d) not found in %s" % (name, nth, self.rel))
        m = ms[nth - 1]
        start = line_start(self.text, m.start())
        # include attribute lines directly above
        while True:
            prev_end = start - 1
            if prev_end <= 0:
                break
            prev_start = line_start(self.text, prev_end)
            if self.masked[prev_start:prev_end].strip().startswith("#["):
                start = prev_start
            else:
                break
        # parameters
        op = self.masked.find("(", m.end())
        cp = match_brace(self.masked, op, "(", ")")
        ob = self.masked.find("{", cp)
        semi = self.masked.find(";", cp)
        if ob < 0 or (0 <= semi < ob):
            raise Undecided("fn %s has no body in %s" % (name, self.rel))
        cb = match_brace(self.masked, ob)
        return start, ob, cb

    def fn(self, name, within=None, nth=1, within_nth=1):
        lo, hi = 0, None
        if within:
            _, ob, cb = self.find_impl(within, within_nth)
            lo, hi = ob, cb
        start, ob, cb = self.find_fn_span(name, lo, hi, nth)
        c = Cut(self.text[start:cb + 1], self.rel, line_of(self.text, start), "fn " + name)
        c.header_end = ob - start
        return c

    def item(self, kind, name):
        """enum / struct / const item, with its attributes."""
        pat = re.compile(r"^[ \t]*(?:pub(?:\([^)]*\))?\s+)?" + kind + r"\s+" + re.escape(name) + r"\b", re.M)
        m = pat.search(self.masked)
        if not m:
            raise Undecided("%s %s not found in %s" % (kind, name, self.rel))
        start = m.start()
        while True:
            prev_end = start - 1
            if prev_end <= 0:
                break
            prev_start = line_start(self.text, prev_end)
            if self.masked[prev_start:prev_end].strip().startswith("#["):
                start = prev_start
            else:
                break
        ob = self.masked.find("{", m.end())
        semi = self.masked.find(";", m.end())
        if 0 <= semi and (ob < 0 or semi < ob):
            end = semi
        else:
            end = match_brace(self.masked, ob)
        return Cut(self.text[start:end + 1], self.rel, line_of(self.text, start), "%s %s" % (kind, name))

    def block(self, start_re, end_re, lo=0, hi=None, nth=1, include_end=False, desc=None):
        """Text from the line matching start_re (nth) to the line matching end_re
        (first after start).  Both matched on the raw text (anchors are often comments)."""
        hi = len(self.text) if hi is None else hi
        ms = [m for m in re.finditer(start_re, self.text[lo:hi], re.M)]
        if len(ms) < nth:
            raise Undecided("block start /%s/ (#%d) not found in %s" % (start_re, nth, self.rel))
        s = lo + ms[nth - 1].start()
        s = line_start(self.text, s)
        m2 = re.search(end_re, self.text[s + 1:hi], re.M)
        if not m2:
            raise Undecided("block end /%s/ not found in %s" % (end_re, self.rel))
        e = s + 1 + (m2.end() if include_end else m2.start())
        if not include_end:
            e = line_start(self.text, e)
        else:
            nl = self.text.find("\n", e)
            e = nl + 1 if nl >= 0 else len(self.text)
        return Cut(self.text[s:e], self.rel, line_of(self.text, s), desc or ("block /%s/" % start_re))

    def closure_arg(self, call_re, lo=0, hi=None, nth=1, desc=None):
        """R7: the closure passed as the (only) argument of the call matched by call_re, e.g.
        r"\.map_infix\(".  Returns (params_text, body Cut) -- body is the text after `|params|`
        (and an optional `-> T`) up to the call's closing parenthesis."""
        hi = len(self.text) if hi is None else hi
        ms = [m for m in re.finditer(call_re, self.masked[lo:hi])]
        if len(ms) < nth:
            raise Undecided("call /%s/ (#%d) not found in %s" % (call_re, nth, self.rel))
        op = lo + ms[nth - 1].end() - 1
        if self.masked[op] != "(":
            raise Undecided("call_re must end at the opening parenthesis: /%s/" % call_re)
        cp = match_brace(self.masked, op, "(", ")")
        inner = self.masked[op + 1:cp]
        m = re.match(r"\s*(?:move\s+)?\|([^|]*)\|\s*(?:->\s*[^\{]+?)?(?=\{|\S)", inner)
        if not m:
            raise Undecided("argument of /%s/ is not a closure" % call_re)
        bs = op + 1 + m.end()
        body = self.text[bs:cp].rstrip()
        c = Cut(body, self.rel, line_of(self.text, bs), desc or ("closure passed to /%s/" % call_re))
        return m.group(1).strip(), c

    def stmt(self, start_re, lo=0, hi=None, nth=1, desc=None):
        """The statement that starts at the nth match of start_re and ends at the first `;` at nesting depth 0."""
        hi = len(self.text) if hi is None else hi
        ms = [m for m in re.finditer(start_re, self.masked[lo:hi], re.M)]
        if len(ms) < nth:
            raise Undecided("statement /%s/ (#%d) not found in %s" % (start_re, nth, self.rel))
        s = lo + ms[nth - 1].start()
        depth = 0
        j = s
        while j < hi:
            ch = self.masked[j]
            if ch in "([{":
                depth += 1
            elif ch in ")]}":
                depth -= 1
                if depth < 0:
                    raise Undecided("statement /%s/ not terminated in %s" % (start_re, self.rel))
            elif ch == ";" and depth == 0:
                break
            j += 1
        return Cut(self.text[s:j + 1], self.rel, line_of(self.text, s), desc or ("stmt /%s/" % start_re))

    def if_chain_end(self, idx):
        """idx at an `if` keyword: offset just past the end of the whole if / else-if / else statement."""
        m = self.masked
        if not m.startswith("if", idx):
            raise Undecided("if_chain_end: no `if` at offset %d of %s" % (idx, self.rel))
        j = idx
        while True:
            depth = 0
            k = j
            ob = None
            while k < len(m):
                ch = m[k]
                if ch in "([":
                    depth += 1
                elif ch in ")]":
                    depth -= 1
                elif ch == "{" and depth == 0:
                    ob = k
                    break
                k += 1
            if ob is None:
                raise Undecided("if_chain_end: no block in %s" % self.rel)
            cb = match_brace(m, ob)
            r = re.match(r"\s*else\b\s*", m[cb + 1:])
            if not r:
                return cb + 1
            j = cb + 1 + r.end()
            if m.startswith("if", j):
                continue
            ob2 = m.find("{", j)
            return match_brace(m, ob2) + 1

    def cut_span(self, a, b, desc):
        a0 = line_start(self.text, a)
        return Cut(self.text[a0:b], self.rel, line_of(self.text, a0), desc)

    def braced_after(self, start_re, lo=0, hi=None, nth=1, desc=None):
        """The statement starting at the line matching start_re through the brace
        block that the match opens (first `{` after the match start)."""
        hi = len(self.text) if hi is None else hi
        ms = [m for m in re.finditer(start_re, self.masked[lo:hi], re.M)]
        if len(ms) < nth:
            raise Undecided("anchor /%s/ (#%d) not found in %s" % (start_re, nth, self.rel))
        s = lo + ms[nth - 1].start()
        ob = self.masked.find("{", s)
        cb = match_brace(self.masked, ob)
        s0 = line_start(self.text, s)
        return Cut(self.text[s0:cb + 1], self.rel, line_of(self.text, s0), desc or ("stmt /%s/" % start_re))


class Cut:
    """A piece of text from /repo plus the log of everything done to it."""

    def __init__(self, text, rel, line0, desc):
        self.text = text
        self.raw = text
        self.rel = rel
        self.line0 = line0
        self.desc = desc
        self.header_end = None
        self.log = []          # rewrite rules that fired
        self.nclauses = 0

    # ---- rewrites on the real text (recorded) ---------------------------
    def sub(self, pattern, repl, rule, expect=None, flags=re.M):
        new, n = re.subn(pattern, repl, self.text, flags=flags)
        if expect is not None:
            ok = (n == expect) if isinstance(expect, int) else (expect[0] <= n <= expect[1])
            if not ok:
                raise Undecided("%s: rewrite %s /%s/ fired %d times, expected %s" % (self.desc, rule, pattern, n, expect))
        if n:
            self.log.append("%s x%d: /%s/ -> %r" % (rule, n, pattern, repl if isinstance(repl, str) else "<fn>"))
        self.text = new
        return n

    def _masked(self):
        return mask(self.text)

    def set_header(self, new_header, expect_sig=None):
        """Replace everything before the body's `{` by new_header (signature + contract)."""
        m = self._masked()
        # header end: first `{` after the parameter list of the first `fn`
        f = re.search(r"\bfn\s+\w+", m)
        if not f:
            raise Undecided("%s: no fn header" % self.desc)
        op = m.find("(", f.end())
        cp = match_brace(m, op, "(", ")")
        ob = m.find("{", cp)
        old = self.text[:ob]
        if expect_sig is not None and norm_ws(expect_sig) not in norm_ws(old):
            raise Undecided("%s: signature changed: %r lacks %r" % (self.desc, norm_ws(old), norm_ws(expect_sig)))
        self.text = new_header.rstrip() + "\n{ /*@body*/" + self.text[ob + 1:]
        self.log.append("header: signature kept, contract spliced (was %r)" % norm_ws(old))

    def body_start(self, ins):
        """Insert at the very start of the function body (after set_header)."""
        k = self.text.find("{ /*@body*/")
        if k < 0:
            raise Undecided("%s: body_start before set_header" % self.desc)
        k += len("{ /*@body*/")
        self.text = self.text[:k] + "\n" + ins.rstrip() + "\n" + self.text[k:]

    def body_only(self):
        """Strip the fn header and outer braces; returns the inner text."""
        m = self._masked()
        f = re.search(r"\bfn\s+\w+", m)
        op = m.find("(", f.end())
        cp = match_brace(m, op, "(", ")")
        ob = m.find("{", cp)
        cb = match_brace(m, ob)
        return self.text[ob + 1:cb]

    def loops(self):
        m = self._masked()
        res = []
        for k in re.finditer(r"\b(loop|while|for)\b", m):
            # skip `for` in `impl X for Y` / HRTB
            if k.group(1) == "for":
                after = m[k.end():k.end() + 2]
                if after.lstrip().startswith("<"):
                    continue
                before = m[max(0, k.start() - 60):k.start()]
                if re.search(r"\bimpl\b[^;{}]*$", before):
                    continue
            # body brace: first `{` at paren depth 0
            depth = 0
            j = k.end()
            ob = None
            while j < len(m):
                ch = m[j]
                if ch in "([":
                    depth += 1
                elif ch in ")]":
                    depth -= 1
                elif ch == "{" and depth == 0:
                    ob = j
                    break
                elif ch == ";" and depth == 0:
                    break
                j += 1
            if ob is None:
                continue
            res.append((k.start(), k.group(1), ob))
        return res

    def loop_spec(self, nth, expect_re, spec, new_header=None):
        """Insert `spec` (invariant/ensures/decreases clauses) between the header of the
        nth loop (1-based, textual order) and its body.  expect_re must match the header."""
        ls = self.loops()
        if len(ls) < nth:
            raise Undecided("%s: loop #%d not found (%d loops)" % (self.desc, nth, len(ls)))
        ks, kw, ob = ls[nth - 1]
        header = self.text[ks:ob]
        if not re.search(expect_re, norm_ws(header)):
            raise Undecided("%s: loop #%d header %r does not match /%s/" % (self.desc, nth, norm_ws(header), expect_re))
        h = new_header if new_header is not None else header.rstrip()
        self.text = self.text[:ks] + h + "\n" + spec.rstrip() + "\n" + self.text[ob:]
        if new_header is not None:
            self.log.append("loop#%d header %r -> %r" % (nth, norm_ws(header), new_header))

    def _find(self, pattern, nth, what):
        m = self._masked()
        ms = [x for x in re.finditer(pattern, m, re.M)]
        if len(ms) < nth:
            raise Undecided("%s: %s anchor /%s/ (#%d) not found" % (self.desc, what, pattern, nth))
        return ms[nth - 1]

    def before(self, pattern, ins, nth=1):
        """Insert text on its own line before the line containing the nth match."""
        x = self._find(pattern, nth, "before")
        ls = line_start(self.text, x.start())
        self.text = self.text[:ls] + ins.rstrip() + "\n" + self.text[ls:]

    def after(self, pattern, ins, nth=1):
        """Insert text right after the nth match (same line)."""
        x = self._find(pattern, nth, "after")
        self.text = self.text[:x.end()] + " " + ins.strip() + " " + self.text[x.end():]

    def after_line(self, pattern, ins, nth=1):
        x = self._find(pattern, nth, "after_line")
        le = self.text.find("\n", x.end())
        le = len(self.text) if le < 0 else le
        self.text = self.text[:le + 1] + ins.rstrip() + "\n" + self.text[le + 1:]

    def after_stmt(self, pattern, ins, nth=1):
        """Insert after the end (`;` at nesting depth 0) of the statement that starts at the nth match."""
        x = self._find(pattern, nth, "after_stmt")
        m = self._masked()
        depth = 0
        j = x.start()
        while j < len(m):
            ch = m[j]
            if ch in "([{":
                depth += 1
            elif ch in ")]}":
                depth -= 1
                if depth < 0:
                    raise Undecided("%s: statement at /%s/ is not terminated" % (self.desc, pattern))
            elif ch == ";" and depth == 0:
                break
            j += 1
        if j >= len(m):
            raise Undecided("%s: statement at /%s/ has no end" % (self.desc, pattern))
        self.text = self.text[:j + 1] + "\n" + ins.rstrip() + "\n" + self.text[j + 1:]

    def _block_of(self, pattern, nth, what):
        x = self._find(pattern, nth, what)
        m = self._masked()
        ob = m.find("{", x.end() - 1 if m[x.end() - 1] == "{" else x.end())
        if ob < 0:
            raise Undecided("%s: no block after /%s/" % (self.desc, pattern))
        return ob, match_brace(m, ob)

    def after_block(self, pattern, ins, nth=1):
        """Insert right after the closing brace of the block opened at (or after) the nth match."""
        ob, cb = self._block_of(pattern, nth, "after_block")
        self.text = self.text[:cb + 1] + " " + ins.strip() + "\n" + self.text[cb + 1:]

    def at_block_end(self, pattern, ins, nth=1):
        """Insert just before the closing brace of the block opened at (or after) the nth match."""
        ob, cb = self._block_of(pattern, nth, "at_block_end")
        self.text = self.text[:cb] + "\n" + ins.rstrip() + "\n" + self.text[cb:]

    def at_block_start(self, pattern, ins, nth=1):
        ob, cb = self._block_of(pattern, nth, "at_block_start")
        self.text = self.text[:ob + 1] + "\n" + ins.rstrip() + "\n" + self.text[ob + 1:]

    def all_before(self, pattern, ins, expect=None):
        """Insert before *every* line matching pattern (hint placement robust to edits)."""
        m = self._masked()
        ms = [x for x in re.finditer(pattern, m, re.M)]
        if expect is not None and not (expect[0] <= len(ms) <= expect[1]):
            raise Undecided("%s: anchor /%s/ matched %d times, expected %s" % (self.desc, pattern, len(ms), expect))
        for x in reversed(ms):
            ls = line_start(self.text, x.start())
            self.text = self.text[:ls] + ins.rstrip() + "\n" + self.text[ls:]
        return len(ms)

    def diff_summary(self):
        return list(self.log)


def while_let_to_loop(cut, nth_loop, expect_re):
    """R10: `while let Some(P) = E { B }` -> `loop { let __o = E; match __o { Some(P) => { B } None => { break; } } }`"""
    ls = cut.loops()
    if len(ls) < nth_loop:
        raise Undecided("%s: loop #%d not found" % (cut.desc, nth_loop))
    ks, kw, ob = ls[nth_loop - 1]
    header = cut.text[ks:ob]
    mm = re.match(r"while\s+let\s+Some\((.*?)\)\s*=\s*(.*?)\s*$", header, re.S)
    if kw != "while" or not mm or not re.search(expect_re, norm_ws(header)):
        raise Undecided("%s: loop #%d is not the expected while-let: %r" % (cut.desc, nth_loop, norm_ws(header)))
    m = mask(cut.text)
    cb = match_brace(m, ob)
    body = cut.text[ob + 1:cb]
    pat, expr = mm.group(1), mm.group(2)
    new = "loop /*@R10*/ { let __o = %s; match __o { Some(%s) => {%s} None => { break; } } }" % (expr, pat, body)
    cut.text = cut.text[:ks] + new + cut.text[cb + 1:]
    cut.log.append("R10 while-let -> loop/match: %r" % norm_ws(header))
