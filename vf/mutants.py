"""Thorough tier: replay the committed catalogue of seeded changes (/verif/seeded/*/patch.diff)
on a scratch copy of /repo and require each to be caught by a check of the property it names."""
import glob
import json
import os
import shutil
import subprocess

from . import core


def run_catalogue(prop, mods, scratch, jobs):
    res = {"ran": 0, "caught": [], "missed": [], "skipped": []}
    for d in sorted(glob.glob(os.path.join(core.VERIF, "seeded", "*"))):
        metaf = os.path.join(d, "meta.json")
        patch = os.path.join(d, "patch.diff")
        if not (os.path.exists(metaf) and os.path.exists(patch)):
            continue
        meta = json.load(open(metaf))
        if meta.get("property") != prop or not meta.get("expect_caught", False):
            continue
        copy = os.path.join(scratch, "repo_" + os.path.basename(d))
        subprocess.run(["git", "-C", core.REPO, "worktree", "prune"], capture_output=True)
        shutil.copytree(core.REPO, copy, ignore=shutil.ignore_patterns("target", ".git"))
        p = subprocess.run(["patch", "-p1", "-s", "-i", patch], cwd=copy, capture_output=True, text=True)
        if p.returncode != 0:
            res["skipped"].append({"name": os.path.basename(d), "why": "patch no longer applies"})
            shutil.rmtree(copy, ignore_errors=True)
            continue
        env = dict(os.environ, VERIF_REPO=copy, VERIF_TIER="quick", VERIF_NO_EVIDENCE="1")
        q = subprocess.run([os.path.join(core.VERIF, "check"), prop, "--tier", "quick", "--no-evidence"], env=env, capture_output=True, text=True)
        res["ran"] += 1
        entry = {"name": os.path.basename(d), "expect": prop, "exit": q.returncode}
        (res["caught"] if q.returncode == 1 and "VIOLATION property=%s" % prop in q.stdout else res["missed"]).append(entry)
        shutil.rmtree(copy, ignore_errors=True)
    return res
