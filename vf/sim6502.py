"""A small 6502 interpreter for the assembly text the probe driver prints (the subset of instructions and operand forms cc6502 emits).
Used only to REPLAY counterexamples of the Kani units on the real compiler's output: symbols are given distinct zero-page-like
addresses, a function is executed from its first line until RTS / end of text.  A-isa (MOS datasheet semantics)."""
import re


class Sim:
    def __init__(self, text, init=None, consts=None):
        self.lines = []
        self.labels = {}
        self.funcs = {}
        self.mem = {}
        self.sym = {}
        self.next_addr = 0x80
        self.consts = dict(consts or {})
        self.a = self.x = self.y = 0
        self.n = self.z = self.c = self.v = False
        self.stack = []
        self.types = {}
        self.tables = []
        cur = None
        for raw in text.split("\n"):
            m = re.match(r"FUNCTION (\w+) size=", raw)
            if m:
                cur = m.group(1)
                self.funcs[cur] = len(self.lines)
                continue
            m = re.match(r"CONST (\w+) = (-?\d+)", raw)
            if m:
                self.consts[m.group(1)] = int(m.group(2))
                continue
            m = re.match(r"VAR (\w+) type=(\w+) size=(\d+) const=(\w+)", raw)
            if m:
                # lay the variable out with its real size (arrays longer than the default spacing must not run into the next symbol)
                name, ty, size, const = m.group(1), m.group(2), int(m.group(3)), m.group(4) == "true"
                if name not in self.consts and name not in self.sym:
                    elem = 1 if ty in ("Char", "CharPtr") else 2
                    nbytes = (size * elem) if (const or ty in ("Char", "Short")) else 2
                    self.types[name] = (ty, size)
                    self.sym[name] = self.next_addr
                    self.next_addr += max(16, (nbytes + 19) // 16 * 16)
                continue
            m = re.match(r"ARRAY (\w+) size=(\d+) = (.*)$", raw)
            if m:
                self.tables.append(("ints", m.group(1), [int(x) for x in m.group(3).split()]))
                continue
            m = re.match(r"PTRS (\w+) size=(\d+) = (.*)$", raw)
            if m:
                self.tables.append(("ptrs", m.group(1), m.group(3).split()))
                continue
            if cur is None or not raw.strip() or raw.startswith(";"):
                continue
            if not raw[0].isspace():
                self.labels[(cur, raw.strip())] = len(self.lines)
                self.lines.append((cur, "LABEL", raw.strip()))
            else:
                parts = raw.strip().split(None, 1)
                self.lines.append((cur, parts[0], parts[1].split(";")[0].strip() if len(parts) > 1 else ""))
        # initialised data: a table of chars is a run of bytes; a table of shorts / of addresses keeps its low bytes first, then its high bytes
        for kind, name, vals in self.tables:
            if name in self.consts:
                continue
            base = self.addr(name)
            ty, size = self.types.get(name, ("CharPtr", len(vals)))
            words = [(self.expr(v) if kind == "ptrs" else int(v)) & 0xffff for v in vals]
            if kind == "ptrs" or ty in ("ShortPtr", "CharPtrPtr"):
                n = max(size, len(words))
                for i, w in enumerate(words):
                    self.mem[base + i] = w & 0xff
                    self.mem[base + n + i] = (w >> 8) & 0xff
            else:
                for i, w in enumerate(words):
                    self.mem[base + i] = w & 0xff
        for k, v in (init or {}).items():
            self.poke_sym(k, v)

    # ---- symbols -------------------------------------------------------
    def addr(self, name):
        if name in self.consts:
            return self.consts[name]
        if name not in self.sym:
            self.sym[name] = self.next_addr
            self.next_addr += 16
        return self.sym[name]

    def poke_sym(self, name, value, size=1):
        a = self.expr(name) if "+" in name else self.addr(name)
        self.mem[a] = value & 0xff
        if size == 2 or value > 0xff or value < -128:
            self.mem[a + 1] = (value >> 8) & 0xff

    def peek_sym(self, name, size=1):
        a = self.expr(name) if "+" in name else self.addr(name)
        v = self.mem.get(a, 0)
        if size == 2:
            v |= self.mem.get(a + 1, 0) << 8
        return v

    def expr(self, e):
        e = e.strip()
        m = re.match(r"^\(?([A-Za-z_.][\w.]*)\s*\+\s*(-?\d+)\)?$", e)
        if m:
            return self.addr(m.group(1)) + int(m.group(2))
        if re.match(r"^-?\d+$", e):
            return int(e)
        if e.startswith("$"):
            return int(e[1:], 16)
        return self.addr(e.strip("()"))

    def operand(self, op):
        """-> (kind, value/address)"""
        if op == "":
            return ("acc", None)
        if op.startswith("#"):
            e = op[1:]
            if e.startswith("<"):
                return ("imm", self.expr(e[1:]) & 0xff)
            if e.startswith(">"):
                return ("imm", (self.expr(e[1:]) >> 8) & 0xff)
            return ("imm", self.expr(e) & 0xff)
        m = re.match(r"^\((.+)\),Y$", op)
        if m:
            p = self.expr(m.group(1))
            return ("mem", (self.mem.get(p, 0) | (self.mem.get(p + 1, 0) << 8)) + self.y)
        if op.endswith(",X"):
            return ("mem", self.expr(op[:-2]) + self.x)
        if op.endswith(",Y"):
            return ("mem", self.expr(op[:-2]) + self.y)
        return ("mem", self.expr(op))

    def rd(self, o):
        k, v = o
        return v if k == "imm" else (self.a if k == "acc" else self.mem.get(v, 0))

    def nz(self, v):
        self.n, self.z = bool(v & 0x80), (v & 0xff) == 0

    def run(self, func="main", max_steps=200000):
        pc = self.funcs[func]
        steps = 0
        callstack = []
        while True:
            if pc >= len(self.lines):
                if not callstack:
                    return "end"
                pc, func = callstack.pop()      # the called function is the last one of the text
                continue
            steps += 1
            if steps > max_steps:
                return "timeout"
            f, mn, op = self.lines[pc]
            if f != func:
                if not callstack:
                    return "end"
                pc, func = callstack.pop()      # end of a called function's text: the builder appends the RTS
                continue
            pc += 1
            if mn == "LABEL":
                continue
            if mn in ("BEQ", "BNE", "BMI", "BPL", "BCS", "BCC", "JMP"):
                t = {"BEQ": self.z, "BNE": not self.z, "BMI": self.n, "BPL": not self.n, "BCS": self.c, "BCC": not self.c, "JMP": True}[mn]
                if t:
                    if (f, op) not in self.labels:
                        return "undefined-label:" + op
                    pc = self.labels[(f, op)]
                continue
            if mn == "JSR":
                if op not in self.funcs:
                    return "undefined-function:" + op
                callstack.append((pc, func)); func = op; pc = self.funcs[op]; continue
            if mn in ("RTS", "RTI"):
                if not callstack:
                    return "rts"
                pc, func = callstack.pop(); continue
            o = self.operand(op) if mn not in ("TAX", "TAY", "TXA", "TYA", "CLC", "SEC", "INX", "INY", "DEX", "DEY", "PHA", "PLA", "PHP", "PLP", "NOP") else None
            if mn == "LDA": self.a = self.rd(o); self.nz(self.a)
            elif mn == "LDX": self.x = self.rd(o); self.nz(self.x)
            elif mn == "LDY": self.y = self.rd(o); self.nz(self.y)
            elif mn == "STA": self.mem[o[1]] = self.a
            elif mn == "STX": self.mem[o[1]] = self.x
            elif mn == "STY": self.mem[o[1]] = self.y
            elif mn == "TAX": self.x = self.a; self.nz(self.x)
            elif mn == "TAY": self.y = self.a; self.nz(self.y)
            elif mn == "TXA": self.a = self.x; self.nz(self.a)
            elif mn == "TYA": self.a = self.y; self.nz(self.a)
            elif mn == "CLC": self.c = False
            elif mn == "SEC": self.c = True
            elif mn in ("ADC", "SBC"):
                m = self.rd(o)
                if mn == "SBC": m ^= 0xff
                r = self.a + m + (1 if self.c else 0)
                self.v = bool((~(self.a ^ m) & (self.a ^ r)) & 0x80)
                self.c = r > 0xff; self.a = r & 0xff; self.nz(self.a)
            elif mn == "AND": self.a &= self.rd(o); self.nz(self.a)
            elif mn == "ORA": self.a |= self.rd(o); self.nz(self.a)
            elif mn == "EOR": self.a ^= self.rd(o); self.nz(self.a)
            elif mn in ("CMP", "CPX", "CPY"):
                reg = {"CMP": self.a, "CPX": self.x, "CPY": self.y}[mn]; m = self.rd(o)
                self.c = reg >= m; self.nz((reg - m) & 0xff)
            elif mn in ("INC", "DEC"):
                v = (self.mem.get(o[1], 0) + (1 if mn == "INC" else -1)) & 0xff; self.mem[o[1]] = v; self.nz(v)
            elif mn == "INX": self.x = (self.x + 1) & 0xff; self.nz(self.x)
            elif mn == "DEX": self.x = (self.x - 1) & 0xff; self.nz(self.x)
            elif mn == "INY": self.y = (self.y + 1) & 0xff; self.nz(self.y)
            elif mn == "DEY": self.y = (self.y - 1) & 0xff; self.nz(self.y)
            elif mn in ("ASL", "LSR", "ROL", "ROR"):
                v = self.rd(o)
                if mn == "ASL": c2 = bool(v & 0x80); v = (v << 1) & 0xff
                elif mn == "LSR": c2 = bool(v & 1); v >>= 1
                elif mn == "ROL": c2 = bool(v & 0x80); v = ((v << 1) | (1 if self.c else 0)) & 0xff
                else: c2 = bool(v & 1); v = (v >> 1) | (0x80 if self.c else 0)
                self.c = c2; self.nz(v)
                if o[0] == "acc": self.a = v
                else: self.mem[o[1]] = v
            elif mn == "PHA": self.stack.append(self.a)
            elif mn == "PLA":
                self.a = self.stack.pop() if self.stack else 0; self.nz(self.a)
            elif mn == "PHP": self.stack.append((self.n, self.z, self.c))
            elif mn == "PLP":
                t = self.stack.pop() if self.stack else (False, False, False)
                if isinstance(t, tuple): self.n, self.z, self.c = t
            elif mn == "NOP": pass
            else:
                return "unknown-instruction:" + mn
        return "end"
