//! Replay driver: compiles one C file with the real cc6502 (path dependency on /repo) through a
//! minimal builder (generate -> optimize if -O>0 -> check_branches -> write) and prints
//!   OK / ERR:<error> / consts / per-function code and sizes,
//! so a lifted counterexample can be compared with the expectation.  A panic is left to unwind
//! (exit code 101, "panicked" on stderr).
use cc6502::assemble::AssemblyCode;
use cc6502::compile::*;
use cc6502::error::Error;
use cc6502::generate::GeneratorState;
use cc6502::Args;
use clap::Parser;
use std::io::Write;

fn builder(cs: &CompilerState, writer: &mut dyn Write, args: &Args) -> Result<(), Error> {
    let mut g = GeneratorState::new(cs, writer, args.insert_code, args.warnings.clone(), "4K");
    for v in cs.sorted_variables().iter() {
        // every variable with what the interpreter needs to lay it out: element type, element count, whether the name is a constant address (an array) or a cell (a variable)
        g.write(&format!("VAR {} type={:?} size={} const={}\n", v.0, v.1.var_type, v.1.size, v.1.var_const))?;
        if let VariableDefinition::ArrayOfPointers(a) = &v.1.def {
            let mut s = String::new();
            for x in a { s += &format!("{}+{} ", x.0, x.1); }
            g.write(&format!("PTRS {} size={} = {}\n", v.0, a.len(), s))?;
        }
        if let VariableDefinition::Value(VariableValue::Int(val)) = &v.1.def {
            g.write(&format!("CONST {} = {}\n", v.0, val))?;
        }
        if let VariableDefinition::Array(a) = &v.1.def {
            let mut s = String::new();
            for x in a { if let VariableValue::Int(i) = x { s += &format!("{} ", i); } }
            g.write(&format!("ARRAY {} size={} = {}\n", v.0, v.1.size, s))?;
        }
    }
    for f in cs.sorted_functions().iter() {
        if f.1.code.is_some() {
            g.functions_code.insert(f.0.clone(), AssemblyCode::new());
            g.current_function = Some(f.0.clone());
            g.generate_statement(f.1.code.as_ref().unwrap())?;
            g.current_function = None;
            if args.optimization_level > 0 { g.optimize_function(f.0); }
            g.check_branches(f.0);
        }
    }
    g.compute_functions_actually_in_use()?;
    for f in cs.sorted_functions().iter() {
        if f.1.code.is_some() {
            let sz = g.functions_code.get(f.0).unwrap().size_bytes();
            g.write(&format!("FUNCTION {} size={}\n", f.0, sz))?;
            g.write_function(f.0)?;
        }
    }
    Ok(())
}

fn main() {
    let argv: Vec<String> = std::env::args().collect();
    let mut a = vec!["probe".to_string()];
    a.extend(argv[1..].iter().cloned());
    let args = Args::parse_from(a);
    let src = std::fs::read(&args.input).expect("input");
    let mut out: Vec<u8> = Vec::new();
    let r = cc6502::compile::compile(std::io::BufReader::new(&src[..]), &mut out, &args, builder);
    match r {
        Ok(()) => { println!("OK"); print!("{}", String::from_utf8_lossy(&out)); }
        Err(e) => { println!("ERR: {}", e); }
    }
}
