"""Replay files: every VIOLATION names the failed obligation and carries the verifier's
output; where the back end produced a counterexample (Kani) and the unit has a lifter,
the counterexample is turned into an input for the real code and run against /repo."""
import json
import os
import re
import subprocess
import sys

from . import core


def make_replay(prop, key, f, results, scratch):
    safe = re.sub(r"[^\w.\-+@]", "_", key)[:120]
    path = os.path.join(core.VERIF, "replay", "%s-%s.json" % (prop, safe))
    rec = {
        "property": prop,
        "obligation": f["id"],
        "unit": f.get("unit"),
        "cfg": f.get("cfg"),
        "kind": f.get("kind"),
        "clause": f.get("clause"),
        "code_text": f.get("text"),
        "verifier_message": f.get("message"),
        "verifier_output": f.get("rendered"),
        "counterexample": None,
        "replayed_on_real_code": False,
        "reproduced": False,
    }
    reproduced = False
    if f.get("lifted_input") is not None:      # bounded simulation unit: the failing program is the replay
        rec["lifted_input"] = f["lifted_input"]
        rec["real_code_result"] = f.get("real_code_result")
        rec["replayed_on_real_code"] = True
        rec["reproduced"] = True
        with open(path, "w") as fh:
            json.dump(rec, fh, indent=1)
        return path, True
    try:
        mods = core.load_units()
        mod = mods.get(f.get("unit"))
        if mod is not None and f.get("harness") and hasattr(mod, "lift"):
            u = core.build_unit(mod)
            r = core.run_kani(u, f.get("cfg"), u.text[f.get("cfg")], scratch, jobs=2, only=[f["harness"]], playback=True)
            vals = getattr(r, "playback", {}).get(f["harness"])
            rec["counterexample"] = vals
            if vals is not None:
                lifted = mod.lift(f["harness"], vals)
                if lifted is not None:
                    rec["lifted_input"] = lifted
                    out = run_probe(lifted, scratch)
                    rec["replayed_on_real_code"] = True
                    rec["real_code_result"] = out
                    reproduced = bool(out.get("disagrees"))
                    rec["reproduced"] = reproduced
        if mod is not None and not reproduced and not f.get("harness") and hasattr(mod, "candidates"):
            # Verus gives no counterexample: the unit may name candidate inputs (corner cases of the failed clause, written with the
            # contract).  Each is run on the real code; the first one whose behaviour contradicts the clause is the failing input.
            tried = []
            for lifted in (mod.candidates(f) or []):
                out = run_probe(lifted, scratch)
                tried.append({"lifted_input": lifted, "real_code_result": out})
                rec["replayed_on_real_code"] = True
                if out.get("disagrees"):
                    rec["lifted_input"] = lifted
                    rec["real_code_result"] = out
                    reproduced = True
                    rec["reproduced"] = True
                    break
            rec["candidates_tried"] = tried
    except Exception as e:  # replay is best effort; the violation stands on the failed obligation
        rec["replay_error"] = repr(e)
    with open(path, "w") as fh:
        json.dump(rec, fh, indent=1)
    return path, reproduced


PROBE_DIR = os.path.join(core.VERIF, "vf", "probe")
import threading
_BUILD_LOCK = threading.Lock()
_SEQ_LOCK = threading.Lock()
_SEQ = [0]


def ensure_probe(scratch):
    """Build the replay driver once per scratch directory (path dependency on the repository under check); returns the executable."""
    d = os.path.join(scratch, "probe")
    exe = os.path.join(d, "target", "debug", "vfprobe")
    with _BUILD_LOCK:
        if not os.path.exists(exe):
            import shutil
            if not os.path.exists(d):
                shutil.copytree(PROBE_DIR, d)
                shutil.copy(os.path.join(core.REPO, "Cargo.lock"), os.path.join(d, "Cargo.lock"))
                t = open(os.path.join(d, "Cargo.toml")).read().replace("/repo", core.REPO)
                open(os.path.join(d, "Cargo.toml"), "w").write(t)
            env = dict(os.environ, CARGO_NET_OFFLINE="true", CARGO_TARGET_DIR=os.path.join(d, "target"))
            b = subprocess.run(["cargo", "build", "-q", "--offline"], cwd=d, env=env, capture_output=True, text=True, timeout=1200)
            if b.returncode != 0 or not os.path.exists(exe):
                raise RuntimeError("probe driver does not build against the repository: " + b.stderr[-1500:])
    return exe



def run_probe(lifted, scratch):
    """lifted = {"source": C text, "args": [...], "expect": {...}}: compile it with the real
    compiler (path dependency on /repo) and compare with the expectation."""
    d = os.path.join(scratch, "probe")
    exe = ensure_probe(scratch)
    with _SEQ_LOCK:
        _SEQ[0] += 1
        src = os.path.join(d, "in_%d.c" % _SEQ[0])
    open(src, "w").write(lifted["source"])
    try:
        p = subprocess.run([exe, src] + list(lifted.get("args", [])), cwd=d, capture_output=True, text=True, timeout=120)
    finally:
        try:
            os.remove(src)
        except OSError:
            pass
    res = {"exit": p.returncode, "stdout": p.stdout[-4000:], "stderr": p.stderr[-2000:]}
    exp = lifted.get("expect", {})
    dis = False
    if "panic" in exp:
        dis = ("panicked" in p.stderr) and not exp["panic"]
    if "stdout_contains" in exp:
        dis = dis or (exp["stdout_contains"] not in p.stdout)
    if "stdout_matches" in exp:      # a regular expression (DOTALL) the output must match somewhere
        import re as _re
        dis = dis or (_re.search(exp["stdout_matches"], p.stdout, _re.S) is None)
    if "stdout_lacks" in exp:
        dis = dis or (exp["stdout_lacks"] in p.stdout)
    if exp.get("is_error") is True:
        dis = dis or ("ERR:" not in p.stdout)
    if exp.get("must_compile") is True:      # a valid program of the property's domain: a rejection is a disagreement too
        dis = dis or ("ERR:" in p.stdout)
    sim = lifted.get("simulate")
    if sim and sim.get("expect_from_args") is not None and not lifted.get("_baseline"):
        # C02: the expectation is what the same program computes when compiled with the baseline options (-O0)
        base = run_probe(dict(lifted, args=list(sim["expect_from_args"]), _baseline=True,
                              simulate=dict({k: v for k, v in sim.items() if k != "expect_from_args"})), scratch)
        bs = base.get("simulation") or {}
        if bs.get("status") in ("end", "rts") and "got" in bs:
            sim = dict(sim, expect={k: v for k, v in bs["got"].items() if k in sim.get("expect", {})}, expect16={k: v for k, v in bs["got"].items() if k in sim.get("expect16", {})})
            res["baseline"] = bs
        else:
            res["baseline"] = base
            res["disagrees"] = ("ERR:" in p.stdout) != ("ERR:" in base.get("stdout", ""))
            return res
    if sim and p.stdout.startswith("OK"):
        # execute the code the real compiler emitted on the 6502 interpreter, from the counterexample's initial state
        from .sim6502 import Sim
        m = Sim(p.stdout)
        for k, v in sim.get("init", {}).items():
            m.poke_sym(k, v, 1)
        for k, v in sim.get("init16", {}).items():
            m.poke_sym(k, v, 2)
        for k, v in sim.get("init_addr", {}).items():      # "symbol+offset": byte
            m.mem[m.expr(k)] = v & 0xff
        m.x = sim.get("x", 0); m.y = sim.get("y", 0)
        st = m.run(sim.get("func", "main"))
        got = {k: m.peek_sym(k, 1) for k in sim.get("expect", {})}
        got.update({k: m.peek_sym(k, 2) for k in sim.get("expect16", {})})
        want = dict(sim.get("expect", {})); want.update(sim.get("expect16", {}))
        res["simulation"] = {"status": st, "got": got, "want": want, "stack_left": len(m.stack)}
        dis = dis or (got != want) or st not in ("end", "rts") or (bool(sim.get("stack_empty")) and len(m.stack) != 0)
    elif sim and "ERR:" in p.stdout and not exp.get("is_error"):
        res["simulation"] = {"status": "compile error", "stdout": p.stdout[:300]}
    res["disagrees"] = dis
    return res


def replay_file(path):
    rec = json.load(open(path))
    print(json.dumps({k: rec.get(k) for k in ("property", "obligation", "unit", "kind", "clause", "verifier_message", "counterexample", "lifted_input", "reproduced")}, indent=1))
    if rec.get("lifted_input"):
        import tempfile, shutil
        scratch = tempfile.mkdtemp(prefix="vf_replay_", dir="/var/tmp")
        try:
            out = run_probe(rec["lifted_input"], scratch)
            print(json.dumps(out, indent=1))
            return 1 if out.get("disagrees") else 0
        finally:
            shutil.rmtree(scratch, ignore_errors=True)
    print(rec.get("verifier_output", ""))
    return 1
