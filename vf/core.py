"""Unit model, verifier runners (Verus / Kani), attribution of failures to named
obligations, ledger, known findings, verdict and evidence writer."""
import concurrent.futures as cf
import importlib
import json
import os
import re
import shutil
import subprocess
import sys
import tempfile
import time

from .rustcut import Undecided, norm_ws

VERIF = os.path.dirname(os.path.dirname(os.path.abspath(__file__)))
REPO = os.environ.get("VERIF_REPO", "/repo")
TAG_RE = re.compile(r"//@\s*(C\d\d(?:,C\d\d)*):([\w.\-+]+)")

VERUS_FAIL_KINDS = [
    ("postcondition not satisfied", "post"),
    ("invariant not satisfied at end of loop body", "inv-end"),
    ("invariant not satisfied before loop", "inv-entry"),
    ("loop invariant", "inv"),
    ("precondition not satisfied", "pre"),
    ("assertion failed", "assert"),
    ("possible arithmetic underflow/overflow", "overflow"),
    ("possible division by zero", "div0"),
    ("decreases not satisfied", "decreases"),
    ("unreachable", "unreachable"),
    ("possible bit shift underflow/overflow", "shift"),
    ("recommendation not met", "recommends"),
    ("could not show termination", "decreases"),
    ("may fail", "panic"),
    ("failed", "other"),
]


# --------------------------------------------------------------------------
class Unit:
    """A verification unit: text generated from /repo + contract, one tool."""

    def __init__(self, name, tool, props, functions, assumptions=None, cfgs=None, c16=True,
                 dropped=None, bounded=None):
        self.name = name
        self.tool = tool                 # "verus" | "kani"
        self.props = props               # properties served
        self.functions = functions       # real functions under contract ("file: item")
        self.assumptions = assumptions or []
        self.cfgs = cfgs or [None]       # feature sets; None = default features
        self.c16 = c16
        # properties to which untagged side conditions (overflow, index, unwrap, unreachable!) are attributed
        self.implicit = [props[0]] + (["C16"] if (c16 and "C16" in props and props[0] != "C16") else [])
        self.dropped = dropped or []     # what the extraction drops / replaces
        self.bounded = bounded or []     # stated bounds (Kani units only)
        self.text = {}                   # cfg -> generated text
        self.rewrites = []
        self.harnesses = {}              # kani: harness name -> (props, obligation name, note)
        self.kani_flags = []
        self.lifter = None


def tags_in(text):
    """[(line_no, props, name, clause_text)] for every `//@ Cxx:name` tag."""
    res = []
    for i, line in enumerate(text.split("\n"), 1):
        for m in TAG_RE.finditer(line):
            res.append((i, m.group(1).split(","), m.group(2), norm_ws(line[:m.start()])))
    return res


def obligation_id(props, name):
    return "O-%s-%s" % (props[0], name)


# --------------------------------------------------------------------------
class Result:
    def __init__(self, unit, cfg):
        self.unit = unit
        self.cfg = cfg
        self.undecided = None            # reason string
        self.obligations = []            # dicts: id, props, clause, backend
        self.failed = []                 # dicts: id, props, kind, message, text, rendered
        self.verified_count = 0
        self.error_count = 0
        self.solver_s = 0.0
        self.wall_s = 0.0
        self.cmd = ""
        self.canary_ok = False
        self.raw_tail = ""
        self.cex = {}                    # obligation id -> counterexample values (kani)
        self.assumption_sites = []


def run_verus(unit, cfg, text, scratch, rlimit=None, seed=None, extra=None):
    r = Result(unit, cfg)
    fn = os.path.join(scratch, "%s%s.rs" % (unit.name.replace("-", "_"), ("_" + re.sub(r"\W", "", cfg)) if cfg else ""))
    with open(fn, "w") as f:
        f.write(text)
    cmd = ["verus", fn, "--error-format=json", "--multiple-errors", "12", "--output-json", "--time",
           "--crate-type=lib"]
    if cfg:
        cmd += ["--cfg", 'feature="%s"' % cfg]
    if rlimit:
        cmd += ["--rlimit", str(rlimit)]
    if seed is not None:
        cmd += ["--smt-option", "smt.random_seed=%d" % (seed % 100000)]
    if extra:
        cmd += extra
    r.cmd = " ".join(cmd[:1] + ["<generated %s>" % os.path.basename(fn)] + cmd[2:])
    env = dict(os.environ)
    env["RUSTC_BOOTSTRAP"] = "1"
    t0 = time.time()
    try:
        p = subprocess.run(cmd, capture_output=True, text=True, timeout=int(os.environ.get("VERIF_VERUS_TIMEOUT", "900")), env=env, cwd=scratch)
    except subprocess.TimeoutExpired:
        r.undecided = "verus timeout"
        return r
    r.wall_s = time.time() - t0
    lines = text.split("\n")
    # mechanical scan: every construct that is an assumption rather than a proof, reported in the evidence
    r.assumption_sites = []
    for i, l in enumerate(lines, 1):
        for kw in ("assume(", "admit(", "#[verifier::external_body]", "assume_specification", "exec_allows_no_decreases_clause", "uninterp spec fn"):
            if kw in l and not l.strip().startswith("//"):
                nxt = lines[i] if kw == "#[verifier::external_body]" and i < len(lines) else l
                r.assumption_sites.append("%s: %s" % (kw.strip("#[]():"), norm_ws(nxt)[:110]))
    tagmap = {}
    for (ln, props, name, clause) in tags_in(text):
        tagmap.setdefault(ln, []).append((props, name, clause))
        if name != "canary":
            r.obligations.append({"id": obligation_id(props, name), "props": props, "clause": clause, "backend": "verus/z3", "unit": unit.name})
    # stdout: JSON with times / results
    try:
        js = json.loads(p.stdout[p.stdout.index("{"):]) if "{" in p.stdout else {}
    except Exception:
        js = {}
    vr = js.get("verification-results", {})
    tm = js.get("times-ms", {})
    try:
        r.solver_s = float(tm.get("smt", {}).get("total", 0)) / 1000.0 if isinstance(tm.get("smt"), dict) else 0.0
    except Exception:
        r.solver_s = 0.0
    diags = []
    have_results = ("verification results::" in p.stderr) or (bool(vr) and not (vr.get("encountered-error") and vr.get("verified", 0) == 0 and vr.get("errors", 0) == 0) and not vr.get("encountered-vir-error"))
    for l in p.stderr.split("\n"):
        l = l.strip()
        if l.startswith("{") and '"$message_type"' in l:
            try:
                diags.append(json.loads(l))
            except Exception:
                pass
        else:
            m = re.search(r"verification results:: (\d+) verified, (\d+) errors", l)
            if m:
                r.verified_count, r.error_count = int(m.group(1)), int(m.group(2))
    if vr:
        r.verified_count = vr.get("verified", r.verified_count)
        r.error_count = vr.get("errors", r.error_count)
    errs = [d for d in diags if d.get("level") == "error" and not d.get("message", "").startswith("aborting due to")]
    compile_errs = [d for d in errs if d.get("code") is not None]
    r.raw_tail = "\n".join((d.get("rendered") or d.get("message", "")) for d in errs)[-6000:]
    if compile_errs or (not have_results):
        msg = "; ".join(norm_ws(d.get("message", ""))[:300] for d in (compile_errs or errs)[:4]) or norm_ws(p.stderr[-600:])
        r.undecided = "generated text rejected before verification (rustc/verus front end): " + msg
        return r
    for d in errs:
        msg = d.get("message", "")
        if "rlimit" in msg.lower() or "resource limit" in msg.lower():
            r.undecided = "solver resource limit: " + norm_ws(msg)[:200]
            continue
        kind = "other"
        for pat, k in VERUS_FAIL_KINDS:
            if pat in msg:
                kind = k
                break
        spans = d.get("spans", [])
        # prefer tags found on any span's lines (secondary spans name the failed clause)
        found = []
        prim = None
        for s in spans:
            if s.get("is_primary"):
                prim = s
        secondary = [s for s in spans if not s.get("is_primary")]
        if kind == "pre":
            order = secondary + ([prim] if prim else [])      # secondary span = the failed requires clause
        else:
            order = ([prim] if prim else []) + secondary      # primary span = the failed clause
        for s in order:
            if s.get("line_end", 0) - s.get("line_start", 0) > 8:
                continue                                       # a whole function body, not a clause
            for ln in range(s.get("line_start", 0), s.get("line_end", 0) + 1):
                if ln in tagmap:
                    found.extend(tagmap[ln])
            if found:
                break
        ptext = norm_ws(" ".join(t.get("text", "") for t in (prim or {}).get("text", []))) if prim else ""
        if not ptext and prim is not None:
            ls = prim.get("line_start", 0)
            if 0 < ls <= len(lines):
                ptext = norm_ws(lines[ls - 1])
        if found:
            for (props, name, clause) in found[:1]:
                if name == "canary":
                    r.canary_ok = True
                    continue
                r.failed.append({"id": obligation_id(props, name), "props": props, "kind": kind, "message": norm_ws(msg),
                                 "text": ptext, "clause": clause, "rendered": d.get("rendered", ""), "unit": unit.name, "cfg": cfg})
        else:
            # untagged: enclosing tagged region?  look upward for a `//@region` marker
            props, name = region_of(lines, (prim or {}).get("line_start", 0))
            if props is None:
                # a verification condition of the unit's own text that no tagged clause names (a loop invariant, a callee's precondition, an arithmetic
                # check): the unit's argument for every property it serves rests on it
                props = list(dict.fromkeys(list(unit.implicit) + list(unit.props)))
                name = "%s.%s@%s" % (unit.name, kind, re.sub(r"[^\w+\-*/<>=&|!\[\]().]", "_", ptext)[:70])
                oid = "O-side-" + name
            else:
                oid = obligation_id(props, name)
            r.failed.append({"id": oid, "props": props, "kind": kind, "message": norm_ws(msg), "text": ptext,
                             "clause": ptext, "rendered": d.get("rendered", ""), "unit": unit.name, "cfg": cfg, "side_condition": True})
    return r


REGION_RE = re.compile(r"//@region\s+(C\d\d(?:,C\d\d)*):([\w.\-+]+)")
ENDREGION_RE = re.compile(r"//@endregion")


def region_of(lines, ln):
    """Side conditions (overflow, index, unwrap…) arising in real code between
    `//@region Cxx:name` and `//@endregion` markers are attributed to that obligation."""
    depth = 0
    for k in range(min(ln, len(lines)) - 1, -1, -1):
        if ENDREGION_RE.search(lines[k]):
            depth += 1
        m = REGION_RE.search(lines[k])
        if m:
            if depth == 0:
                return m.group(1).split(","), m.group(2)
            depth -= 1
    return None, None


# --------------------------------------------------------------------------
KANI_CARGO = """[package]
name = "vfk"
version = "0.0.0"
edition = "2021"

[workspace]

[lib]
path = "lib.rs"

[lints.rust]
unexpected_cfgs = { level = "allow" }
"""


def run_kani(unit, cfg, text, scratch, jobs=8, only=None, playback=False):
    r = Result(unit, cfg)
    d = os.path.join(scratch, "k_%s%s" % (unit.name.replace("-", "_"), ("_" + cfg) if cfg else ""))
    if playback:
        d += "_pb"
    os.makedirs(os.path.join(d, ".cargo"), exist_ok=True)
    cargo = KANI_CARGO
    if cfg:
        cargo += "\n[features]\ndefault = [\"%s\"]\n%s = []\n" % (cfg, cfg)
    with open(os.path.join(d, "Cargo.toml"), "w") as f:
        f.write(cargo)
    with open(os.path.join(d, ".cargo", "config.toml"), "w") as f:
        f.write("[net]\noffline = true\n")
    with open(os.path.join(d, "lib.rs"), "w") as f:
        f.write(text)
    hc = getattr(unit, "harness_cfgs", {})
    harnesses = {h: v for h, v in unit.harnesses.items() if (h not in hc or cfg in hc[h])}
    for h, (props, name, note) in harnesses.items():
        if only and h not in only:
            continue
        r.obligations.append({"id": obligation_id(props, name), "props": props, "clause": note, "backend": "kani/cbmc", "unit": unit.name})
    cmd = ["cargo", "kani"] + ([] if playback else ["-j", str(jobs)]) + ["--output-format", "terse"] + list(unit.kani_flags)
    if not playback and "--harness-timeout" not in cmd:
        # one slow harness (a changed operator can turn a cheap query into a divider-versus-divider one) must not hide the verdicts of the others
        cmd += ["-Z", "unstable-options", "--harness-timeout", os.environ.get("VERIF_KANI_HARNESS_TIMEOUT", "300") + "s"]
    if playback:
        cmd += ["-Z", "concrete-playback", "--concrete-playback=print"]
    for h in (only or []):
        cmd += ["--harness", "harness::" + h if unit.tool == "kani" else h]
    if only:
        cmd += ["--exact"]
    r.cmd = "CARGO_NET_OFFLINE=true " + " ".join(cmd) + "  (crate generated from /repo, %d harnesses)" % len(r.obligations)
    env = dict(os.environ)
    env["CARGO_NET_OFFLINE"] = "true"
    env["CARGO_TARGET_DIR"] = os.path.join(d, "target")
    t0 = time.time()
    try:
        p = subprocess.run(cmd, capture_output=True, text=True, timeout=int(os.environ.get("VERIF_KANI_TIMEOUT", "1500")), env=env, cwd=d)
    except subprocess.TimeoutExpired:
        r.undecided = "kani timeout"
        shutil.rmtree(os.path.join(d, "target"), ignore_errors=True)
        return r
    r.wall_s = time.time() - t0
    out = p.stdout + "\n" + p.stderr
    shutil.rmtree(os.path.join(d, "target"), ignore_errors=True)
    r.raw_tail = out[-8000:]
    if re.search(r"error(\[E\d+\])?:", out) and "Checking harness" not in out and "Complete -" not in out:
        errs = [norm_ws(l) for l in out.split("\n") if l.startswith("error")]
        r.undecided = "harness crate rejected by rustc/kani: " + "; ".join(errs[:4])[:600]
        return r
    # per-harness results: the summary names every failed harness; details come from the "Failed Checks" lines
    res = {}
    blocks = {}
    failed_set = set(m.group(1).split("::")[-1] for m in re.finditer(r"Verification failed for - ([\w:]+)", out))
    # a harness whose solver ran out of time is UNDECIDED, not failed: Kani lists it among the failures ("CBMC timed out")
    thread_of, cur, timed_out = {}, None, set()
    for line in out.split("\n"):
        m = re.match(r"(?:Thread (\d+): )?Checking harness ([\w:]+)\.\.\.", line)
        if m:
            thread_of[m.group(1) or "-"] = m.group(2).split("::")[-1]
            if m.group(1) is None:
                cur = "-"
            continue
        m = re.match(r"Thread (\d+):\s*$", line)
        if m:
            cur = m.group(1)
            continue
        if "CBMC timed out" in line and cur in thread_of:
            timed_out.add(thread_of[cur])
    r.timeouts = []
    mt = re.search(r"Complete - (\d+) successfully verified harnesses, (\d+) failures, (\d+) total", out)
    for m in re.finditer(r"Verification Time: ([\d.]+)s", out):
        r.solver_s += float(m.group(1))
    prev = ""
    for line in out.split("\n"):
        m = re.search(r"in (?:[\w]+::)*(\w+)\s*$", line)
        if m and "File:" in line:
            blocks.setdefault(m.group(1), []).append(norm_ws(prev) + " @ " + norm_ws(line))
        prev = line
    wanted = [h for h in harnesses if (not only or h in only)]
    if mt is None:
        r.undecided = "kani printed no summary: %s" % norm_ws(out[-400:])
        return r
    total, nfail = int(mt.group(3)), int(mt.group(2))
    if total != len(wanted):
        r.undecided = "kani ran %d harnesses, expected %d" % (total, len(wanted))
        return r
    if nfail != len(failed_set) or not failed_set.issubset(set(wanted)):
        r.undecided = "kani summary (%d failures) disagrees with the list of failed harnesses %s" % (nfail, sorted(failed_set))
        return r
    for h in wanted:
        res[h] = "TIMEOUT" if (h in timed_out and h in failed_set) else ("FAILED" if h in failed_set else "SUCCESSFUL")
    for h in wanted:
        props, name, note = harnesses[h]
        if h == "canary_must_fail":
            continue
        if res.get(h) == "SUCCESSFUL":
            r.verified_count += 1
        elif res.get(h) == "TIMEOUT":
            r.timeouts.append(obligation_id(props, name))
        else:
            r.error_count += 1
            blk = "\n".join(blocks.get(h, []))
            fails = [l for l in blocks.get(h, [])]
            r.failed.append({"id": obligation_id(props, name), "props": props, "kind": "kani", "message": "; ".join(fails)[:800] or "harness failed",
                             "text": note, "clause": note, "rendered": blk[-3000:], "unit": unit.name, "cfg": cfg, "harness": h})
    if "canary_must_fail" in harnesses and (not only or "canary_must_fail" in only):
        r.canary_ok = res.get("canary_must_fail") == "FAILED"
        r.obligations = [o for o in r.obligations if not o["id"].endswith("-canary")]
    else:
        r.canary_ok = True
    if playback:
        r.playback = parse_playback(out)
    return r


def parse_playback(out):
    """{harness: [values as printed in the comments of the generated playback test]}"""
    res = {}
    for m in re.finditer(r"fn kani_concrete_playback_(\w+?)_\d+\(\)\s*\{(.*?)kani::concrete_playback_run", out, re.S):
        vals = re.findall(r"//\s*(.+?)\s*\n\s*vec!\[", m.group(2))
        res[m.group(1)] = vals
    return res


# --------------------------------------------------------------------------
def load_units():
    import glob
    units = {}
    for fn in sorted(glob.glob(os.path.join(VERIF, "units", "u_*.py"))):
        mod = importlib.import_module("units." + os.path.basename(fn)[:-3])
        units[mod.NAME] = mod
    return units


def load_known():
    fn = os.path.join(VERIF, "known_findings.jsonl")
    known, fixed = [], []
    if os.path.exists(fn):
        for l in open(fn):
            l = l.strip()
            if not l or l.startswith("#"):
                continue
            if l.startswith("fixed:"):
                fixed.append({"status": "fixed", "text": l})
                continue
            e = json.loads(l)
            (known if e.get("status") == "known" else fixed).append(e)
    return known, fixed


def load_ledger(unit_name):
    fn = os.path.join(VERIF, "ledger", unit_name + ".json")
    if os.path.exists(fn):
        return json.load(open(fn))
    return None


def run_sim(unit, mod, scratch, tier, jobs):
    """Bounded stand-in (NOT a proof): programs compiled by the real compiler, the emitted code executed on the 6502 interpreter from stated
    initial values and compared with C semantics.  One obligation per group of programs."""
    from . import replay
    import concurrent.futures as cf
    r = Result(unit, None)
    t0 = time.time()
    try:
        exe = replay.ensure_probe(scratch)
    except Exception as e:
        r.undecided = "probe driver: " + str(e)[:400]
        return r
    r.cmd = "vf/probe (cargo build against /repo) + vf/sim6502.py"
    groups = mod.corpus(tier)
    jobs_l = []
    for gname, props, progs in groups:
        for pr in progs:
            jobs_l.append((gname, props, pr))
    def one(j):
        try:
            return j, replay.run_probe(j[2], scratch)
        except Exception as e:
            return j, {"error": repr(e), "disagrees": None}
    res = {}
    with cf.ThreadPoolExecutor(max_workers=max(2, min(jobs, 12))) as ex:
        for j, out in ex.map(one, jobs_l):
            res.setdefault(j[0], []).append((j, out))
    nprog = 0
    for gname, props, progs in groups:
        oid = "O-%s-sim-%s" % (props[0], gname)
        outs = res.get(gname, [])
        nprog += len(outs)
        if any(o.get("disagrees") is None for _, o in outs):
            r.undecided = "simulation could not run: " + str([o.get("error") for _, o in outs if o.get("disagrees") is None][:1])
            return r
        r.obligations.append({"id": oid, "props": props, "clause": "%d programs: compiled code run on the 6502 interpreter agrees with C" % len(outs),
                              "backend": "bounded: real compiler + 6502 interpreter", "unit": unit.name, "cfg": None, "bounded": True})
        bad = [(j, o) for j, o in outs if o.get("disagrees")]
        if bad:
            j, o = bad[0]
            r.failed.append({"id": oid, "props": props, "kind": "simulation", "clause": "compiled code agrees with C", "message": "%d of %d programs disagree; first: %s" % (len(bad), len(outs), j[2].get("note", "")),
                             "text": j[2]["source"], "rendered": json.dumps(o.get("simulation") or o, indent=1)[:3000], "unit": unit.name, "cfg": None,
                             "lifted_input": j[2], "real_code_result": o})
    r.verified_count = 0
    r.canary_ok = True
    r.programs = nprog
    r.wall_s = time.time() - t0
    # vacuity guard of this unit: a deliberately wrong expectation must be reported as a disagreement
    can = replay.run_probe({"source": "unsigned char a, c;\nvoid main() { c = a + 1; }\n", "args": ["-O0"], "expect": {"panic": False},
                            "simulate": {"init": {"a": 1}, "expect": {"c": 3}}}, scratch)
    if not can.get("disagrees"):
        r.canary_ok = False
    return r


def build_unit(mod, repo=None):
    repo = repo or REPO
    u = mod.build(repo)
    return u


def run_unit(mod, scratch, tier, seed, jobs):
    """Returns list[Result] (one per cfg)."""
    results = []
    try:
        u = build_unit(mod)
    except Undecided as e:
        r = Result(Unit(mod.NAME, getattr(mod, "TOOL", "verus"), list(getattr(mod, "PROPS", [])), []), None)
        r.undecided = "extraction: " + str(e)
        return [r]
    if u.tool == "sim":
        r = run_sim(u, mod, scratch, tier, jobs)
        if not r.undecided and not r.canary_ok:
            r.undecided = "vacuity guard: the simulator accepted a deliberately wrong expectation"
        return [r]
    def one_cfg(cfg):
        text = u.text[cfg]
        if u.tool == "verus":
            r = run_verus(u, cfg, text, scratch, rlimit=getattr(mod, "RLIMIT", None))
            if tier == "thorough" and not r.undecided:
                # stability: different z3 seed, halved rlimit
                r2 = run_verus(u, cfg, text, scratch, rlimit=max(5, (getattr(mod, "RLIMIT", None) or 10) // 2), seed=seed + 17)
                if not r2.canary_ok and not r2.undecided:
                    r2.undecided = "canary did not fail in the stability run"
                r.stability = {"seed": seed + 17, "failed": sorted(f["id"] for f in r2.failed), "undecided": r2.undecided,
                               "agrees": (sorted(f["id"] for f in r2.failed) == sorted(f["id"] for f in r.failed)) and not r2.undecided}
        else:
            r = run_kani(u, cfg, text, scratch, jobs=jobs)
        # vacuity guards
        if not r.undecided:
            led = load_ledger(u.name + (("@" + cfg) if cfg else ""))
            ids = sorted(set(o["id"] for o in r.obligations))
            if not r.canary_ok:
                r.undecided = "vacuity guard: the deliberately false canary obligation did not fail"
            elif len(ids) == 0:
                r.undecided = "vacuity guard: unit generated zero obligations"
            elif led is not None:
                missing = [t for t in led["obligations"] if t not in ids and t not in getattr(u, "optional", ())]
                if missing:
                    r.undecided = "vacuity guard: obligations in the ledger are missing from the generated unit: %s" % missing[:5]
        return r
    if len(u.cfgs) > 1:
        with cf.ThreadPoolExecutor(max_workers=len(u.cfgs)) as ex:      # feature sets of one unit are independent crates / files
            results.extend(ex.map(one_cfg, u.cfgs))
    else:
        results.append(one_cfg(u.cfgs[0]))
    return results
