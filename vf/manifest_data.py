"""Source of MANIFEST.json (python3 tools_gen_manifest.py rewrites it)."""

CLAIMED = {
    "C03": dict(
        text="Deductive proof (Verus) of the real text of AssemblyCode::check_branches, cut from /repo on every run: on return every conditional branch is within 127 declared bytes of its nearest label; each repair leaves head and tail untouched, inserts only branches/JMP/labels, and the inserted segment takes the same exit as the removed branch(es) for every N/Z/C (all six kinds and both less-or-equal pairs); preservation of 'every branch target is defined' by a repair is proved, not assumed. The check also runs asm()'s byte-count obligations (U-asm), since distances are measured in declared bytes.",
        note="Assumes: branch targets defined in the same function on entry (A-targets), resource bound re-assumed per repair iteration (A-cb-bounded; termination unproved), fresh .fixN labels differ from the branch's own label (A-fixfresh), std::fmt decimal rendering, vstd specs. Declared sizes equal encoded sizes is C04.",
        technique="contract-based deductive verification (Verus loop invariants + lemmas on the function extracted mechanically from /repo)",
        design="DESIGN.md section 5, C03"),
    "C04": dict(
        text="Deductive proof (Verus) over the real text of size_bytes / append_* / asm() / check_branches cut from /repo on every run: the reported size is the sum of declared sizes, inline assembly defaults to 3 bytes, and for every mnemonic, operand form, variable attribute combination and offset asm() declares the byte count of the 6502 encoding an assembler selects for the operand text it emits.",
        note="6502 mode/length table (A-isa) is the oracle; a symbol is in page zero iff declared Zeropage (A-zp); asm()'s caller obligations (caller_legal) are assumed; vstd specs; std::fmt `{}` (A-fmt).",
        technique="contract-based deductive verification (Verus, functions extracted mechanically from /repo)",
        design="DESIGN.md section 5, C04"),
}

CLAIMED.update({
    "C13": dict(
        text="Deductive proof (Verus): asm() emits an instruction only in an addressing mode the 6502 has for that mnemonic (mode derived from the emitted operand text), errors emit nothing; check_branches defines each fresh .fixN label exactly once after its reference; every one of the 39 sites that mint a local label `.<kind><counter>` increments that counter before control reaches another mint, a self call or a loop head (label minting discipline); generate_shift_16bits is verified against asm()'s precondition and its dispatch in generate_expr against its own precondition.",
        note="Partial: goto labels and inline-assembly symbols are not under contract. asm()'s caller obligations (spec fn caller_legal: what asm does not itself reject) are preconditions, proved at the call sites of U-csleep, U-shift16 and U-plusplus only. A-isa, A-zp, A-fmt, vstd.",
        technique="contract-based deductive verification (Verus, functions extracted mechanically from /repo)",
        design="DESIGN.md section 5, C13"),
    "C17": dict(
        text="Deductive proof (Verus) on asm(): for every mnemonic and every variable memory class the address offset equals the port the access must use (superchip read port +0x80, 3E write port +0x400, 3E+ write port +0x200, ordinary memory +0), in the Absolute, X-indexed and Y-indexed arms; read-modify-write instructions on split-port memory are rejected with an error by asm(); the operand text of every memory access asm() emits names `symbol + constant index + port offset + high-byte displacement` (so the port offset cannot be dropped on the way to the text); under cfg atari2600 generate_plusplus never emits INC/DEC on a superchip / on-chip-RAM variable (Kani, both operand forms, all variable types). The optimizer's knowledge transfer (U-opt) forgets every memory-derived register belief at a store: the read port and the write port of one cell are different operand texts, so no belief taken through one port survives a write through the other. The split-port `++` / `--` harnesses (cfg atari2600) leave the element width symbolic: both bytes of a 16-bit element (short or pointer) are updated.",
        note="Partial: 'still computes what the source says' is C01; the load-add-store path taken instead of INC/DEC is only recorded, not interpreted.",
        technique="contract-based deductive verification (Verus assertions spliced after the offset computation of the real asm())",
        design="DESIGN.md section 5, C17"),
})

CLAIMED.update({
    "C09": dict(
        text="Deductive proof (Verus) that the real body of compile_quoted_string_ex returns decode(s) for every input string, decode being written from the property's escape table (\\n \\r \\t \\a \\b \\f \\v \\0, any other escaped character stands for itself, a lone trailing backslash is dropped); the literal window of cpp::process (R8) numbers the markers with the same counter that indexes the literal table, in skipped text as well; parse_expr / parse_expr_init_value advance the counter that names the literal tables (`cctmp<N>`) by the number of literals they created. U-litnum: inside one expression the literals of a parenthesised sub-expression or of call arguments are numbered from the running counter on, the counter moves past them, and no entry of the literal table is overwritten.",
        note="Partial: recognition of the literal's extent by the scanner of cpp::process (before comment/macro processing), NUL termination/concatenation (compile_quoted_string, pest Pairs) and literal sizes are not under contract. vstd prophetic iterator spec of str::chars; char::from_u32 assumed specification; termination unproved.",
        technique="contract-based deductive verification (Verus loop invariant over the prophetic Chars iterator, function extracted mechanically from /repo)",
        design="DESIGN.md section 5, C09"),
})

CLAIMED.update({
    "C12": dict(
        text="Deductive proof (Verus) on the real text of function_is_actually_in_use and compute_functions_actually_in_use: after the closure the published set contains a name if and only if it is reachable in the call tree from main or from a function marked interrupt (soundness by a reachability witness, completeness by closure of every added node plus coverage of every key of the function table).",
        note="The recording side is under contract too (U-call): every call statement compiled, from an ordinary or an inline function, is inserted into the call tree of the function being compiled. Assumed: String as hash key (four axioms, A-spec-hash-str), vstd HashMap/HashSet specs; termination of the recursion unproved. U-frame (scan of the function text): inline expansion (push_code) names neither the call tree nor the in-use set, so the edges recorded for an inline function stay where U-call put them.",
        technique="contract-based deductive verification (Verus: recursive function contract + loop invariants + induction lemma, functions extracted mechanically from /repo)",
        design="DESIGN.md section 5, C12"),
})

CLAIMED.update({
    "C10": dict(
        text="Kani (CBMC, bit-precise, full i32 domain, loop-free: complete) on the real bodies of the constant calculator's operator closures: every binary/unary operator returns the C value wherever C defines it in 32-bit int and an error (no panic, no wrapped value) elsewhere, failed operands propagate, division by zero is located at the operator; the three operator tables handed to the Pratt parser are run verbatim against a recording shim and compared with the ISO C precedence/associativity table; the generator's own folding of immediates (generate_arithm, generate_shift, neg/not/bnot arms) returns the same C values and an error (never a panic) for the undefined cases. Counterexamples are lifted to constant initialisers and replayed on the real compiler. The generator's folding of a constant condition (`256 ? 2 : 3`, `!!512`, `0x100 && 1`) is under contract in U-condtail / U-condval / U-gencond: the folded truth value is `v != 0` of the whole constant.",
        note="pest PrattParser semantics assumed (A-pratt); oracle = C semantics written as i64 arithmetic / C99 division definition in the harness; parse_sizeof is verified (Verus) against pest shims: element count times element size for arrays, 2 for pointers and shorts, 1 for chars; parse_int is verified (Verus) against the assumed contracts of str::parse::<i32> / i32::from_str_radix: decimal, hexadecimal, octal and character literals have their C value and a literal that does not fit is an error, never a panic; ternary sentinel collision is a recorded known finding.",
        technique="contract-style full-domain model checking of extracted loop-free code (Kani harness per operator obligation) + verbatim table extraction; Verus on parse_sizeof and parse_int",
        design="DESIGN.md section 5, C10"),
})

CLAIMED.update({
    "C05": dict(
        text="Deductive proof (Verus): (1) sorted_variables / sorted_functions return a duplicate-free listing of every table entry in ascending rank (comparator closure lifted and verified); (2) lemma: two listings of the same table with pairwise distinct ranks are equal, i.e. the published order cannot depend on hash iteration order; (3) every insertion statement of the variable/function tables in compile.rs (key and rank expressions extracted verbatim) preserves 'ranks unique and below the table size', using the verified contract of variable_order/function_order; (4) the two literal drains iterate a sorted, hence unique, sequence of the literal map. (5) a rank taken into a local before the insertion is followed back to its assignment: nothing that can add a table entry is called in between (scan, with the set of inserting functions computed as a fixpoint).",
        note="Assumed library contracts: Iterator::collect over HashMap::iter (each entry once, any order), slice sort/sort_by (permutation, ordered by a total order), String as hash key. Struct fields other than `order` are dropped by the extraction; a textual scan checks that no other statement writes `.order` or inserts into the tables. Hidden state (statics, environment), diagnostics text and 'regardless of what was compiled before' are not under contract.",
        technique="contract-based deductive verification (Verus: function contracts, table invariant at every insertion site, uniqueness lemmas by induction)",
        design="DESIGN.md section 5, C05"),
})

CLAIMED.update({
    "C06": dict(
        text="Deductive proof (Verus) on the real offset-to-line loops of syntax_error / compiler_error / warning (line index = number of newlines before the character that starts at the byte offset, for every UTF-8 text and every offset including 0 and end of text), on the index expressions used to read the line table, and on the parse-error arm of compile() (file and line come from the line-table entry of the line pest reports; no index panic, also for an empty table). The head of the reader loop (U-splice): `line` counts every physical line read, through splices of any number of lines and whatever the lines contain; nothing else in process() assigns it.",
        note="The three places of cpp::process that write to the output are under contract (U-linemap): each pushes exactly as many line-table entries as it writes newlines. Partial: the reader loop of cpp::process (comments, splices, skipped regions) is not under contract (string scanning without library specifications). The offset-to-line loops are verified for arbitrary UTF-8 text (offsets are byte offsets; vstd's specification of char::len_utf8), no ASCII assumption is left. pest line numbers are 1-based (A-pest-lines).",
        technique="contract-based deductive verification (Verus loop invariant on the code blocks extracted mechanically from /repo)",
        design="DESIGN.md section 5, C06"),
})

CLAIMED.update({
    "C18": dict(
        text="Deductive proof (Verus) of the real csleep / load / store / strobe / asm statement generators against the contract of asm() proved in U-asm: csleep(n) is accepted exactly for 2..10 and emits instructions whose datasheet cycle counts sum to n, consisting only of NOP, STA/DEC DUMMY and adjacent PHA/PLA pairs, all marked protected; it resets the generator's belief about N/Z. load/store/strobe emit exactly one protected instruction with the right mnemonic (and for a strobe on a constant pointer the named address); an asm statement becomes one inline line with the declared size. generate_statement whole (Verus, recursive on blocks): the log of generator calls is the source order, each statement handed once to the generator of its kind (strobe, load, store, asm, csleep among them), a block being its statements in order. U-frame: what the optimizer knows about the registers does not survive an asm statement.",
        note="Partial: 'executes exactly once in source order through control flow' is whole-generator semantics (C01); the optimiser's handling of protected lines is the C02 unit. DUMMY is assumed to be a zero-page char (A-dummy, feature atari2600). Cycle table from the MOS datasheet (A-isa). Callee contracts are those proved in U-asm.",
        technique="contract-based deductive verification (Verus; callers checked against the callee contract proved in another unit; functions extracted mechanically from /repo)",
        design="DESIGN.md section 5, C18"),
})

CLAIMED.update({
    "C02": dict(
        text="Deductive proof (Verus) on the two decision blocks of AssemblyCode::optimize, cut verbatim by their anchor comments: (A) the adjacent-pair rules mark an instruction for removal only when it is unprotected and the pair is one of the eliminations that are invisible by 6502 semantics (same-operand store/load, inverse transfers, dead first load, ORA #0, PLA/PHA, compare of two known-equal/different immediates), and swap only LDA with CLC/SEC; (B) the register-knowledge transfer is sound against the ISA write sets: a written register is afterwards unknown or holds exactly what the instruction put there, index changes invalidate `v,X`/`v,Y` knowledge, a written memory cell is no longer believed to sit in another register, the belief 'N/Z describe A' is held only when true, a reload is dropped only when unprotected and provably redundant; what is known after a JMP is forgotten (it would otherwise reach a join point through the JMP-to-next-label rule). BOUNDED stand-in (labelled, never counted as proved): the simulation corpus compiled at -O1 must compute what it computes at -O0. A store forgets every memory-derived belief (no no-alias assumption for STA/STX/STY). The compare-folding rule is sound in context only if the folded BEQ/BNE is the last reader of the compare: generate_branch_instruction is proved (Kani, all operators, signed and unsigned) to leave no branch after an unprotected BEQ/BNE. U-frame: the arm of optimize() that restarts the scan at a label -- forgetting the registers -- is also taken at an inline assembly line (required-pattern scan; bounded group opt-across-inline-asm runs it). U-optloop (inductive invariants on the loops of block D and of the head): the two instructions handed to the pair rules have only comments / removed lines between them, and after a label or an inline assembly line, as at the start of a function, nothing is known but what the new first instruction loads; the belief `N/Z describe X / Y` is kept only through instructions that leave it true (U-opt xfer-flags-x / -y). The store / load pair rule drops the load only when N/Z already describe A; the belief about the flags is forgotten at JSR / JMP and re-derived from the next instruction after a removed pair.",
        note="Partial: whole-program equivalence of -O1 and -O0 is not decided: the Dummy writes and the advance of `first` / `second` after a rule fired, the multipeek look-ahead (modelled as arbitrary lines), the JMP-to-next-label rule, and whether a removed flag-setting load is invisible in context are outside the blocks under contract (the knowledge resets at labels / inline assembly and the initial knowledge are block D and the head, U-optloop). ISA write sets and the list of sound eliminations are the oracle (A-isa). A-noalias, A-immtext. -O2/-O3 are identical to -O1 in this library.",
        technique="contract-based deductive verification (Verus, code blocks extracted mechanically from /repo by anchors, free variables turned into parameters)",
        design="DESIGN.md section 5, C02"),
})

CLAIMED.update({
    "C14": dict(
        text="Deductive proof (Verus) of the structural half of inlining on the real code: append_code copies every line of the callee, suffixing exactly the label definitions and the operands of branches/JMP with `inline<counter>` and changing nothing else (mnemonic, sizes, cycles, inline-assembly and comment lines); suffixing is injective, so a branch of the expansion resolves to a label of the expansion exactly when it did in the callee; push_code uses a fresh counter, appends the renamed clone after the caller's code followed by the end label, and fails with an error (no panic) when the callee has no code yet; a `return` in an inline function jumps to the label that becomes that end label, a called function returns by RTS; after a call, inlined or not, the generator forgets what it believed about N/Z. BOUNDED stand-in (labelled): the same programs with and without `inline` run on the 6502 interpreter. push_code whole: the caller's code is followed by the callee's lines renamed with a fresh counter and then by exactly the label that the renamed `JMP .endof` of an early return names. U-frame: push_code leaves the call tree and the in-use set alone (frame condition by a scan of its text and of the helpers it calls). The tail of generate_return (U-inline) flushes the deferred ++ / -- and a borrowed Y before the leaving instruction in both placements.",
        note="Partial: behavioural equivalence of the inlined and the called placement (live registers at the call site, parameter passing, flags) is whole-program semantics and is not decided. Derived Clone assumed structural; String as hash key; std::fmt; asm()/append_* contracts proved in U-asm/U-size and reused as stubs.",
        technique="contract-based deductive verification (Verus; modular: callers verified against callee contracts proved in other units)",
        design="DESIGN.md section 5, C14"),
})

CLAIMED.update({
    "C01": dict(
        text="Partial, per-function: Kani (full 8-bit domains, loop-free) runs the real generate_branch_instruction / generate_branch_instruction_alt against a recording shim and interprets the emitted branches on the flags a 6502 CMP / load produces: the branch reaches the label exactly when `a op b` holds, for every operator, signedness, a, b (signed orderings split into the overflow and non-overflow halves; the seven halves that are false today are recorded known findings with witness programs); the negate/switch operator tables of generate_condition_ex are semantically exact for all 16-bit operands; the operator tables handed to the Pratt parser follow C precedence; the whole of generate_plusplus is run against a recording shim and its emitted sequences are interpreted on every 16-bit / 8-bit value and register state (value +-1, registers and a live accumulator preserved, and the generator's flags belief afterwards is true); operand canonicalisation of generate_arithm never exchanges the operands of - and /; Verus shows csleep/load invalidate the generator's N/Z belief and label() resets it; the whole of generate_condition_ex is verified against stubs that keep a symbolic account of A/X/Y/cctmp and of the two values the flags compare: every branch emitter is reached with `flags-operands operator` equal to the comparison asked for (`l op r`, negated if asked) up to exchanging the operands together with mirroring the operator, including the self-recursion, and the generator's flags belief is true afterwards; the decision sequence of generate_condition_16bits is interpreted for every high/low byte of the 16-bit difference; generate_condition is verified in two parts: its logical structure (&&, ||, !, delegation of comparisons) as a recursive contract -- control reaches the label exactly when the condition holds, for every truth assignment of the leaves, local labels fresh (decimal rendering proved injective) -- and its value tail (`if (x)`); generate_if (exactly one body runs, break / continue shortcuts, the belief restored at the else label is one known to be true there) the loops (generate_while / do_while / for_loop / break / continue: single-pass contracts over a ghost control state, for arbitrary condition oracles and body exits) and generate_switch (inductive invariants over its cases: the statements that run are those C runs, for every value, case list and statement exit) are verified whole; generate_function_call whole with its parameter and call blocks as stubs (live accumulator and scratch byte restored, stack balanced, result where the operand says), the variable / element-access arm of generate_expr (operand names the variable, subscripts on scalars rejected, subscript code emitted once, scratch byte free when Y is parked there), the Expr::FunctionCall arm of generate_expr (a call is emitted once per evaluation, never again for the high byte of a 16-bit context) and the var_sign arms of the declaration decoders (declared signedness is the keyword written) are R8 windows under contract; generate_expr_cond / generate_not / generate_ternary (a condition used as a value) give 1 / 0, keep the stack balanced and never enter generate_condition with a live accumulator; generate_shift and generate_sign_extend are verified on the ghost 6502 as well; the whole of generate_assign is verified the same way for every destination x source kind (the destination holds the source's value, nothing else is disturbed, stack balanced, and the belief about N/Z is true afterwards); the whole of generate_arithm is verified against stubs that execute every emitted instruction on a ghost 6502: the returned expression denotes `l op r` for the byte computed (with the incoming carry for the high byte), carry-out, X/Y kept, stack balanced, a live accumulator preserved. BOUNDED stand-in (labelled, never counted as proved): a corpus of programs compiled by the real compiler and executed on a 6502 interpreter, compared with C. U-optable: the rule-to-operation matches of both expression parsers give every operator token of the grammar the operation C gives it. U-csleep: a transfer to X / Y by store() forgets the flags belief. U-inline: `return e;` flushes the deferred side effects of e before leaving; U-csleep: an asm statement and a store() to memory leave no stale belief about the flags; U-subscript: the operand that is sign-extended has the index register of the element accessed.",
        note="Five more defects found by these contracts were repaired (indexed element vs index register compared the register with itself; PHA without PLA; offset overflow panic; stale N/Z belief after STX/STY and `Y = Y`; assignment of a void call panicked); `s = X + 1000` losing the carry into the high byte is a recorded known finding of the bounded unit. NOT decided: composition of these pieces into whole-program semantic preservation (expression evaluation order, register/temporary liveness, deferred ++, flags belief elsewhere, loops/switch/calls, scoping) and the 'must be rejected with an error' clause. That needs an invariant over the entire generator and a semantics of the pest AST: out of reach for per-function contracts here.",
        technique="contract-based deductive verification (Verus: whole generator functions against ghost-machine stubs of asm(); statement generators against asm()'s proved contract) + contract-style full-domain model checking of extracted loop-free lowering code (Kani); bounded simulation corpus as a labelled stand-in",
        design="DESIGN.md section 5, C01"),
    "C15": dict(
        text="Partial: the table-level mechanisms behind two of the listed rewrites are proved on the real code: `a < b` versus `b > a` and `if (c) A else B` versus `if (!c) B else A` rest on the negate/switch operator tables of generate_condition_ex, which Kani shows semantically exact for all operands (mirror and complement), and on the branch emitters being exact for every operator (shared with C01); commuting + & | ^ rests on generate_arithm's operand canonicalisation, proved to exchange operands only for + & | ^ * and never for - or / (plain or compound form); ++/-- on X, Y, chars and shorts are exact (so `++x` and `x += 1` rest on two exact lowerings); generate_condition_ex as a whole asks the same question whichever side an operand is written on (Verus, U-condex); generate_arithm computes `l op r` whichever operand order it picks (Verus, U-arithm). BOUNDED stand-in (labelled): for/while/do-while, compound assignment vs long form, switch vs if-chain, mirrored if/else run on the 6502 interpreter.",
        note="NOT decided: op= forms beyond operand order, ++x vs x += 1, for vs while, switch vs if-chain, register vs constant index, call vs inlined body: these are agreements between different lowering paths, i.e. whole-program semantics. In a unit that serves C15 every obligation about what the emitted code computes (tagged C01) counts for C15.",
        technique="contract-style full-domain model checking of extracted loop-free code (Kani) + contract-based deductive verification (Verus) of generate_condition_ex / generate_arithm; bounded simulation corpus as a labelled stand-in",
        design="DESIGN.md section 5, C15"),
})

CLAIMED.update({
    "C07": dict(
        text="Deductive proof (Verus) on the conditional-compilation state machine of cpp::process, cut per directive from the real text: with the abstraction 'one frame (branch-selected-already, this-branch-selected) per open group', every state/stack update of #ifdef #ifndef #if #elif #else #endif implements the reference semantics of the property (first branch whose condition holds, #else when none did, groups inside unselected text inert), the state is Active exactly when every enclosing branch is the selected one, #endif without #if is an error, and the guards of #define #undef #include #error and of ordinary lines are proved equal to 'Active'. The `#if` expression evaluator (U-ifexpr: eval_unary, eval_eq, evaluate whole) computes the C value of `! ! term` and `a == b == c`, rejects leftover text and passes an operand's error on.",
        note="Partial: eval_term (a name's value) and the recognition of directives (starts_with, splitn) are not under contract; in the state-machine unit the conditions' truth values are parameters. Well-nestedness is the property's premise.",
        technique="contract-based deductive verification (Verus; refinement of a reference transition system by the statements extracted mechanically from /repo)",
        design="DESIGN.md section 5, C07"),
})

CLAIMED.update({
    "C08": dict(
        text="Context::define and Context::define_ex whole (last_mut updates written as pop / push of the last chunk): the four chunked tables stay in step and every chunk's RegexSet is built from that chunk's current patterns (so a macro in any slot, including the last of a 100-entry chunk, is seen by replace_all's set), the macro is appended to the last chunk and a full chunk is followed by a fresh one.  Narrow, partial: Deductive proof (Verus) of the clause '#undef removes exactly the named macro' at the level the code allows: the real nested search loops of Context::undefine return the position (chunk, offset) of the first entry carrying the given name, or the table length when the name is absent, and the three parallel tables and the regex set of that chunk are updated at exactly that position (index expressions extracted verbatim). The -D option (U-dashd): the loop body of compile() defines the text before the first `=` as the text after it (further `=` included), or as 1.",
        note="NOT decided (and the larger part of C08): whole-identifier matching, no expansion inside strings or longer identifiers, positional argument substitution, nested expansion, and what RegexSet / Regex match (only which patterns they were built from is tracked). These are semantics of the regex crate (\\b, captures, replace_all) and of str::splitn, for which no specifications exist, the removals of undefine use IndexMut on Vec<Vec<_>> (only their index expressions are checked) and the flat map `defs` is a BTreeMap, outside Verus' subset (define / define_ex are verified with their last_mut() updates written as pop / push of the last chunk); Kani on String tables is intractable here (a 10-line block over a String-keyed table did not finish in 18 minutes).",
        technique="contract-based deductive verification (Verus loop invariants on the loops extracted mechanically from /repo)",
        design="DESIGN.md section 5, C08"),
})

CLAIMED.update({
    "C16": dict(
        text="Partial: panic-freedom of the functions under contract. Every Verus unit generates the implicit side conditions of its real text (debug-profile arithmetic overflow, index bounds, unwrap, unreachable!, slicing) and they are discharged under the stated preconditions; named obligations cover the calculator (every operator returns Ok or Err for all i32 operands and propagates failed operands instead of unwrapping: Kani), the parse-error arm of compile() for an empty line table, error locations at offset 0, asm()'s acceptance condition (exactly when it returns Err), push_code on an undefined callee, undefine on an absent name, parse_int on literals that do not fit, generate_arithm / generate_condition_ex / generate_condition_16bits whole (no unwrap, unreachable!, overflow on any path under their preconditions). The operator tables of the expression parsers are under contract (U-optable: every infix token the grammar delivers has an arm and is registered in the Pratt table of the parser that receives it, so neither `unreachable!()` nor pest's panic on an unregistered operator can be reached from an operator), an asm() operand is looked up without unwrap (U-asm: the stub of get_variable requires the name to be declared), and two panic sites on user text are excluded by a scan of the function text (U-frame: literal markers written in the source, `#define` without a name). U-optable also checks the calculator's operator table against the grammar's calc_infix list.",
        note="NOT decided: the several hundred unwrap/unreachable!/index sites of the pest-tree walkers and of the rest of the generator, stack depth on deep nesting, and termination in general (check_branches, the closure computation, replace_all on self-referential macros, are known gaps, the last one also a known defect that was not repaired; parse_int on out-of-range literals was repaired and is under contract now). Preconditions of the contracted functions are caller obligations, proved only where a caller unit exists.",
        technique="contract-based deductive verification (implicit verification conditions of Verus on extracted functions) + Kani full-domain harnesses",
        design="DESIGN.md section 5, C16"),
})

NOT_APPLICABLE = {
    "C11": "no contract within reach: the property is about the comment/splice scanner in cpp::process (str::split*/byte slicing without vstd specifications), pest WHITESPACE/COMMENT rules (generated parser) and a relation between two whole compilations",
}

PENDING = "unit not built yet: contract designed in DESIGN.md section 5 but not discharged"

ALL = ["C%02d" % i for i in range(1, 19)]


def manifest():
    checks = []
    for p in ALL:
        if p in CLAIMED:
            c = CLAIMED[p]
            checks.append({
                "property_id": p,
                "quick_cmd": "./check %s --tier quick" % p,
                "thorough_cmd": "./check %s --tier thorough" % p,
                "evidence_file": "/verif/evidence/%s.json" % p,
                "replay_cmd_template": "./check --replay {path}",
                "engine": "vf",
                "level_claimed": {"category": "proof", "text": c["text"], "design_ref": c["design"]},
                "level_note": c["note"],
                "technique": c["technique"],
            })
    na = []
    for p in ALL:
        if p not in CLAIMED:
            na.append({"property_id": p, "reason": NOT_APPLICABLE.get(p, PENDING)})
    return {
        "version": 1,
        "setup_cmd": "cd /verif && python3 -m vf.selftest",
        "hooks": {
            "guard": "steux_cc6502_verif",
            "enable": "no hook is needed: contracts are spliced into text extracted from /repo on every run (Verus single-file, Kani generated crate); --cfg steux_cc6502_verif is reserved and unused",
            "baseline_off_cmd": "cd /repo && cargo test --workspace --no-fail-fast --offline",
            "source_commits": [],
            "add_only": True,
        },
        "engines": [{"name": "vf", "path": "/verif/vf", "serves_properties": sorted(CLAIMED), "kind_free_text": "extractor + contract splicer + Verus/Kani runner + obligation ledger"}],
        "checks": checks,
        "not_applicable": na,
        "notes": "Every check regenerates its verification units from /repo's current working tree. Exit 0: all obligations discharged (known findings printed as KNOWN-FINDING). Exit 1: VIOLATION line per failed obligation. Exit 2: the machinery could not set the problem up (UNDECIDED), never an alarm.",
    }
