"""U-cond: the conditional-compilation state machine of cpp::process, cut per directive (R8) and proved against the reference
semantics 'first branch whose condition holds, #else when none does, nested groups inert unless every enclosing branch is selected' (C07),
plus the #include arm's frame on the context (C06)."""
import re
from vf.core import Unit
from vf.rustcut import SourceFile, Undecided, Cut
from . import common

NAME = "U-cond"
TOOL = "verus"
PROPS = ["C07", "C06", "C16", "C08"]
RLIMIT = 100
TRUSTED = ["verus 0.2026.09.13 + z3", "A-vstd (Vec push/pop)"]

SPECS = """
// ---- reference semantics of conditional groups ------------------------------------------------------------------------
// one frame per open #if-group: has a branch been selected already, and is the current branch the selected one
pub struct Frame { pub taken: bool, pub current: bool }
pub open spec fn all_current(f: Seq<Frame>) -> bool { forall|i: int| 0 <= i < f.len() ==> (#[trigger] f[i]).current }
// text at this point reaches the compiler iff every enclosing group's current branch is the selected one
pub open spec fn emits(f: Seq<Frame>) -> bool { all_current(f) }
// the three-valued state the implementation should be in for a given nesting
pub open spec fn state_of(f: Seq<Frame>) -> State {
    if f.len() == 0 { State::Active }
    else if !all_current(f.drop_last()) { State::Skip }
    else if f.last().current { State::Active }
    else if f.last().taken { State::Skip }
    else { State::Inactive }
}
// the implementation's (state, stack) represents the nesting f
// a branch can only be the current selected one if the group has selected a branch
pub open spec fn wf(f: Seq<Frame>) -> bool { forall|i: int| 0 <= i < f.len() ==> ((#[trigger] f[i]).current ==> f[i].taken) }
pub open spec fn rel(state: State, stack: Seq<State>, f: Seq<Frame>) -> bool {
    wf(f) && stack.len() == f.len() && state == state_of(f) && forall|i: int| 0 <= i < f.len() ==> #[trigger] stack[i] == state_of(f.take(i))
}
// reference transitions.  `c` is the truth value of the directive's condition (only meaningful where C evaluates it).
pub open spec fn ref_if(f: Seq<Frame>, c: bool) -> Seq<Frame> { f.push(Frame { taken: all_current(f) && c, current: all_current(f) && c }) }
pub open spec fn ref_elif(f: Seq<Frame>, c: bool) -> Seq<Frame> {
    let l = f.last();
    let sel = all_current(f.drop_last()) && !l.taken && c;      // first branch whose condition holds
    f.drop_last().push(Frame { taken: l.taken || sel, current: sel })
}
pub open spec fn ref_else(f: Seq<Frame>) -> Seq<Frame> {
    let l = f.last();
    f.drop_last().push(Frame { taken: true, current: all_current(f.drop_last()) && !l.taken })     // #else when none did
}
pub open spec fn ref_endif(f: Seq<Frame>) -> Seq<Frame> { f.drop_last() }

pub proof fn lemma_state_active(f: Seq<Frame>)
    ensures (state_of(f) == State::Active) == emits(f) //@ C07:active-iff-all-selected
{
    if f.len() > 0 {
        assert(all_current(f) == (all_current(f.drop_last()) && f.last().current)) by {
            if all_current(f.drop_last()) && f.last().current {
                assert forall|i: int| 0 <= i < f.len() implies (#[trigger] f[i]).current by { if i < f.len() - 1 { assert(f.drop_last()[i] == f[i]); } }
            }
            if all_current(f) { assert forall|i: int| 0 <= i < f.len() - 1 implies (#[trigger] f.drop_last()[i]).current by { assert(f.drop_last()[i] == f[i]); } }
        }
    }
}
pub proof fn lemma_rel_push(state: State, stack: Seq<State>, f: Seq<Frame>, fr: Frame)
    requires rel(state, stack, f), fr.current ==> fr.taken
    ensures rel(state_of(f.push(fr)), stack.push(state), f.push(fr))
{
    let g = f.push(fr);
    assert forall|i: int| 0 <= i < g.len() implies #[trigger] stack.push(state)[i] == state_of(g.take(i)) by {
        if i < f.len() { assert(g.take(i) =~= f.take(i)); } else { assert(g.take(i) =~= f); }
    }
}
pub proof fn lemma_rel_replace_last(state: State, stack: Seq<State>, f: Seq<Frame>, fr: Frame)
    requires rel(state, stack, f), f.len() > 0, fr.current ==> fr.taken
    ensures rel(state_of(f.drop_last().push(fr)), stack, f.drop_last().push(fr))
{
    let g = f.drop_last().push(fr);
    assert forall|i: int| 0 <= i < g.len() implies #[trigger] stack[i] == state_of(g.take(i)) by { assert(g.take(i) =~= f.take(i)); }
}
pub proof fn lemma_rel_pop(state: State, stack: Seq<State>, f: Seq<Frame>)
    requires rel(state, stack, f), f.len() > 0
    ensures rel(stack.last(), stack.drop_last(), f.drop_last())
{
    let g = f.drop_last();
    assert(f.take(f.len() - 1) =~= g);
    assert forall|i: int| 0 <= i < g.len() implies #[trigger] stack.drop_last()[i] == state_of(g.take(i)) by { assert(g.take(i) =~= f.take(i)); }
}
pub struct ErrShim { pub e: u8 }
// the expression of `#if` / `#elif` is evaluated (and may be found in error) only where its value decides something: `#if` in active text, `#elif` when the
// enclosing text is active and no branch of the group has been selected yet; in an unselected region the directive has no effect
#[verifier::external_body] pub fn evaluate_if(cond: bool, state: State) -> (r: bool)
    requires state == State::Active, //@ C07:if-expression-evaluated-only-in-active-text
    ensures r == cond { unimplemented!() }
#[verifier::external_body] pub fn evaluate_elif(cond: bool, state: State) -> (r: bool)
    requires state == State::Inactive, //@ C07:elif-expression-evaluated-only-while-no-branch-is-selected
    ensures r == cond { unimplemented!() }
"""


def build(repo):
    u = Unit(NAME, TOOL, PROPS,
             ["src/cpp.rs: process() -- state/stack updates of #ifdef, #ifndef, #if, #elif, #else, #endif (R8)",
              "src/cpp.rs: process() -- guards of #undef, #define, #include, #error and of ordinary lines (R8)",
              "src/cpp.rs: process() -- #include arm: context.current_filename / includes_stack around the recursive call (R8)"],
             assumptions=["R8: the impure conditions are parameters: `context.get_macro(expr).is_none()/.is_some()` -> defined, `context.evaluate(expr, line)?` -> cond (the evaluator itself and directive recognition by starts_with/splitn are not under contract)",
                          "well-nestedness is the property's premise: #elif/#else/#endif are specified for a non-empty nesting (an #endif on an empty stack must be an error)",
                          "R17: `X.ok_or_else(|| E)?` rewritten to `match X { Some(v) => v, None => return Err(..) }` (definition of ok_or_else and ?)",
                          "the recursive process() call of #include is a shim that may change the context arbitrarily except that it leaves includes_stack as it found it (its own pushes are popped: the same block, inductively)"])
    f = SourceFile(repo, "src/cpp.rs")
    st = f.item("enum", "State")
    common.r2(st, structural=False)
    st.sub(r"#\[derive\(([^)]*)\)\]", "#[derive(Eq, PartialEq, Copy, Clone, Structural)]", "R2-derive+structural")
    cuts = [st]
    s0, ob0, cb0 = f.find_fn_span("process")
    text, masked = f.text, f.masked

    def purify(c, ev="evaluate_if"):
        c.sub(r"context\.get_macro\(expr\)\.is_none\(\)", "!defined", "R8 impure condition -> parameter")
        c.sub(r"context\.get_macro\(expr\)\.is_some\(\)", "defined", "R8 impure condition -> parameter")
        # the evaluation can fail (an undefined identifier is an error): it is a stub that returns the parameter and may only be reached in the state that needs the value
        c.sub(r"context\.evaluate\(expr, line\)\?", "%s(cond, state)" % ev, "R8 impure condition -> stub returning the parameter, with the state it may be reached in as precondition")
        if "context" in c.text:
            raise Undecided("%s: still refers to `context` after purification" % c.desc)
        return c

    fns = []
    # ---- the three group openers: `stack.push(state);` + the if/else that follows
    pushes = [m.start() for m in re.finditer(r"stack\.push\(state\);", masked[s0:cb0])]
    if len(pushes) != 3:
        raise Undecided("process(): expected 3 `stack.push(state);` (ifdef, ifndef, if), found %d" % len(pushes))
    for k, (name, cexpr, flip) in enumerate((("ifdef", "defined", False), ("ifndef", "!defined", True), ("if", "cond", False))):
        a = s0 + pushes[k]
        # from the push to the end of the directive's arm (whatever statements compute the new state)
        depth, e = 0, a
        while e < cb0:
            ch = masked[e]
            if ch == "{":
                depth += 1
            elif ch == "}":
                if depth == 0:
                    break
                depth -= 1
            e += 1
        e = f.text.rfind("\n", a, e) + 1
        c = purify(f.cut_span(a, e, "process(): #%s state update, from the push to the end of the arm (R8)" % name))
        cuts.append(c)
        params = "defined: bool" if name != "if" else "cond: bool"
        fns.append("""
// R8: #%(name)s
pub fn step_%(name)s(state: State, stack: &mut Vec<State>, %(params)s, Ghost(f): Ghost<Seq<Frame>>) -> (r: State)
    requires rel(state, old(stack)@, f),
    ensures rel(r, final(stack)@, ref_if(f, %(cexpr)s)), //@ C07:step-%(name)s
{
    let mut state = state;
    proof { lemma_state_active(f); lemma_rel_push(state, stack@, f, Frame { taken: all_current(f) && (%(cexpr)s), current: all_current(f) && (%(cexpr)s) }); }
%(body)s
    proof { lemma_state_active(ref_if(f, %(cexpr)s)); assert(ref_if(f, %(cexpr)s).drop_last() =~= f); }
    state
}
""" % {"name": name, "params": params, "cexpr": cexpr, "body": c.text})
    # ---- #elif / #else / #endif arms
    def arm(label):
        k = text.find('"%s" => {' % label, s0, cb0)
        if k < 0:
            raise Undecided('process(): arm "%s" not found' % label)
        ob = text.find("{", k)
        from vf.rustcut import match_brace
        return ob, match_brace(masked, ob)
    for name, ref, extra_req, params in (("elif", "ref_elif(f, cond)", "f.len() > 0", "cond: bool"), ("else", "ref_else(f)", "f.len() > 0", "")):
        ob, cb = arm("#" + name)
        m = re.search(r"\bif !?\(?state\b", masked[ob:cb])
        if not m:
            raise Undecided("process(): #%s arm has no `if state …` statement" % name)
        a = ob + m.start()
        e = f.if_chain_end(a)
        c = purify(f.cut_span(a, e, "process(): #%s state update (R8)" % name), ev="evaluate_elif")
        cuts.append(c)
        fns.append("""
// R8: #%(name)s
pub fn step_%(name)s(state: State, stack: &Vec<State>, %(params)s Ghost(f): Ghost<Seq<Frame>>) -> (r: State)
    requires rel(state, stack@, f), %(req)s,
    ensures rel(r, stack@, %(ref)s), //@ C07:step-%(name)s
{
    let mut state = state;
    proof {
        lemma_state_active(f); lemma_state_active(f.drop_last());
        lemma_rel_replace_last(state, stack@, f, (%(ref)s).last());
        assert((%(ref)s).drop_last() =~= f.drop_last());
        assert(%(ref)s =~= f.drop_last().push((%(ref)s).last()));
    }
%(body)s
    state
}
""" % {"name": name, "ref": ref, "req": extra_req, "params": (params + ",") if params else "", "body": c.text})
    ob, cb = arm("#endif")
    m = re.search(r"state = stack\s*\.pop\(\)\s*\.ok_or_else\(", masked[ob:cb])
    if not m:
        raise Undecided("process(): #endif arm is not `state = stack.pop().ok_or_else(…)?;`")
    fns.append("""
// R8/R17: #endif -- `state = stack.pop().ok_or_else(|| Error::Syntax {…})?;`
pub fn step_endif(state: State, stack: &mut Vec<State>, Ghost(f): Ghost<Seq<Frame>>) -> (r: Result<State, ErrShim>)
    requires rel(state, old(stack)@, f),
    ensures
        f.len() == 0 ==> r is Err, //@ C07:endif-without-if-is-error
        f.len() > 0 ==> r is Ok && rel(r->Ok_0, final(stack)@, ref_endif(f)), //@ C07:step-endif
{
    let mut state = state;
    proof { if f.len() > 0 { lemma_rel_pop(state, stack@, f); } }
    state = match stack.pop() { Some(v) => v, None => return Err(ErrShim { e: 0 }) };
    Ok(state)
}
""")
    # ---- guards: the condition under which a side-effecting directive / an ordinary line takes effect
    guards = []
    for gname, pat, raw in (("undef", r'substr\.starts_with\("#undef"\) \{', True), ("define", r'substr\.starts_with\("#define"\) \{', True),
                            ("include", '"#include" => {', True), ("error", '"#error" => {', True)):
        k = text.find(pat.replace("\\", ""), s0, cb0) if raw else -1
        if k < 0:
            raise Undecided("process(): anchor for the #%s guard not found" % gname)
        ob = text.find("{", k + len(pat.replace("\\", "")) - 1)
        m = re.match(r"\s*if\s+(.+?)\s*\{", masked[ob + 1:ob + 200])
        if not m:
            raise Undecided("process(): #%s is not guarded by an `if` as its first statement" % gname)
        cond = text[ob + 1 + m.start(1): ob + 1 + m.end(1)]
        guards.append((gname, cond))
    m = re.search(r"\}\s*else if\s+([^{]+?)\s*\{\s*lines\.push\(", masked[s0:cb0])
    if not m:
        raise Undecided("process(): guard of ordinary lines (`} else if … { lines.push(`) not found")
    guards.append(("line", text[s0 + m.start(1): s0 + m.end(1)]))
    for gname, cond in guards:
        fns.append("""
// R8: guard of %(n)s (condition text verbatim)
pub fn guard_%(n)s(state: State, Ghost(f): Ghost<Seq<Frame>>) -> (r: bool)
    requires state == state_of(f),
    ensures r == emits(f), //@ %(tags)s:guard-%(n)s
{
    proof { lemma_state_active(f); }
    %(c)s
}
""" % {"n": gname, "c": cond, "tags": "C07,C08" if gname in ("undef", "define") else "C07"})      # a #define / #undef in text that is not compiled must leave the macro table alone (C08)
    # ---- #include arm: context frame around the recursive call (C06)
    ob, cb = arm("#include")
    m1 = re.search(r"context\.current_filename = ", masked[ob:cb])
    m2 = re.search(r"lines\.append\(&mut mapped_lines\);", masked[ob:cb])
    if not (m1 and m2):
        raise Undecided("process(): #include arm lacks the current_filename / lines.append statements")
    inc = f.cut_span(ob + m1.start(), ob + m2.start(), "process(): #include arm, context handling around the recursive call (R8)")
    cuts.append(inc)
    inc.sub(r"let mut mapped_lines = process\(f, output, context, assembler\)\?;", "let mapped_lines = match process_shim(context) { Ok(v) => v, Err(e) => return Err(e) };", "R8 recursive call -> shim; `?` -> match", expect=1)
    fns.append("""
pub struct Context { pub current_filename: String, pub includes_stack: Vec<(String, u32)> }
// the recursive process() call: anything may happen to current_filename; its own include pushes are popped again (same block, inductively)
#[verifier::external_body]
pub fn process_shim(context: &mut Context) -> (r: Result<u8, ErrShim>)
    ensures final(context).includes_stack@ == old(context).includes_stack@
{ unimplemented!() }
// R8: #include arm of process(), the statements around the recursive call, verbatim
pub fn include_context(context: &mut Context, fname: String, filename: String, line: u32) -> (r: Result<(), ErrShim>)
    requires old(context).current_filename@ == filename@,
    ensures
        // after an #include the context names the including file again and the include stack is balanced:
        // later diagnostics of this file (e.g. from the #if evaluator) are attributed to it
        r is Ok ==> final(context).current_filename@ == filename@, //@ C06:include-restores-filename
        r is Ok ==> final(context).includes_stack@ =~= old(context).includes_stack@, //@ C06:include-stack-balanced
{
%s
    Ok(())
}
""" % inc.text)
    out = common.PRELUDE + common.header_comment(NAME, cuts) + "verus! {\n" + st.text + "\n" + SPECS + "\n".join(fns) + common.CANARY + "\n} // verus!\n"
    u.text[None] = out
    u.rewrites = common.collect_rewrites(cuts)
    u.dropped = ["everything of process() outside the cut statements: line reading, splices, comment/string scanning, directive recognition, macro definition parsing, include file lookup and I/O"]
    return u
