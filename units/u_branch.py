"""U-branch: generate_branch_instruction / _alt and the negate/switch operator tables of generate_condition_ex, run verbatim against a
recording shim and interpreted on all 8-bit operands and flag states (C01, C15).  Kani, loop-free over full domains."""
import re
from vf.core import Unit
from vf.rustcut import SourceFile, Undecided

NAME = "U-branch"
TOOL = "kani"
PROPS = ["C01", "C15", "C02"]
TRUSTED = ["kani 0.68 / cbmc 6.11 (bit-precise; a, b range over all u8, flags over all values: complete)",
           "A-isa: CMP sets C = (a >= b unsigned), Z = (a == b), N = bit 7 of a-b; a load sets Z/N from the value; branch conditions BEQ Z, BNE !Z, BMI N, BPL !N, BCS C, BCC !C"]

OPS = ["Eq", "Neq", "Lt", "Lte", "Gt", "Gte"]

SHIM = """// GENERATED on every run from /repo's current working tree by /verif/check -- do not edit.
#![allow(unused, non_camel_case_types, unreachable_code)]
// format! only builds the text of a local label here (".ifhere<N>"); shadowed by a cheap macro: what matters is that it starts with '.' (A-local-label)
macro_rules! format { ($($t:tt)*) => { String::from(".h") } }
%(operation)s
%(mnemonic)s
use AsmMnemonic::*;
#[derive(Debug, Clone, PartialEq)]
pub enum ExprType { Nothing, Immediate(i32), Tmp(bool), Absolute(String, bool, i32), AbsoluteX(String), AbsoluteY(String), A(bool), X, Y, Label(String) }
#[derive(Debug)]
pub enum Error { Unimplemented { feature: &'static str } }
#[derive(Copy, Clone, PartialEq)]
pub enum Rec { Branch(AsmMnemonic, u8, bool), Label(u8), None }       // label ids: 0 = the target label, 1 = a local label (text starts with '.')
// R6 recording shim of GeneratorState
pub struct GeneratorState { pub rec: [Rec; 6], pub n: usize, pub local_label_counter_if: u32, pub protected: bool }
fn lid(s: &str) -> u8 { if s.as_bytes().len() > 0 && s.as_bytes()[0] == b'.' { 1 } else { 0 } }
impl GeneratorState {
    pub fn new() -> Self { GeneratorState { rec: [Rec::None; 6], n: 0, local_label_counter_if: 0, protected: false } }
    pub fn asm(&mut self, m: AsmMnemonic, op: &ExprType, _pos: usize, _hb: bool) -> Result<bool, Error> {
        if let ExprType::Label(l) = op { if self.n < 6 { self.rec[self.n] = Rec::Branch(m, lid(l), self.protected); self.n += 1; } }
        Ok(false)
    }
    pub fn label(&mut self, l: &str) -> Result<(), Error> { if self.n < 6 { self.rec[self.n] = Rec::Label(lid(l)); self.n += 1; } Ok(()) }
%(fns)s
    // R8: the negate / switch tables of generate_condition_ex, verbatim
    pub fn tables(&self, op: &Operation, negate: bool, switch: bool) -> (Operation, Operation) {
        %(opx)s
        %(operator)s
        (opx, operator)
    }
}
// ---- A-isa: branch semantics over (N, Z, C); returns true iff control reaches the target label ----------------------------
fn taken(m: AsmMnemonic, n: bool, z: bool, c: bool) -> bool { match m { BEQ => z, BNE => !z, BMI => n, BPL => !n, BCS => c, BCC => !c, JMP => true, _ => false } }
fn reaches(g: &GeneratorState, n: bool, z: bool, c: bool) -> bool {
    let mut pc = 0; let mut skip_to_local = false;
    while pc < 6 {
        match g.rec[pc] {
            Rec::Branch(m, id, _) => { if !skip_to_local && taken(m, n, z, c) { if id == 0 { return true; } else { skip_to_local = true; } } }
            Rec::Label(id) => { if id == 1 { skip_to_local = false; } }
            Rec::None => {}
        }
        pc += 1;
    }
    false
}
fn c_cmp(op: Operation, a: i16, b: i16) -> bool { match op { Operation::Eq => a == b, Operation::Neq => a != b, Operation::Lt => a < b, Operation::Lte => a <= b, Operation::Gt => a > b, Operation::Gte => a >= b, _ => false } }
#[cfg(kani)]
mod harness {
    use super::*;
%(harnesses)s
    #[kani::proof] fn canary_must_fail() { let a: u8 = kani::any(); assert!(a != 200); }
}
"""

H_CMP = """    #[kani::proof] #[kani::unwind(8)]
    fn %(name)s() {          // after `CMP`: reaches(label) <=> a %(op)s b  (%(sg)s%(dom)s)
        let a: u8 = kani::any(); let b: u8 = kani::any();
        %(assume)s
        let mut g = GeneratorState::new();
        let r = g.generate_branch_instruction(&Operation::%(op)s, %(signed)s, "L");
        assert!(r.is_ok());
        let (n, z, c) = ((a.wrapping_sub(b) & 0x80) != 0, a == b, a >= b);
        let expect = %(expect)s;
        assert!(reaches(&g, n, z, c) == expect);
    }
"""
H_ALT = """    #[kani::proof] #[kani::unwind(8)]
    fn %(name)s() {          // flags from the value itself (compare with 0, CMP skipped): reaches(label) <=> a %(op)s 0  (%(sg)s); the carry is arbitrary
        let a: u8 = kani::any(); let c: bool = kani::any();
        let mut g = GeneratorState::new();
        let r = g.generate_branch_instruction_alt(&Operation::%(op)s, %(signed)s, "L");
        assert!(r.is_ok());
        let (n, z) = ((a & 0x80) != 0, a == 0);
        let expect = %(expect)s;
        assert!(reaches(&g, n, z, c) == expect);
    }
"""
H_ORD = """    #[kani::proof] #[kani::unwind(8)]
    fn branch_unprotected_eq_is_last() {      // the optimizer folds `CMP #k ; BEQ/BNE` away when the register's value is known: an unprotected BEQ/BNE must be the LAST reader of the compare's flags
        let k: u8 = kani::any(); kani::assume(k < 6); let signed: bool = kani::any();
        let op = match k { 0 => Operation::Eq, 1 => Operation::Neq, 2 => Operation::Lt, 3 => Operation::Lte, 4 => Operation::Gt, _ => Operation::Gte };
        let mut g = GeneratorState::new();
        let r = g.generate_branch_instruction(&op, signed, "L");
        assert!(r.is_ok());
        let mut i = 0;
        while i < 6 {
            if let Rec::Branch(m, _, p) = g.rec[i] {
                if (m == BEQ || m == BNE) && !p {
                    let mut j = i + 1;
                    while j < 6 { assert!(!matches!(g.rec[j], Rec::Branch(_, _, _))); j += 1; }
                }
            }
            i += 1;
        }
    }
"""
H_TAB = """    #[kani::proof]
    fn %(name)s() {
        let a: i16 = kani::any(); let b: i16 = kani::any(); let negate: bool = kani::any(); let switch: bool = kani::any();
        let g = GeneratorState::new();
        let (opx, operator) = g.tables(&Operation::%(op)s, negate, switch);
        // `negate` tests the complement; `switch` exchanges the operands and mirrors the operator
        assert!(c_cmp(opx, a, b) == (c_cmp(Operation::%(op)s, a, b) != negate));
        assert!(if switch { c_cmp(operator, b, a) } else { c_cmp(operator, a, b) } == c_cmp(opx, a, b));
    }
"""


def build(repo):
    u = Unit(NAME, TOOL, PROPS,
             ["src/generate/generate_conditions.rs: GeneratorState::generate_branch_instruction", "src/generate/generate_conditions.rs: GeneratorState::generate_branch_instruction_alt",
              "src/generate/generate_conditions.rs: GeneratorState::generate_condition_ex (`let opx = …;` and `let operator = …;` tables, R8)"],
             assumptions=["A-isa flag semantics of CMP / loads / branches (in the harness)", "A-local-label: format!(\".ifhere{}\", n) yields a text starting with '.', distinct from the target label",
                          "R6: asm()/label() are recording shims (which branch, to the target or to a local label, protected or not)",
                          "the optimizer's compare-folding rule (U-opt: opt-both-sound) is sound in context only if the folded BEQ/BNE is the last reader of the compare: that is the obligation branch-unprotected-eq-is-last here",
                          "composition (expression evaluation order, register liveness, the generator's flags belief, loop/switch/call lowering, scoping) is NOT decided: whole-generator semantics"],
             bounded=["the 6-entry recording buffer is interpreted by a loop unwound 8 times with unwinding assertions: complete for these straight-line emitters"])
    f = SourceFile(repo, "src/generate/generate_conditions.rs")
    comp = SourceFile(repo, "src/compile.rs")
    asmf = SourceFile(repo, "src/assemble.rs")
    op_enum = comp.item("enum", "Operation").text
    mn_enum = asmf.item("enum", "AsmMnemonic").text
    fns = []
    for name in ("generate_branch_instruction", "generate_branch_instruction_alt"):
        c = f.fn(name, within="GeneratorState")
        fns.append(c.text)
    s0, ob0, cb0 = f.find_fn_span("generate_condition_ex")
    opx = f.stmt(r"let opx = if negate", s0, cb0).text
    operator = f.stmt(r"let operator = if switch", s0, cb0).text
    hs = []
    cop = {"Eq": "==", "Neq": "!=", "Lt": "<", "Lte": "<=", "Gt": ">", "Gte": ">="}
    for op in OPS:
        lo = op.lower()
        # CMP path, unsigned
        nm = "branch_cmp_%s_u" % lo
        hs.append(H_CMP % {"name": nm, "op": op, "sg": "unsigned", "dom": "", "assume": "", "signed": "false", "expect": "a %s b" % cop[op]})
        u.harnesses[nm] = (["C01", "C15"], "branch-cmp-%s-u" % lo, "CMP a,b then the emitted branch(es) reach the label iff a %s b, unsigned, all a, b" % cop[op])
        if op in ("Eq", "Neq"):
            nm = "branch_cmp_%s_s" % lo
            hs.append(H_CMP % {"name": nm, "op": op, "sg": "signed", "dom": "", "assume": "", "signed": "true", "expect": "(a as i8) %s (b as i8)" % cop[op]})
            u.harnesses[nm] = (["C01", "C15"], "branch-cmp-%s-s" % lo, "signed %s after CMP, all a, b" % cop[op])
        else:
            for dom, cond in (("noovf", "kani::assume((a as i8).checked_sub(b as i8).is_some());"), ("ovf", "kani::assume((a as i8).checked_sub(b as i8).is_none());")):
                nm = "branch_cmp_%s_s_%s" % (lo, dom)
                hs.append(H_CMP % {"name": nm, "op": op, "sg": "signed", "dom": ", a-b %s" % ("does not overflow" if dom == "noovf" else "overflows"), "assume": cond, "signed": "true",
                                   "expect": "(a as i8) %s (b as i8)" % cop[op]})
                u.harnesses[nm] = (["C01", "C15"], "branch-cmp-%s-s-%s" % (lo, dom), "signed %s after CMP where a-b %s in 8 bits" % (cop[op], "fits" if dom == "noovf" else "overflows"))
        for sg, sv, ex in (("u", "false", "a %s 0" % cop[op]), ("s", "true", "(a as i8) %s 0" % cop[op])):
            nm = "branch_alt_%s_%s" % (lo, sg)
            hs.append(H_ALT % {"name": nm, "op": op, "sg": "unsigned" if sg == "u" else "signed", "signed": sv, "expect": ex})
            u.harnesses[nm] = (["C01", "C15"], "branch-alt-%s-%s" % (lo, sg), "compare with 0 without CMP: reaches the label iff a %s 0 (%s), whatever the carry" % (cop[op], "unsigned" if sg == "u" else "signed"))
        nm = "tables_%s" % lo
        hs.append(H_TAB % {"name": nm, "op": op})
        u.harnesses[nm] = (["C01", "C15"], "cond-tables-%s" % lo, "negate yields the complementary operator, switch the mirrored one (a %s b == b mirrored a), all i16 a, b" % cop[op])
    hs.append(H_ORD)
    u.harnesses["branch_unprotected_eq_is_last"] = (["C02", "C01"], "branch-unprotected-eq-is-last", "after a compare, an unprotected BEQ/BNE is followed by no other branch on the same flags (the optimizer may fold the compare and that branch away), all operators, signed and unsigned")
    u.harnesses["canary_must_fail"] = (["C00"], "canary", "deliberately false")
    text = SHIM % {"operation": op_enum, "mnemonic": mn_enum, "fns": "\n".join(fns), "opx": opx, "operator": operator, "harnesses": "\n".join(hs)}
    text = text.replace("pub(crate) enum", "pub enum")
    u.text[None] = text
    u.rewrites = ["R7/R8: the two functions verbatim as methods of a recording shim; the two table statements wrapped as tables(op, negate, switch)", "format! shadowed (A-local-label)"]
    u.dropped = ["everything else of generate_condition_ex / generate_condition (operand evaluation, CMP emission, flags belief)"]
    return u


def lift(harness, vals):
    """Counterexample -> a C program exercising the comparison on the real compiler; the emitted code is then run on the 6502
    interpreter (vf/sim6502.py) from the counterexample's operand values and compared with C semantics."""
    cop = {"eq": "==", "neq": "!=", "lt": "<", "lte": "<=", "gt": ">", "gte": ">="}
    if harness == "branch_unprotected_eq_is_last":
        # a compare of a register whose value the optimizer knows, with the carry clear on entry: -O1 must compute what -O0 computes
        return {"source": "unsigned char i, rx, ry;\nvoid main() { Y = i + 1; for (X = 10; X > 2; X--) Y++; rx = X; ry = Y; }\n", "args": ["-O1"], "expect": {"panic": False},
                "simulate": {"init": {"i": 0}, "expect": {"rx": 2, "ry": 9}},
                "note": "known register compared with an immediate (the optimizer folds CMP + BEQ/BNE); the loop must run 8 times at every optimisation level"}
    m = re.match(r"branch_(cmp|alt)_(\w+?)_(u|s)(?:_(?:noovf|ovf))?$", harness)
    if not m:
        return None
    try:
        ints = [int(v) for v in vals if re.match(r"^\s*-?\d+\s*$", v)]
    except Exception:
        return None
    kind, op, sg = m.group(1), m.group(2), m.group(3)
    ty = "signed char" if sg == "s" else "unsigned char"
    def sv(v):
        return v - 256 if (sg == "s" and v > 127) else v
    if kind == "cmp":
        if len(ints) < 2:
            return None
        a, b = ints[0] & 0xff, ints[1] & 0xff
        src = "%s a, b; char z;\nvoid main() { z = 0; if (a %s b) z = 1; }\n" % (ty, cop[op])
        want = int(eval("%d %s %d" % (sv(a), cop[op], sv(b))))
        return {"source": src, "args": ["-O0"], "expect": {"panic": False}, "simulate": {"init": {"a": a, "b": b}, "expect": {"z": want}},
                "note": "a = %d, b = %d (%s): C gives z = %d" % (sv(a), sv(b), ty, want)}
    if not ints:
        return None
    a = ints[0] & 0xff
    src = "%s a; char z;\nvoid main() { z = 0; a = a + 1; if (a %s 0) z = 1; }\n" % (ty, cop[op])
    want = int(eval("%d %s 0" % (sv(a), cop[op])))
    return {"source": src, "args": ["-O0"], "expect": {"panic": False}, "simulate": {"init": {"a": (a - 1) & 0xff}, "expect": {"z": want}},
            "note": "a becomes %d (%s) right before the test: C gives z = %d" % (sv(a), ty, want)}
