"""U-callframe: GeneratorState::generate_function_call whole, with its two inner blocks replaced by stubs (parameter loading; call emission and call-tree
recording, which is U-call's subject), verified in Verus over a ghost machine (accumulator, scratch byte, hardware stack as symbolic values): whatever the
callee and the parameter expressions do to the accumulator and to the scratch byte, a live accumulator and a live scratch byte hold their values again
after a call, the stack is balanced, and the result is where the returned operand says it is (C01, C14, C15, C16)."""
import re
from vf.core import Unit
from vf.rustcut import SourceFile, Undecided, mask, match_brace
from . import common

NAME = "U-callframe"
TOOL = "verus"
PROPS = ["C01", "C14", "C15", "C16"]
RLIMIT = 200
TRUSTED = ["verus 0.2026.09.13 + z3", "A-vstd (HashMap get)", "A-spec-hash-str (String as hash key)",
           "A-isa: PHA pushes the accumulator, PLA pulls it, LDA/STA cctmp move a byte between the accumulator and the scratch byte",
           "the parameter-loading block and the call-emission block are stubs: they may change the accumulator and (the callee) the scratch byte arbitrarily and leave the stack as they found it"]

SPECS = """
use vstd::std_specs::hash::*;
use std::collections::HashMap;
#[verifier::external_body]
pub proof fn axiom_string_key_model() ensures obeys_key_model::<String>() {}
pub struct Error { pub e: u8 }
%(types)s
use AsmMnemonic::*;
%(function_shim)s
pub struct CompilerState { pub functions: HashMap<String, Function> }
impl CompilerState { #[verifier::external_body] pub fn syntax_error(&self, message: &str, loc: usize) -> Error { unimplemented!() } }
// the machine, symbolically: values are opaque integers
pub struct M { pub a: int, pub tmp: int, pub stack: Seq<int> }
pub uninterp spec fn ret_value() -> int;          // what the callee returns in the accumulator
pub struct GeneratorState<'a> {
    pub compiler_state: &'a CompilerState,
    pub acc_in_use: bool, pub tmp_in_use: bool,
    pub flags: FlagsState,
    pub gh: Ghost<M>,
}
"""

STUBS = """
    #[verifier::external_body]
    pub(crate) fn sasm(&mut self, mnemonic: AsmMnemonic) -> (res: Result<bool, Error>)
        requires mnemonic == PHA || (mnemonic == PLA && old(self).gh@.stack.len() > 0), //@ C01,C16:call-pulls-only-what-it-pushed
        ensures final(self).compiler_state == old(self).compiler_state, final(self).acc_in_use == old(self).acc_in_use, final(self).tmp_in_use == old(self).tmp_in_use, final(self).flags == old(self).flags,
            res is Ok ==> final(self).gh@ == (if mnemonic == PHA { M { stack: old(self).gh@.stack.push(old(self).gh@.a), ..old(self).gh@ } }
                                             else { M { a: old(self).gh@.stack.last(), stack: old(self).gh@.stack.drop_last(), ..old(self).gh@ } }),
    { unimplemented!() }
    #[verifier::external_body]
    pub(crate) fn asm(&mut self, mnemonic: AsmMnemonic, operand: &ExprType, pos: usize, high_byte: bool) -> (res: Result<bool, Error>)
        requires (mnemonic == LDA || mnemonic == STA) && operand is Tmp,
        ensures final(self).compiler_state == old(self).compiler_state, final(self).acc_in_use == old(self).acc_in_use, final(self).tmp_in_use == old(self).tmp_in_use, final(self).flags == old(self).flags,
            res is Ok ==> final(self).gh@ == (if mnemonic == LDA { M { a: old(self).gh@.tmp, ..old(self).gh@ } } else { M { tmp: old(self).gh@.a, ..old(self).gh@ } }),
    { unimplemented!() }
    // R8 stub of the block "Load parameters": assignments to the callee's parameter variables; they go through the accumulator and respect tmp_in_use
    #[verifier::external_body]
    fn load_parameters_block(&mut self, var: &String, f: &Function, params: &Expr, pos: usize) -> (res: Result<(), Error>)
        ensures final(self).compiler_state == old(self).compiler_state, final(self).acc_in_use == old(self).acc_in_use, final(self).tmp_in_use == old(self).tmp_in_use,
            res is Ok ==> final(self).gh@.stack == old(self).gh@.stack && (old(self).tmp_in_use ==> final(self).gh@.tmp == old(self).gh@.tmp),
    { unimplemented!() }
    // R8 stub of the block from the interrupt check to the call-tree recording (U-call): the callee runs; it returns its value in the accumulator and may use the scratch byte
    #[verifier::external_body]
    fn call_block(&mut self, var: &String, f: &Function, pos: usize) -> (res: Result<(), Error>)
        ensures final(self).compiler_state == old(self).compiler_state, final(self).acc_in_use == old(self).acc_in_use, final(self).tmp_in_use == old(self).tmp_in_use,
            res is Ok ==> final(self).gh@.stack == old(self).gh@.stack && final(self).gh@.a == ret_value(),
    { unimplemented!() }
"""

HEADER = """    fn generate_function_call(&mut self, expr: &Expr, params: &Expr, pos: usize) -> (res: Result<ExprType, Error>)
        ensures
            final(self).compiler_state == old(self).compiler_state,
            res is Ok ==> final(self).gh@.stack == old(self).gh@.stack, //@ C01,C16:call-stack-balanced
            // what was live before the call is there again after it
            (res is Ok && old(self).acc_in_use) ==> final(self).gh@.a == old(self).gh@.a, //@ C01,C14:call-preserves-live-accumulator
            (res is Ok && old(self).tmp_in_use) ==> final(self).gh@.tmp == old(self).gh@.tmp, //@ C01,C14:call-preserves-live-scratch
            // the result is where the returned operand says: in the accumulator when it was free, else in the scratch byte (which is then taken)
            (res is Ok && res->Ok_0 is A) ==> !old(self).acc_in_use && final(self).gh@.a == ret_value(), //@ C01,C15:call-result-in-accumulator
            (res is Ok && res->Ok_0 is Tmp) ==> !old(self).tmp_in_use && final(self).tmp_in_use && final(self).gh@.tmp == ret_value(), //@ C01,C15:call-result-in-scratch
            res is Ok ==> res->Ok_0 is A || res->Ok_0 is Tmp || res->Ok_0 is Nothing,
            (res is Ok && !(res->Ok_0 is Tmp)) ==> final(self).tmp_in_use == old(self).tmp_in_use,
            // a result left in the accumulator claims it: whatever is evaluated next must not overwrite it
            (res is Ok && res->Ok_0 is A) ==> final(self).acc_in_use, //@ C01,C15:call-result-claims-the-accumulator
            (res is Ok && !(res->Ok_0 is A)) ==> final(self).acc_in_use == old(self).acc_in_use,
            res is Ok ==> final(self).flags == FlagsState::Unknown, //@ C01,C14:call-forgets-flags-whole
"""


def candidates(f):
    """calls in the middle of expressions: the accumulator and the scratch byte are live across the call"""
    out = []
    def prog(decl, body, sim, note=""):
        out.append({"source": "%s\nvoid main() { %s }\n" % (decl, body), "args": ["-O0"], "expect": {"panic": False}, "simulate": dict(sim, stack_empty=True), "note": note})
    d = "unsigned char b, c, x, n; unsigned char f() { n = (b + 1) + (c + 1); return n; } void g() { n = (b + 1) + (c + 1); }"
    for b, c in ((1, 2), (200, 100)):
        s = (b + c + 2) & 255
        prog(d, "x = (b + 1) + f();", {"init": {"b": b, "c": c}, "expect": {"x": (b + 1 + s) & 255, "n": s}}, "accumulator live across a call with a value, b=%d c=%d" % (b, c))
        prog(d, "x = f() + (b + 1);", {"init": {"b": b, "c": c}, "expect": {"x": (b + 1 + s) & 255, "n": s}}, "call first, b=%d c=%d" % (b, c))
        prog(d, "x = f();", {"init": {"b": b, "c": c}, "expect": {"x": s, "n": s}}, "plain call, b=%d c=%d" % (b, c))
        prog(d, "x = f() - (c + 1);", {"init": {"b": b, "c": c}, "expect": {"x": (s - c - 1) & 255, "n": s}}, "call first, not commutative, b=%d c=%d" % (b, c))
        prog(d, "x = (b + 1, g(), c);", {"init": {"b": b, "c": c}, "expect": {"x": c, "n": s}}, "void call in a comma expression, b=%d c=%d" % (b, c))
    k = "unsigned char x, k; unsigned char f() { k++; return k; }"
    prog(k, "k = 0; x = f() + f();", {"expect": {"x": 3, "k": 2}}, "two calls, different results")
    prog(k, "k = 0; x = f() - f();", {"expect": {"x": 255, "k": 2}}, "two calls, not commutative")
    return out


def build(repo):
    u = Unit(NAME, TOOL, PROPS, ["src/generate/generate_statements.rs: GeneratorState::generate_function_call (whole; the parameter-loading block and the call-emission / call-tree block are stubs, R8)"],
             assumptions=["the two inner blocks are stubs (TRUSTED): parameter loading is a sequence of generate_expr assignments, the call block is U-call's subject",
                          "values are symbolic: what the callee computes is arbitrary; that the callee's own code leaves the stack balanced is the same contract one level down, not composed here"])
    gs = SourceFile(repo, "src/generate/generate_statements.rs")
    gm = SourceFile(repo, "src/generate/mod.rs")
    comp = SourceFile(repo, "src/compile.rs")
    asmf = SourceFile(repo, "src/assemble.rs")
    f = gs.fn("generate_function_call", within="GeneratorState")
    cuts, tys = [f], []
    for sf, kind, name, structural in ((comp, "enum", "Operation", True), (asmf, "enum", "AsmMnemonic", True), (comp, "enum", "VariableType", True), (gm, "enum", "ExprType", False),
                                       (gm, "enum", "FlagsState", False), (comp, "enum", "Expr", False)):
        c = sf.item(kind, name)
        common.r2(c, structural=structural)
        c.sub(r"pub\(crate\) enum", "pub enum", "R2-pub")
        if not structural:
            c.sub(r"#\[derive\(([^)]*)\)\]", "", "R2-derive (no derived impls needed)", expect=(0, 1))
        cuts.append(c)
        tys.append(c.text)
    fc = comp.item("struct", "Function")
    cuts.append(fc)
    fields = re.findall(r"^\s*(?:pub(?:\([^)]*\))?\s+)?(\w+)\s*:\s*(bool|u8|u16|u32|u64|usize|i8|i16|i32|i64|isize|Option<VariableType>)\s*,", fc.text, re.M)
    names = [a for a, _ in fields]
    if "return_signed" not in names or "return_type" not in names:
        raise Undecided("struct Function no longer declares return_signed: bool / return_type: Option<VariableType>")
    fshim = "pub struct Function { %s }" % ", ".join("pub %s: %s" % x for x in fields)
    # ---- the two inner blocks become stub calls (R8)
    mk = mask(f.text)
    m1 = re.search(r"^[ \t]*// Load parameters[ \t]*\n[ \t]*\{", f.text, re.M)
    if not m1:
        raise Undecided("generate_function_call(): block `// Load parameters {` not found")
    ob = m1.end() - 1
    cb = match_brace(mk, ob)
    f.text = f.text[:m1.start()] + "                                self.load_parameters_block(var, f, params, pos)?;      // R8: block 'Load parameters' -> stub\n" + f.text[cb + 1:]
    f.log.append("R8 block `// Load parameters { .. }` -> self.load_parameters_block(var, f, params, pos)?")
    mk = mask(f.text)
    m2 = re.search(r"^[ \t]*if f\.interrupt \{", mk, re.M)
    m3 = re.search(r"^[ \t]*self\.flags = FlagsState::Unknown;", mk, re.M)
    if not m2 or not m3 or m3.start() < m2.start():
        raise Undecided("generate_function_call(): the block from `if f.interrupt {` to `self.flags = FlagsState::Unknown;` not found")
    blk = f.text[m2.start():m3.start()]
    if "functions_call_tree" not in blk or "JSR" not in blk:
        raise Undecided("generate_function_call(): the block between the interrupt check and the flags reset no longer holds the call emission and the call-tree recording")
    if re.search(r"\b(PHA|PLA)\b|ExprType::Tmp", mask(blk)):
        raise Undecided("generate_function_call(): the call block itself touches the stack or the scratch byte: outside the stub's contract")
    f.text = f.text[:m2.start()] + "                                self.call_block(var, f, pos)?;      // R8: interrupt check .. call emission .. call-tree recording -> stub (U-call)\n" + f.text[m3.start():]
    f.log.append("R8 block `if f.interrupt { .. } .. call-tree recording` -> self.call_block(var, f, pos)? (U-call)")
    f.sub(r"^[ \t]*let fixed_bank = if [^;]*;\n", "", "R8 `fixed_bank` (read by the call block only) dropped with it", expect=(0, 1))
    f.sub(r"^\s*debug!\([^;]*\);\n", "", "R1 debug! logging dropped", expect=(0, 4))
    f.sub(r"\bsub\.as_ref\(\)", "&**sub", "R3 Box::as_ref -> explicit deref", expect=(0, 1))
    f.set_header(HEADER, expect_sig="fn generate_function_call( &mut self, expr: &Expr, params: &Expr, pos: usize, ) -> Result<ExprType, Error>")
    f.body_start("        proof { axiom_string_key_model(); }")
    text = common.PRELUDE + common.header_comment(NAME, cuts) + "verus! {\n" + (SPECS % {"types": "\n".join(tys), "function_shim": fshim}) + \
        "impl<'a> GeneratorState<'a> {\n" + STUBS + f.text + "\n}\n" + common.CANARY + "\n} // verus!\n"
    u.text[None] = text
    u.rewrites = common.collect_rewrites(cuts)
    u.dropped = ["R6 shim environment", "the parameter-loading block and the call block (stubs)", "debug! logging (R1)"]
    return u
