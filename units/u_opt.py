"""U-opt: the two decision blocks of AssemblyCode::optimize, cut by anchors (R8): the pair rules and the register-knowledge
transfer (C02, C18)."""
import re
from vf.core import Unit
from vf.rustcut import SourceFile, Undecided, Cut, match_brace
from . import common

NAME = "U-opt"
TOOL = "verus"
PROPS = ["C02", "C18", "C14", "C16", "C17", "C15"]
RLIMIT = 200
TRUSTED = ["verus 0.2026.09.13 + z3", "A-isa: register / memory / flag write sets of the 45 mnemonics (MOS datasheet), written as spec functions in this unit",
           "A-vstd (String ==, clone, Option)"]

SPECS = """
// ---- R15 shims: string predicates without vstd specifications; bodies are the original calls ---------------------------
pub open spec fn sw_hash(s: Seq<char>) -> bool { s.len() > 0 && s[0] == '#' }
pub open spec fn ew_idx(s: Seq<char>, r: char) -> bool { s.len() >= 2 && s[s.len() - 2] == ',' && s[s.len() - 1] == r }
#[verifier::external_body] pub fn starts_with_hash(s: &String) -> (r: bool) ensures r == sw_hash(s@) { s.starts_with('#') }
#[verifier::external_body] pub fn ends_with_x(s: &String) -> (r: bool) ensures r == ew_idx(s@, 'X') { s.ends_with(",X") }
#[verifier::external_body] pub fn ends_with_y(s: &String) -> (r: bool) ensures r == ew_idx(s@, 'Y') { s.ends_with(",Y") }
#[verifier::external_body] pub fn is_imm0(s: &String) -> (r: bool) ensures r == (s@ == "#0"@) { s == "#0" }
#[verifier::external_body] pub fn is_with_suffix(a: &String, b: &String, lit: &str) -> (r: bool) ensures r == (a@ == b@ + lit@) { a.strip_suffix(lit) == Some(b.as_str()) }
// an immediate operand text that is a number (`#` followed by the digits of an i32): what str::parse::<i32> accepts of the text after `#`
pub uninterp spec fn numeric_imm(s: Seq<char>) -> bool;
#[verifier::external_body] pub fn imm_is_number(s: &String) -> (r: bool) ensures r == numeric_imm(s@) { s.len() > 1 && s[1..].parse::<i32>().is_ok() }
// the multipeek look-ahead: arbitrary lines (sound over-approximation of iter.peek())
pub struct Peek { pub k: u8 }
impl Peek { #[verifier::external_body] pub fn peek(&mut self) -> (r: Option<&AsmLine>) { unimplemented!() } }

// ---- vocabulary ---------------------------------------------------------------------------------------------------------
pub open spec fn ins(l: Option<&AsmLine>) -> AsmInstruction { l->Some_0->Instruction_0 }
pub open spec fn is_ins(l: Option<&AsmLine>) -> bool { l is Some && l->Some_0 is Instruction }
pub open spec fn mm(l: Option<&AsmLine>, a: AsmMnemonic) -> bool { ins(l).mnemonic == a }
pub open spec fn same_op(a: Option<&AsmLine>, b: Option<&AsmLine>) -> bool { ins(a).dasm_operand@ == ins(b).dasm_operand@ }
pub open spec fn known(k: Option<String>, t: Seq<char>) -> bool { k is Some && k->Some_0@ == t }

// ---- oracle for the pair rules: when dropping an instruction of an adjacent pair is invisible (A-isa) ------------------------
// second instruction redundant given the first
pub open spec fn rm2_sound(a: Option<&AsmLine>, b: Option<&AsmLine>, flags: FlagsState) -> bool {
    use_all_mnemonics() && (
       (mm(a, AsmMnemonic::JMP) && mm(b, AsmMnemonic::JMP))                                   // unreachable second jump
    || (mm(a, AsmMnemonic::STA) && mm(b, AsmMnemonic::LDA) && same_op(a, b) && flags == FlagsState::A)  // A already holds the stored cell, and N/Z already describe A (the load sets them)
    || (mm(a, AsmMnemonic::LDA) && mm(b, AsmMnemonic::STA) && same_op(a, b))                    // the cell already holds A
    || (mm(a, AsmMnemonic::LDY) && mm(b, AsmMnemonic::STY) && same_op(a, b))
    || (mm(a, AsmMnemonic::LDX) && mm(b, AsmMnemonic::STX) && same_op(a, b))
    || (mm(a, AsmMnemonic::TAX) && mm(b, AsmMnemonic::TXA)) || (mm(a, AsmMnemonic::TXA) && mm(b, AsmMnemonic::TAX))
    || (mm(a, AsmMnemonic::TAY) && mm(b, AsmMnemonic::TYA)) || (mm(a, AsmMnemonic::TYA) && mm(b, AsmMnemonic::TAY))
    || (mm(b, AsmMnemonic::ORA) && ins(b).dasm_operand@ == "#0"@))                              // A | 0 == A
}
pub open spec fn use_all_mnemonics() -> bool { true }
// first instruction dead: its only effect (the register) is overwritten by the second
pub open spec fn rm1_sound(a: Option<&AsmLine>, b: Option<&AsmLine>) -> bool {
    (mm(a, AsmMnemonic::LDA) && mm(b, AsmMnemonic::LDA)) || (mm(a, AsmMnemonic::LDX) && mm(b, AsmMnemonic::LDX)) || (mm(a, AsmMnemonic::LDY) && mm(b, AsmMnemonic::LDY))
}
// compare of a register known to hold an immediate with an immediate, followed by a branch that is then never taken
pub open spec fn cmp_fold(k: Option<String>, cmp: AsmMnemonic, a: Option<&AsmLine>, b: Option<&AsmLine>) -> bool {
    k is Some && sw_hash(k->Some_0@) && mm(a, cmp) && sw_hash(ins(a).dasm_operand@)
    // equal texts are equal values; different texts are different values only between numbers (`#<sym` may be 16)
    && ((mm(b, AsmMnemonic::BNE) && k->Some_0@ == ins(a).dasm_operand@) || (mm(b, AsmMnemonic::BEQ) && k->Some_0@ != ins(a).dasm_operand@ && numeric_imm(k->Some_0@) && numeric_imm(ins(a).dasm_operand@)))
}
pub open spec fn both_sound(a: Option<&AsmLine>, b: Option<&AsmLine>, acc: Option<String>, x: Option<String>, y: Option<String>) -> bool {
    (mm(a, AsmMnemonic::PLA) && mm(b, AsmMnemonic::PHA))
    || cmp_fold(acc, AsmMnemonic::CMP, a, b) || cmp_fold(x, AsmMnemonic::CPX, a, b) || cmp_fold(y, AsmMnemonic::CPY, a, b)
}
// a piece of knowledge k (operand text a register is believed to hold) survives instruction i: i changes neither an index register the text depends on
// nor the memory cell it names (a store of the same register to that cell, `same_store`, keeps it true)
pub open spec fn keeps(i: Option<&AsmLine>, k: Option<String>, same_store: AsmMnemonic) -> bool {
    k is Some ==> (!(writes_x(ins(i).mnemonic) && ew_idx(k->Some_0@, 'X')) && !(writes_y(ins(i).mnemonic) && ew_idx(k->Some_0@, 'Y'))
                   && !(writes_mem(ins(i).mnemonic, ins(i).dasm_operand@) && ins(i).mnemonic != same_store && k->Some_0@ == ins(i).dasm_operand@))
}
pub open spec fn is_store(m: AsmMnemonic) -> bool { m == AsmMnemonic::STA || m == AsmMnemonic::STX || m == AsmMnemonic::STY }
pub open spec fn is_compare(m: AsmMnemonic) -> bool { m == AsmMnemonic::CMP || m == AsmMnemonic::CPX || m == AsmMnemonic::CPY }

// ---- oracle for the knowledge transfer: what an instruction writes (A-isa) -------------------------------------------------------
pub open spec fn shift(m: AsmMnemonic) -> bool { m == AsmMnemonic::LSR || m == AsmMnemonic::ASL || m == AsmMnemonic::ROL || m == AsmMnemonic::ROR }
pub open spec fn alu(m: AsmMnemonic) -> bool { m == AsmMnemonic::ADC || m == AsmMnemonic::SBC || m == AsmMnemonic::EOR || m == AsmMnemonic::AND || m == AsmMnemonic::ORA }
pub open spec fn calls(m: AsmMnemonic) -> bool { m == AsmMnemonic::JSR }
pub open spec fn writes_a(m: AsmMnemonic, op: Seq<char>) -> bool {
    m == AsmMnemonic::LDA || m == AsmMnemonic::TXA || m == AsmMnemonic::TYA || m == AsmMnemonic::PLA || alu(m) || (shift(m) && op.len() == 0) || calls(m)
}
pub open spec fn writes_x(m: AsmMnemonic) -> bool { m == AsmMnemonic::LDX || m == AsmMnemonic::TAX || m == AsmMnemonic::INX || m == AsmMnemonic::DEX || calls(m) }
pub open spec fn writes_y(m: AsmMnemonic) -> bool { m == AsmMnemonic::LDY || m == AsmMnemonic::TAY || m == AsmMnemonic::INY || m == AsmMnemonic::DEY || calls(m) }
// memory cell named by the operand is written
pub open spec fn writes_mem(m: AsmMnemonic, op: Seq<char>) -> bool {
    m == AsmMnemonic::STA || m == AsmMnemonic::STX || m == AsmMnemonic::STY || m == AsmMnemonic::INC || m == AsmMnemonic::DEC || (shift(m) && op.len() > 0)
}
// N/Z afterwards describe the accumulator's value
pub open spec fn nz_is_a(m: AsmMnemonic, op: Seq<char>) -> bool {
    m == AsmMnemonic::LDA || m == AsmMnemonic::TXA || m == AsmMnemonic::TYA || m == AsmMnemonic::PLA || alu(m) || (shift(m) && op.len() == 0)
}
// N/Z unchanged (or still describing the same value: TAX/TAY copy A)
pub open spec fn nz_kept(m: AsmMnemonic) -> bool {
    m == AsmMnemonic::STA || m == AsmMnemonic::STX || m == AsmMnemonic::STY || m == AsmMnemonic::PHA || m == AsmMnemonic::PHP || m == AsmMnemonic::NOP
    || m == AsmMnemonic::CLC || m == AsmMnemonic::SEC || m == AsmMnemonic::JMP || m == AsmMnemonic::RTS || m == AsmMnemonic::RTI
    || m == AsmMnemonic::BCC || m == AsmMnemonic::BCS || m == AsmMnemonic::BEQ || m == AsmMnemonic::BMI || m == AsmMnemonic::BNE || m == AsmMnemonic::BPL
    || m == AsmMnemonic::TAX || m == AsmMnemonic::TAY
}
// N/Z afterwards describe X (resp. Y): loads, transfers into the register, and its own increments / decrements
pub open spec fn nz_is_x(m: AsmMnemonic) -> bool { m == AsmMnemonic::LDX || m == AsmMnemonic::TAX || m == AsmMnemonic::INX || m == AsmMnemonic::DEX }
pub open spec fn nz_is_y(m: AsmMnemonic) -> bool { m == AsmMnemonic::LDY || m == AsmMnemonic::TAY || m == AsmMnemonic::INY || m == AsmMnemonic::DEY }
// N/Z unchanged (no transfer: TAY / TYA make them describe Y, TAX / TXA describe X)
pub open spec fn nz_untouched(m: AsmMnemonic) -> bool {
    m == AsmMnemonic::STA || m == AsmMnemonic::STX || m == AsmMnemonic::STY || m == AsmMnemonic::PHA || m == AsmMnemonic::PHP || m == AsmMnemonic::NOP
    || m == AsmMnemonic::CLC || m == AsmMnemonic::SEC || m == AsmMnemonic::JMP || m == AsmMnemonic::RTS || m == AsmMnemonic::RTI
    || m == AsmMnemonic::BCC || m == AsmMnemonic::BCS || m == AsmMnemonic::BEQ || m == AsmMnemonic::BMI || m == AsmMnemonic::BNE || m == AsmMnemonic::BPL
}
"""


def r15(c):
    c.sub(r"\bflags == FlagsState::(A|X|Y|Unknown)\b", r"(match &flags { FlagsState::\1 => true, _ => false })", "R3 derived == on an enum with String-carrying variants -> match on the unit variant", expect=(0, 8))
    common.r27_is_some_and(c)
    common.r24_inline_closures(c)
    c.sub(r"(\w+(?:\.\w+)*)\.starts_with\(\"#\"\)", r"starts_with_hash(&\1)", "R15 starts_with(\"#\")")
    c.sub(r"(\w+(?:\.\w+)*)\.starts_with\('#'\)", r"starts_with_hash(&\1)", "R15 starts_with('#')")
    c.sub(r"(\w+(?:\.\w+)*)\.ends_with\(\",X\"\)", r"ends_with_x(&\1)", "R15 ends_with(\",X\")")
    c.sub(r"(\w+(?:\.\w+)*)\.ends_with\(\",Y\"\)", r"ends_with_y(&\1)", "R15 ends_with(\",Y\")")
    c.sub(r"(\w+(?:\.\w+)*) == \"#0\"", r"is_imm0(&\1)", "R15 == \"#0\"")
    c.sub(r"\b(\w+)\.eq\(&(\w+(?:\.\w+)*)\)", r"(*\1 == \2)", "R15 a.eq(&b) -> *a == b")
    c.sub(r"(\w+(?:\.\w+)*)\.strip_suffix\((\"[^\"]*\")\) == Some\((\w+(?:\.\w+)*)\.as_str\(\)\)", r"is_with_suffix(&\1, &\3, \2)", "R15 a.strip_suffix(lit) == Some(b.as_str()) -> a == b + lit", expect=(0, 4))
    c.sub(r"\*?\b(\w+(?:\.\w+)*)\[1\.\.\]\.parse::<i32>\(\)\.is_ok\(\)", r"imm_is_number(&\1)", "R15 s[1..].parse::<i32>().is_ok() -> shim (the text after `#` is a number)", expect=(0, 8))
    common.r15_contains_lit(c)
    c.sub(r"starts_with_hash\(&(r|v)\)", r"starts_with_hash(\1)", "R15 (already a reference)")
    c.sub(r"ends_with_([xy])\(&(r|v)\)", r"ends_with_\1(\2)", "R15 (already a reference)")


def build(repo):
    u = Unit(NAME, TOOL, PROPS,
             ["src/assemble.rs: AssemblyCode::optimize -- block 'Analyze pairs of instructions' (R8)", "src/assemble.rs: AssemblyCode::optimize -- block 'Analyze the second instruction to check for a load' (R8)",
              "src/assemble.rs: AssemblyCode::optimize -- resynchronisation after remove_both (R8)"],
             assumptions=["A-isa write sets and the list of sound adjacent-pair eliminations are the oracle (spec functions of this unit)",
                          "A-noalias (read-modify-write instructions only; NOT assumed for STA/STX/STY, which must forget every memory-derived belief: split-port RAM names one cell by two texts): distinct operand texts denote distinct cells; A-immtext: equal immediates have equal text",
                          "loop invariant of optimize() assumed as precondition: `first` is an Instruction and `second` the next Instruction (established by code outside the two blocks)",
                          "that a removed flag-setting load is invisible IN CONTEXT (whether N/Z are consumed later), the multipeek look-ahead (modelled as arbitrary lines), the Dummy/iterator plumbing, the JMP-to-next-label rule and termination equivalence are NOT decided",
                          "protected compare instructions (CMP/CPX/CPY) may be removed by the compare-folding rule: outside C18's statement list",
                          "the flags belief is required to be true only while the accumulator is known (it is consumed only then); PLP is excluded (never emitted)",
                          "xfer-jump-forgets is demanded only while the JMP-to-next-label rule (scanned textually) does not itself reset the three registers; that a JMP passes through block B as `second` before it can be `first` of that rule is the loop structure, not verified"])
    f, types, cuts = common.asm_types(repo)
    gm = SourceFile(repo, "src/generate/mod.rs")
    fl = gm.item("enum", "FlagsState")
    common.r2(fl, structural=False)
    fl.sub(r"pub\(crate\) enum", "pub enum", "R2-pub")
    fl.sub(r"#\[derive\(([^)]*)\)\]", "#[derive(PartialEq, Clone)]", "R2-derive")
    cuts.append(fl)
    s0, ob0, cb0 = f.find_fn_span("optimize")
    a = f.block(r"^\s*// Analyze pairs of instructions", r"^\s*if !remove_second && !remove_both \{", s0, cb0, desc="optimize(): block 'Analyze pairs of instructions' (R8)")
    b = f.block(r"^\s*if !remove_second && !remove_both \{", r"^\s*if swap_both \{", s0, cb0, desc="optimize(): block 'Analyze the second instruction to check for a load' (R8)")
    cuts += [a, b]
    r15(a)
    r15(b)
    # block C: resynchronisation after `remove_both`: from the end of the loop that skips to the next instruction up to `second = iter.next();`
    rb = re.search(r"\} else if remove_both \{", f.masked[s0:cb0])
    if not rb:
        raise Undecided("optimize(): `else if remove_both {` not found")
    rb0 = s0 + rb.end() - 1
    rb1 = match_brace(f.masked, rb0, "{", "}")
    lp = re.search(r"\bloop \{", f.masked[rb0:rb1])
    if not lp:
        raise Undecided("optimize(): the skip loop of the remove_both branch was not found")
    lp0 = rb0 + lp.end() - 1
    lp1 = match_brace(f.masked, lp0, "{", "}")
    tail = re.search(r"second = iter\.next\(\);", f.masked[lp1:rb1])
    if not tail:
        raise Undecided("optimize(): `second = iter.next();` not found at the end of the remove_both branch")
    nl = f.text.index("\n", lp1) + 1
    c = f.cut_span(nl, lp1 + tail.start(), "optimize(): resynchronisation after remove_both (between the skip loop and `second = iter.next();`, R8)")
    # what the skip loop itself does to the knowledge (a reset inside it is path dependent and not taken into account: the block must be sound on its own)
    cuts.append(c)
    r15(c)
    # The JMP-to-next-label rule removes the JMP and steps over the label WITHOUT the knowledge reset every other label crossing performs: what is
    # known after a JMP therefore reaches a join point.  Unless the rule's own block resets the three registers, block B must forget them at JMP.
    j = f.block(r"^\s*// Remove JMP to the following label", r"^\s*// Make sure second points also to an instruction", s0, cb0, desc="optimize(): 'Remove JMP to the following label' (scanned only)")
    rule_resets = all(re.search(r"\b%s\s*=\s*None\s*;" % r, j.text) for r in ("accumulator", "x_register", "y_register"))
    if rule_resets:
        jmp_clause = ""
    else:
        jmp_clause = "        ((!remove_second && !remove_both) && ins(second).mnemonic == AsmMnemonic::JMP ==> r.0 is None && r.1 is None && r.2 is None), //@ C02,C14:xfer-jump-forgets\n"
    b.sub(r"\biter\.peek\(\)", "iter.peek()", "R8 iter is the look-ahead shim")
    pair = """
// R8: block A of optimize(), verbatim; free variables became parameters / results
pub fn pair_rules(first: Option<&AsmLine>, second: Option<&AsmLine>, accumulator: Option<String>, x_register: Option<String>, y_register: Option<String>, flags: FlagsState) -> (r: (bool, bool, bool, bool))
    requires is_ins(first), is_ins(second),
    ensures
        // r = (remove_both, remove_first, remove_second, swap_both)
        r.2 ==> !ins(second).protected, //@ C18,C02:opt-rm2-unprotected
        r.1 ==> !ins(first).protected, //@ C18,C02:opt-rm1-unprotected
        r.0 ==> !ins(second).protected && (!ins(first).protected || is_compare(ins(first).mnemonic)), //@ C18,C02:opt-both-unprotected
        r.2 ==> rm2_sound(first, second, flags), //@ C02,C17:opt-rm2-sound
        r.1 ==> rm1_sound(first, second), //@ C02,C17:opt-rm1-sound
        r.0 ==> both_sound(first, second, accumulator, x_register, y_register), //@ C02:opt-both-sound
        r.3 ==> mm(first, AsmMnemonic::LDA) && (mm(second, AsmMnemonic::SEC) || mm(second, AsmMnemonic::CLC)), //@ C02,C18:opt-swap-only-lda-carry
{
    proof { reveal_strlit("#0"); }
    let mut remove_both = false;
    let mut remove_first = false;
    let mut remove_second = false;
    let mut swap_both = false;
%s
    (remove_both, remove_first, remove_second, swap_both)
}
""" % a.text
    xfer = """
// R8: block B of optimize(), verbatim
pub fn knowledge_transfer(second: Option<&AsmLine>, iter: &mut Peek, accumulator: Option<String>, x_register: Option<String>, y_register: Option<String>, flags: FlagsState,
                          remove_second: bool, remove_both: bool) -> (r: (Option<String>, Option<String>, Option<String>, FlagsState, bool))
    requires is_ins(second),
        ins(second).mnemonic != AsmMnemonic::PLP,      // PLP is never emitted by the generator (only inside a commented-out block of generate_sign_extend)
    ensures
        ((remove_second || remove_both) ==> r.0 == accumulator && r.1 == x_register && r.2 == y_register && r.3 == flags && r.4 == remove_second), //@ C02:xfer-skipped-unchanged
        ((!remove_second && !remove_both) && writes_a(ins(second).mnemonic, ins(second).dasm_operand@) ==> r.0 is None || (ins(second).mnemonic == AsmMnemonic::LDA && known(r.0, ins(second).dasm_operand@)) || (ins(second).mnemonic == AsmMnemonic::TXA && r.0 == x_register) || (ins(second).mnemonic == AsmMnemonic::TYA && r.0 == y_register)), //@ C02:xfer-a-written
        ((!remove_second && !remove_both) && writes_x(ins(second).mnemonic) ==> r.1 is None || (ins(second).mnemonic == AsmMnemonic::LDX && known(r.1, ins(second).dasm_operand@)) || (ins(second).mnemonic == AsmMnemonic::TAX && r.1 == accumulator)), //@ C02:xfer-x-written
        ((!remove_second && !remove_both) && writes_y(ins(second).mnemonic) ==> r.2 is None || (ins(second).mnemonic == AsmMnemonic::LDY && known(r.2, ins(second).dasm_operand@)) || (ins(second).mnemonic == AsmMnemonic::TAY && r.2 == accumulator)), //@ C02:xfer-y-written
        ((!remove_second && !remove_both) && !writes_a(ins(second).mnemonic, ins(second).dasm_operand@) ==> r.0 is None || r.0 == accumulator), //@ C02:xfer-a-kept
        ((!remove_second && !remove_both) && !writes_x(ins(second).mnemonic) ==> r.1 is None || r.1 == x_register), //@ C02:xfer-x-kept
        ((!remove_second && !remove_both) && !writes_y(ins(second).mnemonic) ==> r.2 is None || r.2 == y_register), //@ C02:xfer-y-kept
        ((!remove_second && !remove_both) && writes_x(ins(second).mnemonic) ==> !(r.0 is Some && ew_idx(r.0->Some_0@, 'X')) && !(r.2 is Some && ew_idx(r.2->Some_0@, 'X'))), //@ C02:xfer-x-index-stale
        ((!remove_second && !remove_both) && writes_y(ins(second).mnemonic) ==> !(r.0 is Some && ew_idx(r.0->Some_0@, 'Y')) && !(r.1 is Some && ew_idx(r.1->Some_0@, 'Y'))), //@ C02:xfer-y-index-stale
        ((!remove_second && !remove_both) && writes_mem(ins(second).mnemonic, ins(second).dasm_operand@) && !sw_hash(ins(second).dasm_operand@) ==> (ins(second).mnemonic == AsmMnemonic::STA || !known(r.0, ins(second).dasm_operand@)) && (ins(second).mnemonic == AsmMnemonic::STX || !known(r.1, ins(second).dasm_operand@)) && (ins(second).mnemonic == AsmMnemonic::STY || !known(r.2, ins(second).dasm_operand@))), //@ C02:xfer-mem-written
        // a store: no register is believed any more to hold the content of a memory cell -- two operand texts may name the same cell (the read and the
        // write port of split-port cartridge RAM, `arr+1` and `arr,X`) -- except the cell just written, by the register that was stored
        ((!remove_second && !remove_both) && is_store(ins(second).mnemonic) ==>
            (r.0 is None || sw_hash(r.0->Some_0@) || (ins(second).mnemonic == AsmMnemonic::STA && known(r.0, ins(second).dasm_operand@)))
            && (r.1 is None || sw_hash(r.1->Some_0@) || (ins(second).mnemonic == AsmMnemonic::STX && known(r.1, ins(second).dasm_operand@)))
            && (r.2 is None || sw_hash(r.2->Some_0@) || (ins(second).mnemonic == AsmMnemonic::STY && known(r.2, ins(second).dasm_operand@)))), //@ C02,C17:xfer-store-forgets-aliases
        // INC / DEC / a shift of memory: like a store, under any operand text (`a+1` and `a,X` may be one cell)
        ((!remove_second && !remove_both) && writes_mem(ins(second).mnemonic, ins(second).dasm_operand@) && !is_store(ins(second).mnemonic) ==>
            (r.0 is None || sw_hash(r.0->Some_0@)) && (r.1 is None || sw_hash(r.1->Some_0@)) && (r.2 is None || sw_hash(r.2->Some_0@))), //@ C02:xfer-memory-write-forgets-aliases
        ((!remove_second && !remove_both) && !r.4 && r.3 == FlagsState::A ==> nz_is_a(ins(second).mnemonic, ins(second).dasm_operand@) || (flags == FlagsState::A && nz_kept(ins(second).mnemonic))), //@ C02:xfer-flags-a
        // the same for X and Y: TXA keeps a belief about X true (N/Z of the value copied), TYA / PLA / ADC ... do not
        ((!remove_second && !remove_both) && !r.4 && r.3 == FlagsState::X && r.1 is Some ==> nz_is_x(ins(second).mnemonic) || (flags == FlagsState::X && (nz_untouched(ins(second).mnemonic) || ins(second).mnemonic == AsmMnemonic::TXA))), //@ C02:xfer-flags-x
        ((!remove_second && !remove_both) && !r.4 && r.3 == FlagsState::Y && r.2 is Some ==> nz_is_y(ins(second).mnemonic) || (flags == FlagsState::Y && (nz_untouched(ins(second).mnemonic) || ins(second).mnemonic == AsmMnemonic::TYA))), //@ C02:xfer-flags-y
%(jmp_clause)s        // a load also sets N and Z: dropping a reload of X / Y is invisible only if the flags already describe that register
        ((!remove_second && !remove_both) && r.4 && ins(second).mnemonic == AsmMnemonic::LDX ==> flags == FlagsState::X), //@ C02:xfer-reload-x-keeps-flags
        ((!remove_second && !remove_both) && r.4 && ins(second).mnemonic == AsmMnemonic::LDY ==> flags == FlagsState::Y), //@ C02:xfer-reload-y-keeps-flags
        ((!remove_second && !remove_both) && r.4 ==> !ins(second).protected), //@ C18,C02:xfer-reload-unprotected
        // a reload that is dropped does not execute: the belief about N/Z afterwards is one that was held before it (or none)
        ((!remove_second && !remove_both) && r.4 ==> r.3 == flags || r.3 is Unknown), //@ C02:xfer-dropped-reload-sets-no-flag
        ((!remove_second && !remove_both) && r.4 ==> ((ins(second).mnemonic == AsmMnemonic::LDA && known(accumulator, ins(second).dasm_operand@)) || (ins(second).mnemonic == AsmMnemonic::LDX && known(x_register, ins(second).dasm_operand@)) || (ins(second).mnemonic == AsmMnemonic::LDY && known(y_register, ins(second).dasm_operand@)))), //@ C02:xfer-reload-redundant
{
    let mut accumulator = accumulator;
    let mut x_register = x_register;
    let mut y_register = y_register;
    let mut flags = flags;
    let mut remove_second = remove_second;
%(blk)s
    (accumulator, x_register, y_register, flags, remove_second)
}
""" % {"blk": b.text, "jmp_clause": jmp_clause}
    resync = """
// R8: block C of optimize(), verbatim: after both instructions of a pair were removed, `first` is the next instruction of the flow.  It has NOT been
// through block B, so whatever is kept of the knowledge must already account for what `first` does (A-isa), exactly as block B would.
pub fn resync_after_remove_both(first: Option<&AsmLine>, accumulator: Option<String>, x_register: Option<String>, y_register: Option<String>, flags: FlagsState) -> (r: (Option<String>, Option<String>, Option<String>, FlagsState))
    requires is_ins(first),
    ensures
        r.0 is None || (mm(first, AsmMnemonic::LDA) && known(r.0, ins(first).dasm_operand@)) || (r.0 == accumulator && keeps(first, r.0, AsmMnemonic::STA) && !writes_a(ins(first).mnemonic, ins(first).dasm_operand@)), //@ C02:resync-a-sound
        r.1 is None || (mm(first, AsmMnemonic::LDX) && known(r.1, ins(first).dasm_operand@)) || (r.1 == x_register && keeps(first, r.1, AsmMnemonic::STX) && !writes_x(ins(first).mnemonic)), //@ C02:resync-x-sound
        r.2 is None || (mm(first, AsmMnemonic::LDY) && known(r.2, ins(first).dasm_operand@)) || (r.2 == y_register && keeps(first, r.2, AsmMnemonic::STY) && !writes_y(ins(first).mnemonic)), //@ C02:resync-y-sound
        // the two removed instructions may be the ones the flags were believed to come from: afterwards the belief comes from `first` alone
        r.3 == FlagsState::Unknown || (r.3 == FlagsState::A && mm(first, AsmMnemonic::LDA)) || (r.3 == FlagsState::X && mm(first, AsmMnemonic::LDX)) || (r.3 == FlagsState::Y && mm(first, AsmMnemonic::LDY)), //@ C02:resync-flags-from-first-alone
{
    let mut flags = flags;
    let mut accumulator = accumulator;
    let mut x_register = x_register;
    let mut y_register = y_register;
%s
    (accumulator, x_register, y_register, flags)
}
""" % c.text
    text = common.PRELUDE + common.header_comment(NAME, cuts) + "verus! {\n" + types + fl.text + "\n" + SPECS + common.STR_CONTAINS_SHIM + pair + xfer + resync + common.CANARY + "\n} // verus!\n"
    u.text[None] = text
    u.optional = ["O-C02-xfer-jump-forgets"]      # demanded only while the JMP-to-next-label rule does not reset the registers itself
    u.rewrites = common.collect_rewrites(cuts)
    u.dropped = ["everything of optimize() outside the two blocks: the multipeek iterator and `first`/`second` advancing, the Dummy writes, the JMP-to-next-label rule, the label/`remove_both` knowledge resets",
                 "R8: `first`/`second` are Option<&mut AsmLine> in optimize(); the blocks only read them, so the parameters are Option<&AsmLine>", "R15 string predicate shims"]
    return u
