"""Shared pieces: R1/R2 rewrites, the assemble.rs data types cut from /repo, spec functions."""
import re
from vf.rustcut import SourceFile, Cut, Undecided

PRELUDE = """// GENERATED on every run from /repo's current working tree by /verif/check -- do not edit.
#![allow(unused)]
#![allow(unreachable_code, unused_mut, unused_variables, unused_assignments, dead_code, non_snake_case, unused_parens, unused_braces)]
use vstd::prelude::*;
use vstd::std_specs::iter::IteratorSpec;
// R1: logging macros evaluate nothing
macro_rules! debug { ($($t:tt)*) => {} }
macro_rules! info { ($($t:tt)*) => {} }
macro_rules! error { ($($t:tt)*) => {} }
macro_rules! warn { ($($t:tt)*) => {} }
"""

CANARY = """
// vacuity guard: this obligation is false and MUST be reported as failed on every run
proof fn __canary() { assert(false); //@ C00:canary
}
"""


def _derive(m, structural):
    items = [y.strip() for y in m.group(1).split(",")]
    items = [x for x in items if x and x != "Debug"]
    if structural and "PartialEq" in items and "Eq" not in items:
        items += ["Eq", "Structural"]
    return "#[derive(%s)]" % ", ".join(items)


def r2(cut, structural=False):
    """R2: drop Debug from derives; make items and fields pub.  structural=True (plain-data enums
    only): a derived PartialEq is declared to be structural equality (`Eq, Structural` added) --
    that is what #[derive(PartialEq)] generates for such types."""
    cut.sub(r"#\[derive\(([^)]*)\)\]", lambda m: _derive(m, structural), "R2-derive" + ("+structural" if structural else ""))
    cut.sub(r"#\[derive\(\)\]\n?", "", "R2-derive-empty")
    cut.sub(r"^(\s*)(enum|struct)\b", r"\1pub \2", "R2-pub")
    return cut


def r2_fields(cut):
    """make private struct fields pub (lines `name: Type,` inside a struct body)"""
    cut.sub(r"^(\s+)(?!pub\b)([a-z_][a-z0-9_]*\s*:)", r"\1pub \2", "R2-pubfield")
    return cut


def asm_types(repo, with_code=True):
    f = SourceFile(repo, "src/assemble.rs")
    out = []
    cuts = []
    for kind, name in (("enum", "AsmMnemonic"), ("struct", "AsmInstruction"), ("enum", "AsmLine"), ("struct", "AssemblyCode")):
        c = f.item(kind, name)
        r2(c, structural=(name == "AsmMnemonic"))
        if kind == "struct":
            r2_fields(c)
        cuts.append(c)
        out.append(c.text)
    return f, "\n".join(out), cuts


SUM_SPECS = """
// ---- spec: declared byte size of a line, and of a range of lines -------------------------
pub open spec fn lb(l: AsmLine) -> nat { match l { AsmLine::Instruction(i) => i.nb_bytes as nat, AsmLine::Inline(_, s) => s as nat, _ => 0 } }
pub open spec fn sum(s: Seq<AsmLine>, lo: int, hi: int) -> nat decreases hi - lo {
    if lo >= hi { 0 } else { sum(s, lo, hi - 1) + lb(s[hi - 1]) }
}
pub proof fn sum_lo(s: Seq<AsmLine>, lo: int, hi: int)
    requires 0 <= lo < hi <= s.len()
    ensures sum(s, lo, hi) == lb(s[lo]) + sum(s, lo + 1, hi)
    decreases hi - lo
{ if lo + 1 < hi { sum_lo(s, lo, hi - 1); } else { assert(sum(s, lo, lo) == 0); assert(sum(s, lo + 1, hi) == 0); } }
pub proof fn sum_mono(s: Seq<AsmLine>, lo: int, hi: int, hi2: int)
    requires 0 <= lo <= hi <= hi2 <= s.len()
    ensures sum(s, lo, hi) <= sum(s, lo, hi2)
    decreases hi2 - hi
{ if hi < hi2 { sum_mono(s, lo, hi, hi2 - 1); } }
pub proof fn sum_mono_lo(s: Seq<AsmLine>, lo: int, lo2: int, hi: int)
    requires 0 <= lo <= lo2 <= hi <= s.len()
    ensures sum(s, lo2, hi) <= sum(s, lo, hi)
    decreases lo2 - lo
{ if lo < lo2 { sum_lo(s, lo, hi); sum_mono_lo(s, lo + 1, lo2, hi); } }
pub proof fn sum_split(s: Seq<AsmLine>, lo: int, mid: int, hi: int)
    requires 0 <= lo <= mid <= hi <= s.len()
    ensures sum(s, lo, hi) == sum(s, lo, mid) + sum(s, mid, hi)
    decreases hi - mid
{ if mid < hi { sum_split(s, lo, mid, hi - 1); } }
"""


def header_comment(unit, cuts):
    lines = ["// unit %s; real text cut from:" % unit]
    for c in cuts:
        lines.append("//   %s:%d  %s" % (c.rel, c.line0, c.desc))
        for l in c.diff_summary():
            lines.append("//       rewrite %s" % l[:200])
    return "\n".join(lines) + "\n"


def collect_rewrites(cuts):
    res = []
    for c in cuts:
        for l in c.diff_summary():
            res.append("%s:%d %s: %s" % (c.rel, c.line0, c.desc, l[:160]))
    return res


# ---- R4: format!(LIT, args…) -> generated external_body function with a derived spec -------
DEC_SPECS = """
// ---- spec: decimal rendering of integers (what `{}` prints; assumption A-fmt) ---------------
pub open spec fn digit(d: int) -> char { ((48 + d) as u8) as char }
pub open spec fn dec_nat(n: nat) -> Seq<char> decreases n {
    if n < 10 { seq![digit(n as int)] } else { dec_nat(n / 10).push(digit((n % 10) as int)) }
}
pub open spec fn dec(i: int) -> Seq<char> { if i < 0 { seq!['-'] + dec_nat((-i) as nat) } else { dec_nat(i as nat) } }
pub open spec fn is_digit(c: char) -> bool { '0' <= c <= '9' }
pub proof fn dec_nat_digits(n: nat)
    ensures dec_nat(n).len() >= 1, forall|k: int| 0 <= k < dec_nat(n).len() ==> is_digit(#[trigger] dec_nat(n)[k])
    decreases n
{ if n >= 10 { dec_nat_digits(n / 10); } }
"""


def _split_args(s):
    parts, depth, cur = [], 0, ""
    i = 0
    instr = False
    while i < len(s):
        ch = s[i]
        if instr:
            cur += ch
            if ch == "\\":
                cur += s[i + 1]; i += 1
            elif ch == '"':
                instr = False
        elif ch == '"':
            instr = True; cur += ch
        elif ch in "([{":
            depth += 1; cur += ch
        elif ch in ")]}":
            depth -= 1; cur += ch
        elif ch == "," and depth == 0:
            parts.append(cur.strip()); cur = ""
        else:
            cur += ch
        i += 1
    if cur.strip():
        parts.append(cur.strip())
    return parts


class Fmt:
    """Collects the format! call sites of a unit and emits one external_body fn per site shape."""

    def __init__(self, kinds):
        # kinds: {arg text: ("str"|"int", call expression or None)}
        self.kinds = kinds
        self.fns = {}

    def apply(self, cut, expect=None):
        from vf.rustcut import mask, match_brace
        n = 0
        while True:
            m = mask(cut.text)
            k = re.search(r"\bformat!\(", m)
            if not k:
                break
            op = k.end() - 1
            cp = match_brace(m, op, "(", ")")
            inner = cut.text[op + 1:cp]
            args = _split_args(inner)
            lit = args[0]
            if not (lit.startswith('"') and lit.endswith('"')):
                raise Undecided("%s: format! with non-literal format string: %s" % (cut.desc, inner[:60]))
            lit = lit[1:-1]
            if re.search(r"\{[^}]+\}", lit):
                raise Undecided("%s: format! with a non-`{}` placeholder (outside R4): %r" % (cut.desc, lit))
            pieces = lit.split("{}")
            if len(pieces) - 1 != len(args) - 1:
                raise Undecided("%s: format! placeholder/argument mismatch: %s" % (cut.desc, inner[:80]))
            kinds = []
            calls = []
            for a in args[1:]:
                key = re.sub(r"\s+", " ", a)
                if key not in self.kinds:
                    # an arithmetic expression over a declared integer argument is an integer
                    base = [k2 for k2, (kd2, _) in self.kinds.items() if kd2 == "int" and k2 in key]
                    if base and re.match(r"^[\w\.\(\)\s\+\-\*/]+$", key):
                        self.kinds[key] = ("int", None)
                    else:
                        raise Undecided("%s: format! argument %r has no declared kind (R4 table)" % (cut.desc, key))
                kd, call = self.kinds[key]
                kinds.append(kd)
                calls.append(call or (a if kd == "int" else "&" + a))
            name = "fmt_" + re.sub(r"\W", "", "_".join(re.sub(r"[^\w]", lambda x: "x%02x" % ord(x.group(0)), p) for p in pieces))[:50] + "_" + "".join(k[0] for k in kinds)
            if name not in self.fns:
                params, spec = [], []
                for i, p in enumerate(pieces):
                    if p:
                        spec.append('"%s"@' % p)
                    if i < len(kinds):
                        if kinds[i] == "str":
                            params.append("a%d: &String" % i)
                            spec.append("a%d@" % i)
                        else:
                            params.append("a%d: i128" % i)
                            spec.append("dec(a%d as int)" % i)
                body = 'format!("%s"%s)' % (lit, "".join(", a%d" % i for i in range(len(kinds))))
                self.fns[name] = "#[verifier::external_body]\npub fn %s(%s) -> (r: String)\n    ensures r@ == %s, // A-fmt (R4: derived mechanically from the literal %r)\n{ %s }\n" % (
                    name, ", ".join(params), " + ".join(spec) if spec else "Seq::<char>::empty()", lit, body)
            callargs = []
            for kd, c in zip(kinds, calls):
                callargs.append(("(%s) as i128" % c) if kd == "int" else c)
            cut.text = cut.text[:k.start()] + "%s(%s)" % (name, ", ".join(callargs)) + cut.text[cp + 1:]
            cut.log.append("R4 format!(%r, …) -> %s" % (lit, name))
            n += 1
        if expect is not None and not (expect[0] <= n <= expect[1]):
            raise Undecided("%s: %d format! sites, expected %s" % (cut.desc, n, expect))
        return n

    def text(self):
        return "\n".join(self.fns[k] for k in sorted(self.fns))


def plain_fields_shim(sf, name, shim_name):
    """R6 shim of a struct keeping every field of plain type (bool / integer), mechanically from the real declaration."""
    c = sf.item("struct", name)
    fields = re.findall(r"^\s*(?:pub(?:\([^)]*\))?\s+)?(\w+)\s*:\s*(bool|u8|u16|u32|u64|usize|i8|i16|i32|i64|isize)\s*,", c.text, re.M)
    if not fields:
        raise Undecided("struct %s has no plain fields" % name)
    return "pub struct %s { %s }\n" % (shim_name, ", ".join("pub %s: %s" % f for f in fields)), c


def r14_map_or(cut):
    """R14 (generic): RECV.map_or(D, |x| E) -> (match RECV { Some(x) => E, None => D }) for a receiver that is a chain of field
    accesses / calls without nested parentheses and a closure body without a block (definition of Option::map_or)."""
    pat = re.compile(r"((?:\*?self|\w+)(?:\s*\.\s*\w+(?:\([^()]*\))?)*)\s*\.\s*map_or\(\s*([^,()|]+?)\s*,\s*\|(\w+)\|\s*((?:[^(){};]|\([^(){};]*\))+?)\s*\)")
    n = 0
    while True:
        m = pat.search(cut.text)
        if not m:
            break
        cut.text = cut.text[:m.start()] + "(match %s { Some(%s) => %s, None => %s })" % (m.group(1), m.group(3), m.group(4), m.group(2)) + cut.text[m.end():]
        n += 1
    if n:
        cut.log.append("R14 x%d Option::map_or(d, |x| e) -> match" % n)
    return n


def r19_filter(cut):
    """R19 (generic): RECV.filter(|c| BODY) -> match RECV { Some(__x) => { let c = &__x; if BODY { Some(__x) } else { None } }, None => None }
    (definition of Option::filter) for a receiver chain without nested parentheses and a block-free or single-block closure body."""
    pat = re.compile(r"((?:&?\*?self|\w+)(?:\s*\.\s*\w+(?:\([^()]*\))?)*)\s*\.\s*filter\(\s*\|(\w+)\|\s*")
    n = 0
    while True:
        m = pat.search(cut.text)
        if not m:
            break
        # closure body: up to the parenthesis closing `.filter(`
        from vf.rustcut import mask, match_brace
        mk = mask(cut.text)
        op = mk.rfind("(", m.start(), m.end())
        op = cut.text.find("filter(", m.start()) + len("filter")
        cp = match_brace(mk, op, "(", ")")
        body = cut.text[m.end():cp].strip()
        if body.startswith("{") and body.endswith("}"):
            body = body[1:-1].strip()
        new = "(match %s { Some(__x) => { let %s = &__x; if %s { Some(__x) } else { None } }, None => None })" % (m.group(1), m.group(2), body)
        cut.text = cut.text[:m.start()] + new + cut.text[cp + 1:]
        n += 1
        if n > 8:
            break
    if n:
        cut.log.append("R19 x%d Option::filter(|c| p) -> match" % n)
    return n


def r27_is_some_and(cut):
    """R27 (generic): `E.as_ref().is_some_and(F)` for a path E and a named function / closure F -> `(match &E { Some(__v) => F(__v), None => false })`
    (definition of Option::is_some_and); apply before R24 so that a local closure F is then inlined."""
    n = cut.sub(r"\b((?:self\.)?\w+(?:\.\w+)*)\.as_ref\(\)\.is_some_and\((\w+)\)", r"(match &\1 { Some(__v) => \2(__v), None => false })",
                "R27 Option::as_ref().is_some_and(f) -> match", expect=(0, 12))
    # closure form: RECV.is_some_and(|v| E) for a receiver chain without nested parentheses and a block-free body
    cut.sub(r"\b((?:self\.)?\w+(?:\.\w+(?:\([^()]*\))?)*)\.is_some_and\(\|(\w+)\|\s*([^(){};]+?)\)", r"(match \1 { Some(\2) => \3, None => false })",
            "R27 Option::is_some_and(|v| e) -> match", expect=(0, 12))
    return n


def r24_inline_closures(cut):
    """R24 (generic): a local closure `let NAME = |p1[: T1], ...| BODY;` that captures nothing mutably is removed and every call `NAME(a1, ...)` is replaced by
    `({ let p1 = a1; ...; BODY })` (definition of calling a closure).  Only closures bound with `let` to a plain identifier and called by that identifier are handled."""
    from vf.rustcut import mask, match_brace
    n = 0
    while True:
        mk = mask(cut.text)
        m = re.search(r"\blet\s+(\w+)\s*=\s*\|([^|]*)\|\s*", mk)
        if not m:
            break
        name = m.group(1)
        params = [re.sub(r":.*$", "", x, flags=re.S).strip() for x in m.group(2).split(",") if x.strip()]
        b0 = m.end()
        if mk[b0] == "{":
            b1 = match_brace(mk, b0, "{", "}")
            body = cut.text[b0:b1 + 1]
            end = mk.index(";", b1) + 1
        else:
            end = mk.index(";", b0) + 1
            body = cut.text[b0:end - 1]
        cut.text = cut.text[:m.start()] + cut.text[end:]
        # calls
        k = 0
        while True:
            mk = mask(cut.text)
            c = re.search(r"(?<![\w.])%s\(" % re.escape(name), mk)
            if not c:
                break
            op = c.end() - 1
            cp = match_brace(mk, op, "(", ")")
            args = _split_args(cut.text[op + 1:cp])
            if len(args) != len(params):
                raise Undecided("%s: closure %s called with %d arguments, declared with %d" % (cut.desc, name, len(args), len(params)))
            lets = " ".join("let %s = %s;" % (pn, a) for pn, a in zip(params, args))
            cut.text = cut.text[:c.start()] + "({ %s %s })" % (lets, body) + cut.text[cp + 1:]
            k += 1
            if k > 40:
                raise Undecided("%s: closure %s: too many call sites" % (cut.desc, name))
        n += 1
        if n > 8:
            break
    if n:
        cut.log.append("R24 x%d local closure inlined at its call sites (beta-reduction)" % n)
    return n


STR_PREFIX_SHIM = """
// R15 (generic): s.starts_with("literal") on a String / &str
pub open spec fn has_prefix(s: Seq<char>, p: Seq<char>) -> bool { s.len() >= p.len() && s.subrange(0, p.len() as int) == p }
#[verifier::external_body] pub fn string_starts_with(s: &String, p: &str) -> (r: bool) ensures r == has_prefix(s@, p@) { s.starts_with(p) }
#[verifier::external_body] pub fn string_clone(s: &String) -> (r: String) ensures r@ == s@ { s.clone() }
"""

def referenced_consts(sf, cut):
    """R29 (generic): module-level `const NAME: T = EXPR;` / `static NAME: T = EXPR;` items of the same file whose name occurs in the cut are extracted with it
    (their text, verbatim).  Returns (list of cuts, list of (constant name, string literal it is initialised with))."""
    from vf.rustcut import mask
    out, lits = [], []
    names = sorted(set(re.findall(r"\b[A-Z][A-Z0-9_]{2,}\b", mask(cut.text))))
    m = mask(sf.text)
    for n in names:
        k = re.search(r"^(?:pub(?:\([^)]*\))?\s+)?(?:const|static)\s+%s\s*:[^;]*;" % re.escape(n), m, re.M)
        if not k:
            continue
        c = sf.cut_span(k.start(), k.end(), "module-level constant %s referenced by %s (R29)" % (n, cut.desc))
        c.sub(r":\s*&str\b", ": &'static str", "R29 the elided 'static of a constant's reference type written out", expect=(0, 1))
        out.append(c)
        lits += [(n, l) for l in re.findall(r'"((?:[^"\\]|\\.)*)"', c.text)]
    return out, lits


STR_FIND_SHIM = """
// R15 (generic): s.find(c) for a char c: position of the first occurrence (a byte offset; equal to the character index for an ASCII text: A-ascii-table)
#[verifier::external_body] pub fn str_find_char(s: &str, c: char) -> (r: Option<usize>)
    ensures r is Some ==> r->Some_0 < s@.len() && s@[r->Some_0 as int] == c && (forall|j: int| 0 <= j < r->Some_0 ==> s@[j] != c),
            r is None ==> !s@.contains(c),
{ s.find(c) }
"""


def r15_find_char(cut):
    return cut.sub(r"\b([A-Za-z_]\w*(?:\.\w+)*)\.find\((\w+|'(?:\\.|[^'\\])')\)", r"str_find_char(\1, \2)", "R15 str::find(char) -> shim", expect=(0, 8))


STR_CONTAINS_SHIM = """
// R15 (generic): s.contains("literal") / s.contains('c') on a String / &str: a function of the two texts
pub uninterp spec fn has_infix(s: Seq<char>, p: Seq<char>) -> bool;
#[verifier::external_body] pub fn string_contains(s: &str, p: &str) -> (r: bool) ensures r == has_infix(s@, p@) { s.contains(p) }
#[verifier::external_body] pub fn string_contains_char(s: &str, c: char) -> (r: bool) ensures r == s@.contains(c) { s.contains(c) }
"""


def r15_contains_lit(cut):
    n = cut.sub(r"\b(\w+(?:\.\w+)*)\.contains\((\"[^\"]*\")\)", r"string_contains(&*\1, \2)", "R15 contains(\"lit\") -> shim", expect=(0, 20))
    n += cut.sub(r"\b(\w+(?:\.\w+)*)\.contains\(('(?:\\.|[^'\\])')\)", r"string_contains_char(&*\1, \2)", "R15 contains('c') -> shim", expect=(0, 20))
    return n


def r15_starts_with_lit(cut):
    n = cut.sub(r"\b(\w+(?:\.\w+)*)\.starts_with\((\"[^\"]*\")\)", r"string_starts_with(&*\1, \2)", "R15 starts_with(\"lit\") -> shim", expect=(0, 20))
    return n
