"""Shared pieces: R1/R2 rewrites, the assemble.rs data types cut from /repo, spec functions."""
import re
from vf.rustcut import SourceFile, Cut, Undecided

PRELUDE = """// GENERATED on every run from /repo's current working tree by /verif/check -- do not edit.
#![allow(unused)]
#![allow(unreachable_code, unused_mut, unused_variables, unused_assignments, dead_code, non_snake_case, unused_parens, unused_braces)]
use vstd::prelude::*;
// R1: logging macros evaluate nothing
macro_rules! debug { ($($t:tt)*) => {} }
macro_rules! info { ($($t:tt)*) => {} }
macro_rules! error { ($($t:tt)*) => {} }
macro_rules! warn { ($($t:tt)*) => {} }
"""

CANARY = """
// vacuity guard: this obligation is false and MUST be reported as failed on every run
proof fn __canary() { assert(false); //@ C00:canary
}
"""


def r2(cut):
    """R2: drop Debug from derives; make items and fields pub."""
    cut.sub(r"#\[derive\(([^)]*)\)\]", lambda m: "#[derive(%s)]" % ", ".join(x for x in [y.strip() for y in m.group(1).split(",")] if x and x != "Debug"), "R2-derive")
    cut.sub(r"#\[derive\(\)\]\n?", "", "R2-derive-empty")
    cut.sub(r"^(\s*)(enum|struct)\b", r"\1pub \2", "R2-pub")
    return cut


def r2_fields(cut):
    """make private struct fields pub (lines `name: Type,` inside a struct body)"""
    cut.sub(r"^(\s+)(?!pub\b)([a-z_][a-z0-9_]*\s*:)", r"\1pub \2", "R2-pubfield")
    return cut


def asm_types(repo, with_code=True):
    f = SourceFile(repo, "src/assemble.rs")
    out = []
    cuts = []
    for kind, name in (("enum", "AsmMnemonic"), ("struct", "AsmInstruction"), ("enum", "AsmLine"), ("struct", "AssemblyCode")):
        c = f.item(kind, name)
        r2(c)
        if kind == "struct":
            r2_fields(c)
        cuts.append(c)
        out.append(c.text)
    return f, "\n".join(out), cuts


SUM_SPECS = """
// ---- spec: declared byte size of a line, and of a range of lines -------------------------
pub open spec fn lb(l: AsmLine) -> nat { match l { AsmLine::Instruction(i) => i.nb_bytes as nat, AsmLine::Inline(_, s) => s as nat, _ => 0 } }
pub open spec fn sum(s: Seq<AsmLine>, lo: int, hi: int) -> nat decreases hi - lo {
    if lo >= hi { 0 } else { sum(s, lo, hi - 1) + lb(s[hi - 1]) }
}
pub proof fn sum_lo(s: Seq<AsmLine>, lo: int, hi: int)
    requires 0 <= lo < hi <= s.len()
    ensures sum(s, lo, hi) == lb(s[lo]) + sum(s, lo + 1, hi)
    decreases hi - lo
{ if lo + 1 < hi { sum_lo(s, lo, hi - 1); } else { assert(sum(s, lo, lo) == 0); assert(sum(s, lo + 1, hi) == 0); } }
pub proof fn sum_mono(s: Seq<AsmLine>, lo: int, hi: int, hi2: int)
    requires 0 <= lo <= hi <= hi2 <= s.len()
    ensures sum(s, lo, hi) <= sum(s, lo, hi2)
    decreases hi2 - hi
{ if hi < hi2 { sum_mono(s, lo, hi, hi2 - 1); } }
pub proof fn sum_mono_lo(s: Seq<AsmLine>, lo: int, lo2: int, hi: int)
    requires 0 <= lo <= lo2 <= hi <= s.len()
    ensures sum(s, lo2, hi) <= sum(s, lo, hi)
    decreases lo2 - lo
{ if lo < lo2 { sum_lo(s, lo, hi); sum_mono_lo(s, lo + 1, lo2, hi); } }
pub proof fn sum_split(s: Seq<AsmLine>, lo: int, mid: int, hi: int)
    requires 0 <= lo <= mid <= hi <= s.len()
    ensures sum(s, lo, hi) == sum(s, lo, mid) + sum(s, mid, hi)
    decreases hi - mid
{ if mid < hi { sum_split(s, lo, mid, hi - 1); } }
"""


def header_comment(unit, cuts):
    lines = ["// unit %s; real text cut from:" % unit]
    for c in cuts:
        lines.append("//   %s:%d  %s" % (c.rel, c.line0, c.desc))
        for l in c.diff_summary():
            lines.append("//       rewrite %s" % l[:200])
    return "\n".join(lines) + "\n"


def collect_rewrites(cuts):
    res = []
    for c in cuts:
        for l in c.diff_summary():
            res.append("%s:%d %s: %s" % (c.rel, c.line0, c.desc, l[:160]))
    return res
