"""U-zp: the statement of compile_var_decl that classifies a constant pointer by its address (R8 window): a symbol equated to an address stays in the
zero-page class only if the address is at most $FF.  asm() sizes every access from that class (U-asm, assumption A-zp), so this is the compiler-side
half of 'declared sizes are the assembled sizes' for `char * const P = <address>;` (C04; C03 through branch distances)."""
import re
from vf.core import Unit
from vf.rustcut import SourceFile, Undecided, match_brace
from . import common

NAME = "U-zp"
TOOL = "verus"
PROPS = ["C04", "C03", "C16"]
RLIMIT = 50
TRUSTED = ["verus 0.2026.09.13 + z3"]


def build(repo):
    u = Unit(NAME, TOOL, PROPS, ["src/compile.rs: CompilerState::compile_var_decl (statements of the `Rule::calc_expr` initialiser arm after the value is computed, R8)"],
             assumptions=["R8: the window starts after `let vx = self.parse_calc(..)?;`; free variables vx, var_type, memory, def became parameters / results",
                          "that the downstream assembler takes the zero-page encoding exactly for addresses below $100 (A-zp / A-isa)",
                          "negative addresses are not considered (the initialiser of a constant pointer is an address)"])
    comp = SourceFile(repo, "src/compile.rs")
    s0, ob0, cb0 = comp.find_fn_span("compile_var_decl")
    m = re.search(r"Rule::calc_expr => \{", comp.masked[s0:cb0])
    if not m:
        raise Undecided("compile_var_decl: `Rule::calc_expr => {` arm not found")
    a0 = s0 + m.end() - 1
    a1 = match_brace(comp.masked, a0, "{", "}")
    v = re.search(r"let vx = self\.parse_calc\([^;]*;", comp.masked[a0:a1])
    if not v:
        raise Undecided("compile_var_decl: `let vx = self.parse_calc(..)?;` not found in the calc_expr arm")
    blk = comp.cut_span(comp.text.index("\n", a0 + v.end()) + 1, a1, "compile_var_decl(): calc_expr initialiser arm after the value is computed (R8)")
    if "memory" not in blk.text:
        raise Undecided("the window no longer mentions `memory`: the classification moved")
    cuts = []
    tys = []
    for kind, name, structural in (("enum", "VariableType", True), ("enum", "VariableMemory", True), ("enum", "VariableValue", False), ("enum", "VariableDefinition", False)):
        c = comp.item(kind, name)
        common.r2(c, structural=structural)
        if not structural:
            c.sub(r"#\[derive\(([^)]*)\)\]", lambda mm: "#[derive(%s)]" % ", ".join(x for x in [y.strip() for y in mm.group(1).split(",")] if x not in ("PartialEq", "Eq", "Debug")), "R2-derive-noeq")
        cuts.append(c)
        tys.append(c.text)
    cuts.append(blk)
    fn = """
// R8: the window, verbatim
pub fn classify(vx: i32, var_type: VariableType, memory: VariableMemory, def: VariableDefinition) -> (r: (VariableMemory, VariableDefinition))
    ensures
        // a constant pointer that stays in the zero-page class has an address an assembler encodes in one byte
        (var_type == VariableType::CharPtr && r.0 == VariableMemory::Zeropage && vx >= 0) ==> vx <= 0xff, //@ C04,C03:zp-class-implies-one-byte-address
        // and the class is only ever moved out of page zero here: an address below $100 keeps the class it had
        (vx <= 0xff) ==> r.0 == memory, //@ C04:zp-class-kept-below-0x100
{
    let mut memory = memory;
    let mut def = def;
%s
    (memory, def)
}
""" % blk.text
    text = common.PRELUDE + common.header_comment(NAME, cuts) + "verus! {\n" + "\n".join(tys) + fn + common.CANARY + "\n} // verus!\n"
    u.text[None] = text
    u.rewrites = common.collect_rewrites(cuts)
    u.dropped = ["everything of compile_var_decl outside the window"]
    return u
