"""U-calc: the constant calculator's operator implementations (closures of parse_calc), Kani over all i32 (C10, C16)."""
import re
from vf.core import Unit
from vf.rustcut import SourceFile, Undecided

NAME = "U-calc"
TOOL = "kani"
PROPS = ["C10", "C16"]
TRUSTED = ["kani 0.68 / cbmc 6.11 (bit-precise, full i32 domain, loop-free: complete, not bounded)", "A-pratt: pest's PrattParser applies the closures to the operands in the table's order"]

# C semantics on 32-bit int, as i64 mathematics.  (defined?, value)
BIN = {
    "mul": ("fits(a as i64 * b as i64)", "(a as i64 * b as i64) as i32"),
    # value oracle for / : the C99 definition (a/b)*b + a%b == a, |a%b| < |b|, a%b has the sign of a (see DIV_VALUE below);
    # re-computing the quotient with a second divider circuit is intractable for the SAT back end
    "div": ("b != 0 && !(a == i32::MIN && b == -1)", None),
    "add": ("fits(a as i64 + b as i64)", "(a as i64 + b as i64) as i32"),
    "sub": ("fits(a as i64 - b as i64)", "(a as i64 - b as i64) as i32"),
    "and": ("true", "a & b"),
    "or": ("true", "a | b"),
    "xor": ("true", "a ^ b"),
    "brs": ("0 <= b && b < 32", "((a as i64) >> (b as u32 & 31)) as i32"),
    "bls": ("0 <= b && b < 32 && fits((a as i64) << (b as u32 & 31))", "((a as i64) << (b as u32 & 31)) as i32"),
    "land": ("true", "((a != 0) && (b != 0)) as i32"),
    "lor": ("true", "((a != 0) || (b != 0)) as i32"),
    "gt": ("true", "(a > b) as i32"),
    "gte": ("true", "(a >= b) as i32"),
    "lt": ("true", "(a < b) as i32"),
    "lte": ("true", "(a <= b) as i32"),
    "eq": ("true", "(a == b) as i32"),
    "neq": ("true", "(a != b) as i32"),
}
UN = {
    "neg": ("a != i32::MIN", "(-(a as i64)) as i32"),
    "not": ("true", "(a == 0) as i32"),
    "bnot": ("true", "!a"),
}

DIV_VALUE = """    #[kani::proof]
    fn calc_%(n)s_value() {      // C99 6.5.5: the quotient q is the unique value with a == q*b + r, |r| < |b|, r == 0 or sign(r) == sign(a)
        let a: i32 = kani::any(); let b: i32 = kani::any();
        kani::assume(%(d)s);
        let r = CS.infix(Ok(a), op(Rule::%(n)s), Ok(b));
        match r {
            Ok(q) => {
                let rem = a as i64 - (q as i64) * (b as i64);
                assert!(rem.abs() < (b as i64).abs());
                assert!(rem == 0 || ((rem < 0) == (a < 0)));
            }
            Err(_) => assert!(false),
        }
    }
"""

DIV_SMALL = """    #[kani::proof]
    fn calc_div_value_small() {      // the quotient itself, against Rust's truncating `/`, for operands of 8 bits (a second divider circuit is only tractable on a small domain)
        let a8: i8 = kani::any(); let b8: i8 = kani::any();
        kani::assume(b8 != 0);
        let (a, b) = (a8 as i32, b8 as i32);
        let r = CS.infix(Ok(a), op(Rule::div), Ok(b));
        assert!(r == Ok(a / b));
    }
"""

PRELUDE = """// GENERATED on every run from /repo's current working tree by /verif/check -- do not edit.
#![allow(unused, non_camel_case_types, unreachable_code, unreachable_patterns)]
macro_rules! debug { ($($t:tt)*) => {} }
#[derive(Debug, Copy, Clone, PartialEq)]
pub enum Rule { %(rules)s, __other }
#[derive(Debug, PartialEq)]
pub struct Error { pub loc: usize }
pub struct Span { pub s: usize }
impl Span { pub fn start(&self) -> usize { self.s } }
#[derive(Copy, Clone)]
pub struct OpPair { pub rule: Rule, pub s: usize }          // R7 shim of pest::iterators::Pair: only as_rule()/as_span()
impl OpPair { pub fn as_rule(&self) -> Rule { self.rule } pub fn as_span(&self) -> Span { Span { s: self.s } } }
pub struct CS;                                                // R6 shim of CompilerState: only syntax_error()
impl CS {
    pub fn syntax_error(&self, _message: &str, loc: usize) -> Error { Error { loc } }
    // R7: body of the closure passed to .map_infix(|lhs, op, rhs| …), verbatim
    pub fn infix(&self, lhs: Result<i32, Error>, op: OpPair, rhs: Result<i32, Error>) -> Result<i32, Error> %(infix)s
    // R7: body of the closure passed to .map_prefix(|op, rhs| …), verbatim
    pub fn prefix(&self, op: OpPair, rhs: Result<i32, Error>) -> Result<i32, Error> { %(prefix)s }
}
fn fits(v: i64) -> bool { v >= i32::MIN as i64 && v <= i32::MAX as i64 }
fn op(rule: Rule) -> OpPair { OpPair { rule, s: 7 } }
"""


def build(repo):
    u = Unit(NAME, TOOL, PROPS, ["src/compile.rs: CompilerState::parse_calc (closure passed to map_infix)", "src/compile.rs: CompilerState::parse_calc (closure passed to map_prefix)"],
             assumptions=["A-pratt: pest's PrattParser calls the infix/prefix closures with the operand results in the precedence order of the table it was given",
                          "R7: pest Pair replaced by a shim with as_rule()/as_span(); CompilerState by a shim with syntax_error()",
                          "oracle: C semantics of 32-bit int written as i64 arithmetic in the harness (shift counts 0..31, arithmetic >>, a<<b defined iff the product fits)",
                          "panic-on-overflow is the debug profile (the test-suite profile); release wraps silently, which the value obligations then catch"])
    f = SourceFile(repo, "src/compile.rs")
    s, ob, cb = f.find_fn_span("parse_calc")
    pin, infix = f.closure_arg(r"\.map_infix\(", s, cb, desc="parse_calc map_infix closure")
    ppre, prefix = f.closure_arg(r"\.map_prefix\(", s, cb, desc="parse_calc map_prefix closure")
    if re.sub(r"\s", "", pin) != "lhs,op,rhs" or re.sub(r"\s", "", ppre) != "op,rhs":
        raise Undecided("parse_calc closures changed their parameters: |%s| / |%s|" % (pin, ppre))
    rules = sorted(set(re.findall(r"\bRule::(\w+)", infix.text + prefix.text)))
    for r in list(BIN) + list(UN) + ["ternary_cond1", "ternary_cond2"]:
        if r not in rules:
            rules.append(r)
    text = PRELUDE % {"rules": ", ".join(rules), "infix": infix.text, "prefix": prefix.text}
    h = ["#[cfg(kani)]\nmod harness {\n    use super::*;\n"]
    for name, (defined, value) in BIN.items():
        if defined != "true":
            h.append("""    #[kani::proof]
    fn calc_%(n)s_total() {     // outside the domain where C defines the result: an error, never a panic or a wrapped value
        let a: i32 = kani::any(); let b: i32 = kani::any();
        kani::assume(!(%(d)s));
        let r = CS.infix(Ok(a), op(Rule::%(n)s), Ok(b));
        assert!(r.is_err());
    }
""" % {"n": name, "d": defined})
            u.harnesses["calc_%s_total" % name] = (["C10", "C16"], "calc-%s-total" % name, "infix %s: Err (no panic, no wrap) exactly when C leaves a %s b undefined in 32-bit int" % (name, name))
        if value is None:
            h.append(DIV_VALUE % {"n": name, "d": defined})
            h.append(DIV_SMALL)
            u.harnesses["calc_div_value_small"] = (["C10"], "calc-div-value-small", "infix div: equals Rust's truncating a / b for all 8-bit a, b (b != 0): a complete proof of the statement on that domain, a bounded stand-in for the full one, whose full-domain form is the C99 characterisation calc-div-value")
        else:
            h.append("""    #[kani::proof]
    fn calc_%(n)s_value() {
        let a: i32 = kani::any(); let b: i32 = kani::any();
        kani::assume(%(d)s);
        let r = CS.infix(Ok(a), op(Rule::%(n)s), Ok(b));
        assert!(r == Ok(%(v)s));
    }
""" % {"n": name, "d": defined, "v": value})
        u.harnesses["calc_%s_value" % name] = (["C10"], "calc-%s-value" % name, "infix %s: Ok(C value) for all i32 a, b where C defines it" % name)
    for name, (defined, value) in UN.items():
        if defined != "true":
            h.append("""    #[kani::proof]
    fn calc_%(n)s_total() {
        let a: i32 = kani::any();
        kani::assume(!(%(d)s));
        let r = CS.prefix(op(Rule::%(n)s), Ok(a));
        assert!(r.is_err());
    }
""" % {"n": name, "d": defined})
            u.harnesses["calc_%s_total" % name] = (["C10", "C16"], "calc-%s-total" % name, "prefix %s: Err (no panic) where the result does not fit" % name)
        h.append("""    #[kani::proof]
    fn calc_%(n)s_value() {
        let a: i32 = kani::any();
        kani::assume(%(d)s);
        let r = CS.prefix(op(Rule::%(n)s), Ok(a));
        assert!(r == Ok(%(v)s));
    }
""" % {"n": name, "d": defined, "v": value})
        u.harnesses["calc_%s_value" % name] = (["C10"], "calc-%s-value" % name, "prefix %s: C value for all i32" % name)
    # ternary: cond2(cond1(a, b), c) == (a ? b : c).  PrattParser (right assoc, cond1 binds tighter) computes it in this order.
    h.append("""    #[kani::proof]
    fn calc_ternary_value() {
        let a: i32 = kani::any(); let b: i32 = kani::any(); let c: i32 = kani::any();
        kani::assume(b != 0x7eaddead);       // the sentinel collision is the separate obligation calc-ternary-sentinel
        let t = CS.infix(Ok(a), op(Rule::ternary_cond1), Ok(b));
        let r = CS.infix(t, op(Rule::ternary_cond2), Ok(c));
        assert!(r == Ok(if a != 0 { b } else { c }));
    }
    #[kani::proof]
    fn calc_ternary_sentinel() {
        let a: i32 = kani::any(); let c: i32 = kani::any();
        let b: i32 = 0x7eaddead;
        let t = CS.infix(Ok(a), op(Rule::ternary_cond1), Ok(b));
        let r = CS.infix(t, op(Rule::ternary_cond2), Ok(c));
        assert!(r == Ok(if a != 0 { b } else { c }));
    }
    #[kani::proof]
    fn calc_errprop_lhs() {      // an operand that already failed yields an error, not a panic
        let b: i32 = kani::any(); let k: u8 = kani::any();
        let rule = match k % 8 { 0 => Rule::mul, 1 => Rule::div, 2 => Rule::add, 3 => Rule::sub, 4 => Rule::and, 5 => Rule::lt, 6 => Rule::land, _ => Rule::ternary_cond2 };
        let r = CS.infix(Err(Error { loc: 3 }), op(rule), Ok(b));
        assert!(r.is_err());
    }
    #[kani::proof]
    fn calc_errprop_rhs() {
        let a: i32 = kani::any(); let k: u8 = kani::any();
        let rule = match k % 8 { 0 => Rule::mul, 1 => Rule::div, 2 => Rule::add, 3 => Rule::sub, 4 => Rule::and, 5 => Rule::lt, 6 => Rule::land, _ => Rule::ternary_cond1 };
        let r = CS.infix(Ok(a), op(rule), Err(Error { loc: 3 }));
        assert!(r.is_err());
    }
    #[kani::proof]
    fn calc_errprop_prefix() {
        let k: u8 = kani::any();
        let rule = match k % 3 { 0 => Rule::neg, 1 => Rule::not, _ => Rule::bnot };
        let r = CS.prefix(op(rule), Err(Error { loc: 3 }));
        assert!(r.is_err());
    }
    #[kani::proof]
    fn calc_div0_located() {     // division by zero is reported at the operator's position
        let a: i32 = kani::any();
        let r = CS.infix(Ok(a), OpPair { rule: Rule::div, s: 41 }, Ok(0));
        assert!(r == Err(Error { loc: 41 }));
    }
    #[kani::proof]
    fn canary_must_fail() { let a: i32 = kani::any(); assert!(a != 12345); }
}
""")
    u.harnesses["calc_ternary_value"] = (["C10"], "calc-ternary-value", "cond2(cond1(a,b),c) == (a ? b : c) for all i32 with b != sentinel")
    u.harnesses["calc_ternary_sentinel"] = (["C10"], "calc-ternary-sentinel", "cond2(cond1(a,0x7eaddead),c) == (a ? 0x7eaddead : c)")
    u.harnesses["calc_errprop_lhs"] = (["C10", "C16"], "calc-errprop-lhs", "Err left operand -> Err, no panic")
    u.harnesses["calc_errprop_rhs"] = (["C10", "C16"], "calc-errprop-rhs", "Err right operand -> Err, no panic")
    u.harnesses["calc_errprop_prefix"] = (["C10", "C16"], "calc-errprop-prefix", "Err operand of a prefix operator -> Err")
    u.harnesses["calc_div0_located"] = (["C10", "C06"], "calc-div0-located", "x / 0 -> syntax error at the operator's span start")
    u.harnesses["canary_must_fail"] = (["C00"], "canary", "deliberately false")
    u.text[None] = text + "".join(h)
    u.rewrites = ["R7: closure bodies of map_infix / map_prefix wrapped as methods infix()/prefix() of a shim self, parameter names kept"]
    u.dropped = ["the PrattParser driver and map_primary (pest Pairs)", "debug! logging (R1)"]
    u.bounded = ["calc_div_value_small: operands restricted to 8 bits (complete on that domain); the full-domain statement about / is the C99 characterisation calc-div-value"]
    return u


def _c_int(v):
    return "(%d)" % v if v >= 0 else "(0 - %d)" % (-v) if v > -2**31 else "(0 - 2147483647 - 1)"


def _fits(v):
    return -2**31 <= v <= 2**31 - 1


def _tdiv(a, b):
    q = abs(a) // abs(b)
    return q if (a < 0) == (b < 0) else -q


def lift(harness, vals):
    """Counterexample (values of the kani::any() calls, in order) -> a C source whose constant initialiser is the
    failing expression, compiled by the real compiler through the probe driver; expectation from C semantics."""
    try:
        ints = [int(v.strip()) for v in vals if re.match(r"^\s*-?\d+\s*$", v)]
    except Exception:
        return None
    sym = {"mul": "*", "div": "/", "add": "+", "sub": "-", "and": "&", "or": "|", "xor": "^", "brs": ">>", "bls": "<<", "land": "&&", "lor": "||",
           "gt": ">", "gte": ">=", "lt": "<", "lte": "<=", "eq": "==", "neq": "!=", "neg": "-", "not": "!", "bnot": "~"}
    pyop = {"mul": lambda a, b: a * b, "div": _tdiv, "add": lambda a, b: a + b, "sub": lambda a, b: a - b, "and": lambda a, b: a & b, "or": lambda a, b: a | b,
            "xor": lambda a, b: a ^ b, "brs": lambda a, b: a >> b, "bls": lambda a, b: a << b, "land": lambda a, b: int(a != 0 and b != 0), "lor": lambda a, b: int(a != 0 or b != 0),
            "gt": lambda a, b: int(a > b), "gte": lambda a, b: int(a >= b), "lt": lambda a, b: int(a < b), "lte": lambda a, b: int(a <= b), "eq": lambda a, b: int(a == b), "neq": lambda a, b: int(a != b)}
    expr, expected = None, None
    m = re.match(r"calc_(\w+?)_(value|total)(?:_small)?$", harness)
    if harness in ("calc_ternary_value", "calc_ternary_sentinel") and len(ints) >= 2:
        if harness == "calc_ternary_sentinel":
            a, b, c = ints[0], 0x7eaddead, ints[1]
        else:
            if len(ints) < 3:
                return None
            a, b, c = ints[0], ints[1], ints[2]
        expr = "%s ? %s : %s" % (_c_int(a), _c_int(b), _c_int(c))
        expected = b if a != 0 else c
    elif m and m.group(1) in ("neg", "not", "bnot") and ints:
        a = ints[0]
        expr = "%s%s" % (sym[m.group(1)], _c_int(a))
        v = {"neg": -a, "not": int(a == 0), "bnot": ~a}[m.group(1)]
        expected = v if _fits(v) else None
    elif m and m.group(1) in pyop and len(ints) >= 2:
        a, b = ints[0], ints[1]
        o = m.group(1)
        expr = "%s %s %s" % (_c_int(a), sym[o], _c_int(b))
        if (o == "div" and b == 0) or (o in ("brs", "bls") and not (0 <= b < 32)):
            expected = None
        else:
            v = pyop[o](a, b)
            expected = v if _fits(v) else None
    else:
        return None
    src = "const short probe[2] = { %s, 0 };\nvoid main() {}\n" % expr
    exp = {"panic": False}
    if expected is None:
        exp["is_error"] = True
    else:
        exp["stdout_contains"] = "ARRAY probe size=2 = %d 0" % expected
    return {"source": src, "args": [], "expect": exp, "note": "constant expression `%s`; C value: %s" % (expr, "undefined -> must be an error" if expected is None else expected)}
