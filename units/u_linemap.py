"""U-linemap: the places of cpp::process that write to the preprocessed output, cut as windows (R8) and verified in Verus: every window pushes exactly as many
entries on the line table as it writes newline characters to the output (the invariant behind 'the error names the line the user wrote': line k of the
preprocessed text is described by entry k).  Output is modelled by its newline count; the newline count of each string literal is computed by the extractor (C06)."""
import re
from vf.core import Unit
from vf.rustcut import SourceFile, Undecided, mask, match_brace
from . import common

NAME = "U-linemap"
TOOL = "verus"
PROPS = ["C06", "C16"]
RLIMIT = 50
TRUSTED = ["verus 0.2026.09.13 + z3", "R25: the number of newline characters of a string literal is computed by the extractor and passed to the output shim"]

SPECS = """
pub uninterp spec fn count_nl(s: Seq<char>) -> int;       // number of '\\n' in a text
#[verifier::external_body] pub broadcast proof fn axiom_count_nl_nonneg(s: Seq<char>) ensures #[trigger] count_nl(s) >= 0 {}
pub struct Out { pub nl: Ghost<int> }
pub struct Error { pub e: u8 }
impl Out {
    // R25: write_all("literal".as_bytes()) -- n is the literal's newline count (computed by the extractor)
    #[verifier::external_body] pub fn write_lit(&mut self, n: u32) -> (r: Result<(), Error>) ensures r is Ok ==> final(self).nl@ == old(self).nl@ + n, r is Err ==> final(self).nl@ == old(self).nl@ { unimplemented!() }
    // write_all(s.as_bytes()) for a run-time string; `extra` = newline count of the literal pieces of a format! around it
    #[verifier::external_body] pub fn write_str(&mut self, s: &String, extra: u32) -> (r: Result<(), Error>) ensures r is Ok ==> final(self).nl@ == old(self).nl@ + count_nl(s@) + extra, r is Err ==> final(self).nl@ == old(self).nl@ { unimplemented!() }
}
pub struct Entry { pub line: u32 }
#[verifier::external_body] pub fn ends_with_nl(s: &String) -> (r: bool) ensures r == (s@.len() > 0 && s@[s@.len() - 1] == '\\n') { s.ends_with('\\n') }
// one source line after macro replacement: at most one newline, and only as its last character
pub open spec fn one_line(s: Seq<char>) -> bool { count_nl(s) == (if s.len() > 0 && s[s.len() - 1] == '\\n' { 1int } else { 0int }) }
"""


def _lit_nl(lit):
    """newline count of a Rust string literal's text (escapes \\n only; anything exotic is outside the rule)"""
    if re.search(r"\\[^n\"\\\\t]", lit):
        raise Undecided("string literal with an escape outside R25: %r" % lit)
    return lit.count("\\n")


def _rewrite_window(cut):
    """lines.push((..)) -> lines.push(Entry{..}); output.write_all(X.as_bytes())? -> shim calls"""
    t = cut.text
    t = re.sub(r"lines\.push\(\((?:[^()]|\([^()]*\))*\)\);", "lines.push(Entry { line });", t)
    def lit(m):
        return "out.write_lit(%d)?;" % _lit_nl(m.group(1))
    t = re.sub(r"output\.write_all\(\s*\"((?:[^\"\\]|\\.)*)\"\.as_bytes\(\)\s*\)\?;", lit, t)
    t = re.sub(r"output\.write_all\(\s*b\"((?:[^\"\\]|\\.)*)\"\s*\)\?;", lit, t)
    def fmt(m):
        litx, arg = m.group(1), m.group(2)
        if litx.count("{}") != 1 or re.search(r"\{[^}]+\}", litx):
            raise Undecided("format! in an output write with other than one `{}` placeholder: %r" % litx)
        return "out.write_str(&%s, %d)?;" % (arg.strip(), _lit_nl(litx))
    t = re.sub(r"output\.write_all\(\s*format!\(\s*\"((?:[^\"\\]|\\.)*)\"\s*,\s*([^()]+?)\)\.as_bytes\(\)\s*\)\?;", fmt, t)
    t = re.sub(r"output\.write_all\(\s*(\w+)\.as_bytes\(\)\s*\)\?;", r"out.write_str(&\1, 0)?;", t)
    t = re.sub(r"(\w+)\.ends_with\('\\n'\)", r"ends_with_nl(&\1)", t)
    t = re.sub(r"context\.includes_stack\.is_empty\(\)", "includes_empty", t)      # R8: free variable of the window
    if "output." in t or "write_all" in t:
        raise Undecided("%s: an output write of a shape outside R25 remains" % cut.desc)
    cut.text = t
    cut.log.append("R25 output.write_all(..) -> out.write_lit(n) / out.write_str(s, n) with extractor-computed literal newline counts; lines.push((..)) -> lines.push(Entry)")


def build(repo):
    u = Unit(NAME, TOOL, PROPS, ["src/cpp.rs: process() -- the three windows that write to the output (assembler begin / end markers of #include, ordinary active line; R8)"],
             assumptions=["the output is modelled by the number of newline characters written; R25 (literal newline counts computed by the extractor)",
                          "an included file name contains no newline; a source line after macro replacement has at most one newline, as its last character (precondition one_line)",
                          "the recursive process() call of #include and the line reader (read_line, comment removal) are not under contract: that the windows are the ONLY writers is checked textually",
                          "the unterminated last line of the TOP-LEVEL file writes no newline although it gets an entry (nothing follows it): stated in the contract, not hidden"])
    f = SourceFile(repo, "src/cpp.rs")
    s0, ob0, cb0 = f.find_fn_span("process")
    body = f.masked[s0:cb0]
    writers = [m.start() for m in re.finditer(r"output\.write_all\(", body)]
    # windows: (a) each `if assembler { ... }` block that writes; (b) the `else if state == State::Active { ... }` block of ordinary lines
    wins = []
    for m in re.finditer(r"\bif assembler \{", body):
        ob = s0 + m.end() - 1
        cb = match_brace(f.masked, ob, "{", "}")
        if "output.write_all(" in f.masked[ob:cb]:
            wins.append((ob, cb, "assembler marker"))
    m = re.search(r"else if state == State::Active \{", body)
    if not m:
        raise Undecided("process(): `else if state == State::Active {` (ordinary line) not found")
    ob = s0 + m.end() - 1
    cb = match_brace(f.masked, ob, "{", "}")
    wins.append((ob, cb, "ordinary line"))
    covered = sum(1 for w in writers if any(ob < s0 + w < cb for ob, cb, _ in wins))
    if covered != len(writers):
        raise Undecided("process(): %d output writes, %d inside the recognised windows: a writer outside the unit's model" % (len(writers), covered))
    if len([w for w in wins if w[2] == "assembler marker"]) != 2:
        raise Undecided("process(): expected two `if assembler {..}` blocks that write markers, found %d" % len([w for w in wins if w[2] == "assembler marker"]))
    cuts, fns = [], []
    for k, (ob, cb, kind) in enumerate(wins, 1):
        c = f.cut_span(f.text.index("\n", ob) + 1, cb, "process(): output window %d (%s, R8)" % (k, kind))
        _rewrite_window(c)
        cuts.append(c)
        if kind == "assembler marker":
            fns.append("""
// R8: window %(k)d (%(kind)s), verbatim up to R25
pub fn window_%(k)d(out: &mut Out, lines: &mut Vec<Entry>, line: u32, fname: String) -> (r: Result<(), Error>)
    requires count_nl(fname@) == 0,
    ensures r is Ok ==> final(lines)@.len() - old(lines)@.len() == final(out).nl@ - old(out).nl@, //@ C06:linemap-marker-%(k)d-entries-equal-newlines
            r is Ok ==> final(lines)@.len() > old(lines)@.len(),
{
%(text)s
    Ok(())
}
""" % {"k": k, "kind": kind, "text": c.text})
        else:
            fns.append("""
// R8: window %(k)d (%(kind)s), verbatim up to R25
pub fn window_%(k)d(out: &mut Out, lines: &mut Vec<Entry>, line: u32, new_line: String, has_lf: bool, includes_empty: bool) -> (r: Result<(), Error>)
    requires one_line(new_line@),
    ensures
        r is Ok ==> final(lines)@.len() == old(lines)@.len() + 1, //@ C06:linemap-line-one-entry
        // at most one newline is written for the entry, and exactly one whenever the input line had one
        r is Ok ==> 0 <= final(out).nl@ - old(out).nl@ <= 1, //@ C06:linemap-line-at-most-one-newline
        (r is Ok && (has_lf || (new_line@.len() > 0 && new_line@[new_line@.len() - 1] == '\\n'))) ==> final(out).nl@ - old(out).nl@ == 1, //@ C06:linemap-line-one-newline
        // inside an included file every entry gets its newline, also the last line of a file that lacks one: otherwise the includer's lines are off by one
        (r is Ok && !includes_empty) ==> final(out).nl@ - old(out).nl@ == 1, //@ C06:linemap-included-line-terminated
{
%(text)s
    Ok(())
}
""" % {"k": k, "kind": kind, "text": c.text})
    text = common.PRELUDE + common.header_comment(NAME, cuts) + "verus! {\n" + SPECS + "\n".join(fns) + common.CANARY + "\n} // verus!\n"
    u.text[None] = text
    u.rewrites = common.collect_rewrites(cuts)
    u.dropped = ["everything of process() outside the three windows (the reader loop, directive handling, the recursive call)"]
    return u
