"""U-reach: function_is_actually_in_use / compute_functions_actually_in_use, verbatim (C12)."""
from vf.core import Unit
from vf.rustcut import SourceFile, Undecided
from . import common

NAME = "U-reach"
TOOL = "verus"
PROPS = ["C12", "C16", "C05"]
RLIMIT = 100
TRUSTED = ["verus 0.2026.09.13 + z3", "A-vstd (HashMap/HashSet/Vec specs, HashMap::iter prophetic iterator)",
           "A-spec-hash-str: String obeys the hash-table key model; a &str key borrowed from a String key denotes the key with the same characters; String values with equal views are equal"]

SPECS = """
use vstd::std_specs::hash::*;
use std::collections::{HashMap, HashSet};
// ---- A-spec-hash-str: assumed facts about String as a hash key (vstd ships them for integers and Box only) ------
#[verifier::external_body]
pub proof fn axiom_string_key_model() ensures obeys_key_model::<String>() {}
#[verifier::external_body]
pub proof fn axiom_str_borrow_set(s: Set<String>, k: &str)
    ensures set_contains_borrowed_key(s, k) <==> (exists|x: String| x@ == k@ && s.contains(x)),
            forall|key: &String| #[trigger] sets_borrowed_key_to_key(s, k, key) <==> ((*key)@ == k@ && s.contains(*key)) {}
#[verifier::external_body]
pub proof fn axiom_str_borrow_map<V>(m: Map<String, V>, k: &str)
    ensures contains_borrowed_key(m, k) <==> (exists|x: String| x@ == k@ && m.contains_key(x)),
            forall|v: V| maps_borrowed_key_to_value(m, k, v) <==> (exists|x: String| x@ == k@ && m.contains_key(x) && m[x] == v) {}
#[verifier::external_body]
pub proof fn axiom_string_ext(a: String, b: String) ensures a@ == b@ ==> a == b {}

// ---- spec: the call tree as a graph over function names, reachability, closure ------------------------------------
pub type Tree = Map<String, Vec<String>>;
pub open spec fn inset(s: Set<String>, n: Seq<char>) -> bool { exists|x: String| x@ == n && s.contains(x) }
pub open spec fn edge(t: Tree, a: Seq<char>, b: Seq<char>) -> bool {
    exists|x: String, i: int| x@ == a && t.contains_key(x) && 0 <= i < t[x]@.len() && (#[trigger] t[x]@[i])@ == b
}
pub open spec fn reach(t: Tree, a: Seq<char>, b: Seq<char>, k: nat) -> bool decreases k {
    a == b || (k > 0 && exists|c: Seq<char>| edge(t, a, c) && reach(t, c, b, (k - 1) as nat))
}
pub open spec fn reachable(t: Tree, a: Seq<char>, b: Seq<char>) -> bool { exists|k: nat| reach(t, a, b, k) }
pub open spec fn closed_at(t: Tree, s: Set<String>, n: Seq<char>) -> bool { forall|c: Seq<char>| edge(t, n, c) ==> inset(s, c) }
pub open spec fn grows(a: Set<String>, b: Set<String>) -> bool { forall|n: Seq<char>| inset(a, n) ==> inset(b, n) }
pub open spec fn new_closed(t: Tree, a: Set<String>, b: Set<String>) -> bool { forall|n: Seq<char>| inset(b, n) && !inset(a, n) ==> closed_at(t, b, n) }
pub open spec fn new_reachable(t: Tree, a: Set<String>, b: Set<String>, root: Seq<char>) -> bool { forall|n: Seq<char>| inset(b, n) && !inset(a, n) ==> reachable(t, root, n) }
pub open spec fn all_closed(t: Tree, s: Set<String>) -> bool { forall|n: Seq<char>| inset(s, n) ==> closed_at(t, s, n) }
// the property's right-hand side: reachable from main or from an interrupt handler
pub open spec fn is_root(funcs: Map<String, Function>, r: Seq<char>) -> bool {
    r == "main"@ || exists|x: String| x@ == r && funcs.contains_key(x) && funcs[x].interrupt
}
pub open spec fn in_use_spec(t: Tree, funcs: Map<String, Function>, n: Seq<char>) -> bool { exists|r: Seq<char>| is_root(funcs, r) && reachable(t, r, n) }

pub proof fn lemma_reach_step(t: Tree, a: Seq<char>, c: Seq<char>, b: Seq<char>)
    requires edge(t, a, c), reachable(t, c, b)
    ensures reachable(t, a, b)
{
    let k = choose|k: nat| reach(t, c, b, k);
    assert(reach(t, a, b, k + 1));
}
pub proof fn lemma_closed_mono(t: Tree, s1: Set<String>, s2: Set<String>, n: Seq<char>)
    requires closed_at(t, s1, n), grows(s1, s2)
    ensures closed_at(t, s2, n)
{}
pub proof fn lemma_closed_contains(t: Tree, s: Set<String>, a: Seq<char>, b: Seq<char>, k: nat)
    requires all_closed(t, s), inset(s, a), reach(t, a, b, k)
    ensures inset(s, b)
    decreases k
{
    if a != b {
        let c = choose|c: Seq<char>| edge(t, a, c) && reach(t, c, b, (k - 1) as nat);
        assert(closed_at(t, s, a));
        lemma_closed_contains(t, s, c, b, (k - 1) as nat);
    }
}

// ---- R6 shim environment ------------------------------------------------------------------------------------------
pub struct Error { pub e: u8 }
%(function_shim)s
pub struct CompilerState { pub functions: HashMap<String, Function> }
pub struct GeneratorState<'a> {
    pub compiler_state: &'a CompilerState,
    pub functions_call_tree: HashMap<String, Vec<String>>,
    pub functions_actually_in_use: HashSet<String>,
    pub functions_code: HashMap<String, u8>,       // R6: only the key set / size of the code table can matter here
}
"""


def build(repo):
    u = Unit(NAME, TOOL, PROPS,
             ["src/generate/generate_asm.rs: GeneratorState::function_is_actually_in_use", "src/generate/generate_asm.rs: GeneratorState::compute_functions_actually_in_use"],
             assumptions=["A-spec-hash-str (four external_body axioms about String keys: key model, &str borrow on sets and maps, view-extensionality of String)",
                          "A-vstd", "termination of the recursive closure is not proved (R9)",
                          "R6: GeneratorState/CompilerState/Function shims keep only the fields the two functions touch",
                          "that every call in the source is recorded in functions_call_tree is the recording half (generate_function_call), not this unit"])
    ga = SourceFile(repo, "src/generate/generate_asm.rs")
    f = ga.fn("function_is_actually_in_use", within="GeneratorState")
    cuts = [f]
    common.r14_map_or(f)
    f.set_header("""#[verifier::exec_allows_no_decreases_clause]
    fn function_is_actually_in_use(
        &self,
        f: &str,
        functions_actually_in_use: &mut HashSet<String>,
    )
        ensures
            inset(final(functions_actually_in_use)@, f@), //@ C12:closure-root
            grows(old(functions_actually_in_use)@, final(functions_actually_in_use)@), //@ C12:monotone
            new_closed(self.functions_call_tree@, old(functions_actually_in_use)@, final(functions_actually_in_use)@), //@ C12:closure
            new_reachable(self.functions_call_tree@, old(functions_actually_in_use)@, final(functions_actually_in_use)@, f@), //@ C12:sound
""", expect_sig="fn function_is_actually_in_use( &self, f: &str, functions_actually_in_use: &mut HashSet<String>, )")
    f.body_start("""
        broadcast use vstd::std_specs::hash::group_hash_axioms;
        let ghost t = self.functions_call_tree@;
        let ghost s0 = functions_actually_in_use@;
        let ghost mut s1 = s0;
        proof { axiom_string_key_model(); axiom_str_borrow_set(s0, f); axiom_str_borrow_map(t, f); }
""")
    f.after_block(r"if functions_actually_in_use\.get\(f\)\.is_none\(\) \{", """ else { proof {
            assert(exists|k: &String| sets_borrowed_key_to_key(s0, f, k));
            assert(inset(functions_actually_in_use@, f@)); } }""")
    f.after_stmt(r"functions_actually_in_use\.insert\(f\.to_string\(\)\)", """
            proof {
                s1 = functions_actually_in_use@;
                assert(inset(s1, f@));
                assert(grows(s0, s1));
                assert(reach(t, f@, f@, 0));
            }
""")
    f.after_block(r"if let Some\(v\) = self\.functions_call_tree\.get\(f\) \{", """ else { proof {
                    assert forall|c: Seq<char>| edge(t, f@, c) implies inset(s1, c) by {
                        let (x, i) = choose|x: String, i: int| x@ == f@ && t.contains_key(x) && 0 <= i < t[x]@.len() && (#[trigger] t[x]@[i])@ == c;
                    }
                } }""")
    f.at_block_start(r"if let Some\(v\) = self\.functions_call_tree\.get\(f\) \{", "                assert(maps_borrowed_key_to_value(t, f, *v));")
    f.at_block_end(r"if let Some\(v\) = self\.functions_call_tree\.get\(f\) \{", """
                proof {
                    let sf = functions_actually_in_use@;
                    assert(inset(sf, f@));
                    assert forall|c: Seq<char>| edge(t, f@, c) implies inset(sf, c) by {
                        let (x, i) = choose|x: String, i: int| x@ == f@ && t.contains_key(x) && 0 <= i < t[x]@.len() && (#[trigger] t[x]@[i])@ == c;
                        let y = choose|y: String| y@ == f@ && t.contains_key(y) && t[y] == *v;
                        axiom_string_ext(x, y);
                        assert(t[x] == *v);
                        assert(inset(sf, v@[i]@));
                    }
                }
""")
    f.loop_spec(1, r"^for fx in v$", """
                    invariant
                        t == self.functions_call_tree@,
                        grows(s1, functions_actually_in_use@), //@ C12:monotone-inv
                        new_closed(t, s1, functions_actually_in_use@), //@ C12:closure-inv
                        new_reachable(t, s0, functions_actually_in_use@, f@), //@ C12:sound-inv
                        forall|j: int| 0 <= j < it.index@ ==> inset(functions_actually_in_use@, (#[trigger] v@[j])@), //@ C12:children-visited
                        forall|j: int| 0 <= j < v@.len() ==> edge(t, f@, (#[trigger] v@[j])@),
                        inset(s1, f@), grows(s0, s1), forall|n: Seq<char>| inset(s1, n) && !inset(s0, n) ==> n == f@,
""", new_header="for fx in it: v")
    f.at_block_start(r"for fx in it: v", "                    let ghost sa = functions_actually_in_use@;")
    f.at_block_end(r"for fx in it: v", """
                    proof {
                        let sb = functions_actually_in_use@;
                        assert forall|n: Seq<char>| inset(sb, n) && !inset(s1, n) implies closed_at(t, sb, n) by {
                            if inset(sa, n) { lemma_closed_mono(t, sa, sb, n); }
                        }
                        assert forall|n: Seq<char>| inset(sb, n) && !inset(s0, n) implies reachable(t, f@, n) by {
                            if !inset(sa, n) { lemma_reach_step(t, f@, fx@, n); }
                        }
                    }
""")
    c = ga.fn("compute_functions_actually_in_use", within="GeneratorState")
    cuts.append(c)
    c.set_header("""pub fn compute_functions_actually_in_use(&mut self) -> (res: Result<(), Error>)
        ensures
            res is Ok,
            final(self).functions_call_tree@ == old(self).functions_call_tree@,
            // the published set is exactly the set reachable from main and the interrupt handlers
            forall|n: Seq<char>| inset(final(self).functions_actually_in_use@, n) <==> in_use_spec(old(self).functions_call_tree@, old(self).compiler_state.functions@, n), //@ C12,C05:exact
""", expect_sig="fn compute_functions_actually_in_use(&mut self) -> Result<(), Error>")
    c.sub(r"for i in &self\.compiler_state\.functions \{", "for i in it: self.compiler_state.functions.iter() {", "R12 (`for x in &map` is `for x in map.iter()`: std IntoIterator for &HashMap)", expect=1)
    c.body_start("""
        broadcast use vstd::std_specs::hash::group_hash_axioms;
        let ghost t = self.functions_call_tree@;
        let ghost funcs = self.compiler_state.functions@;
        proof { axiom_string_key_model(); reveal_strlit("main"); }
""")
    c.after_stmt(r"self\.function_is_actually_in_use\(\"[^\"]*\", &mut functions_actually_in_use\)", """
        proof {
            let s = functions_actually_in_use@;
            assert(forall|n: Seq<char>| !inset(Set::<String>::empty(), n));
            assert(all_closed(t, s));
            assert forall|n: Seq<char>| inset(s, n) implies in_use_spec(t, funcs, n) by { assert(is_root(funcs, "main"@)); }
        }
""")
    c.loop_spec(1, r"^for i in it: self\.compiler_state\.functions\.iter\(\)$", """
            invariant
                t == self.functions_call_tree@, funcs == self.compiler_state.functions@,
                inset(functions_actually_in_use@, "main"@), //@ C12:main-in
                all_closed(t, functions_actually_in_use@), //@ C12:closed-inv
                forall|n: Seq<char>| inset(functions_actually_in_use@, n) ==> in_use_spec(t, funcs, n), //@ C12:sound-top
                forall|k: String| funcs.contains_key(k) && funcs[k].interrupt ==> inset(functions_actually_in_use@, k@)
                    || exists|j: int| it.index@ <= j < it.snapshot.remaining().len() && *(#[trigger] it.snapshot.remaining()[j]).0 == k, //@ C12,C05:interrupts-visited
                forall|j: int| 0 <= j < it.snapshot.remaining().len() ==> funcs.contains_key(*(#[trigger] it.snapshot.remaining()[j]).0) && funcs[*(it.snapshot.remaining()[j]).0] == *it.snapshot.remaining()[j].1,
""")
    c.at_block_start(r"for i in it: self\.compiler_state\.functions\.iter\(\)", """
            let ghost sa = functions_actually_in_use@;
            assert(i == it.snapshot.remaining()[it.index@]);
""")
    c.at_block_end(r"for i in it: self\.compiler_state\.functions\.iter\(\)", """
            proof {
                let sb = functions_actually_in_use@;
                assert(grows(sa, sb));
                if i.1.interrupt {
                    assert forall|n: Seq<char>| inset(sb, n) implies closed_at(t, sb, n) by {
                        if inset(sa, n) { lemma_closed_mono(t, sa, sb, n); }
                    }
                    assert(is_root(funcs, i.0@));
                    assert forall|n: Seq<char>| inset(sb, n) implies in_use_spec(t, funcs, n) by {
                        if !inset(sa, n) { assert(reachable(t, i.0@, n)); }
                    }
                }
            }
""")
    c.before(r"self\.functions_actually_in_use = functions_actually_in_use;", """
        proof {
            let s = functions_actually_in_use@;
            assert forall|n: Seq<char>| in_use_spec(t, funcs, n) implies inset(s, n) by {
                let r = choose|r: Seq<char>| is_root(funcs, r) && reachable(t, r, n);
                let k = choose|k: nat| reach(t, r, n, k);
                if r != "main"@ {
                    let x = choose|x: String| x@ == r && funcs.contains_key(x) && funcs[x].interrupt;
                    assert(inset(s, x@));
                }
                lemma_closed_contains(t, s, r, n, k);
            }
        }
""")
    fshim, fcut = common.plain_fields_shim(SourceFile(repo, "src/compile.rs"), "Function", "Function")
    if "interrupt: bool" not in fshim:
        raise Undecided("struct Function has no `interrupt: bool` field any more")
    specs = SPECS.replace("%(function_shim)s", "// R6 shim: the plain (bool / integer) fields of the real struct, mechanically\n" + fshim)
    text = common.PRELUDE + common.header_comment(NAME, cuts) + "verus! {\n" + specs + \
        "impl<'a> GeneratorState<'a> {\n" + f.text + "\n" + c.text + "\n}\n" + common.CANARY + "\n} // verus!\n"
    u.text[None] = text
    u.rewrites = common.collect_rewrites(cuts)
    u.dropped = ["R6 shims (GeneratorState, CompilerState, Function)", "R12 for-in-&map -> .iter()", "debug! logging (R1)"]
    return u
