"""U-assignarm: the `Operation::Assign` arm of generate_expr (R8 window), verified in Verus against stubs that record the byte passes: a 16-bit destination
gets its low byte and then its high byte (exactly one pass each, the source visited as `second_time` for the high byte so that its side effects are not
repeated), an 8-bit destination one pass, and every store that is indexed by a subscript parked in Y is emitted while Y still holds that subscript --
the saved Y is put back only afterwards (C01, C15)."""
import re
from vf.core import Unit
from vf.rustcut import SourceFile, Undecided, mask, match_brace
from . import common

NAME = "U-assignarm"
TOOL = "verus"
PROPS = ["C01", "C15", "C16"]
RLIMIT = 200
TRUSTED = ["verus 0.2026.09.13 + z3",
           "generate_expr, generate_assign, asm_restore_y, get_variable are stubs over a ghost account of the byte passes and of what Y holds; "
           "an element access through a general subscript parks Y in the scratch byte and loads Y with the subscript (U-subscript); `LDY cctmp` (asm_restore_y) puts the program's Y back"]

SPECS = """
pub struct Error { pub e: u8 }
%(types)s
%(variable_shim)s
pub struct CompilerState { pub x: u8 }
pub uninterp spec fn var_of(cs: &CompilerState, name: Seq<char>) -> Variable;
impl CompilerState {
    #[verifier::external_body] pub fn syntax_error(&self, message: &str, loc: usize) -> Error { unimplemented!() }
    #[verifier::external_body] pub fn get_variable(&self, name: &str) -> (r: &Variable) ensures *r == var_of(self, name@) { unimplemented!() }
}
pub struct Pass { pub left: ExprType, pub right: ExprType, pub high: bool }
pub struct Visit { pub e: Expr, pub high: bool, pub second_time: bool }
pub struct G {
    pub passes: Seq<Pass>,              // generate_assign calls, in order
    pub visits: Seq<Visit>,             // generate_expr calls, in order
    pub y_is_subscript_of: Option<Expr>,   // Y currently holds the subscript evaluated for this expression (the program's Y is parked in the scratch byte)
}
pub uninterp spec fn operand_of(e: Expr, high: bool) -> ExprType;          // what an expression evaluates to (a function of the expression and the byte asked for)
pub uninterp spec fn parks_y(e: Expr) -> bool;                             // its evaluation goes through a general subscript: Y parked, Y := subscript
pub struct GeneratorState<'a> {
    pub compiler_state: &'a CompilerState,
    pub saved_y: bool, pub tmp_in_use: bool, pub carry_flag_ok: bool,
    pub flags: FlagsState,
    pub gh: Ghost<G>,
}
#[verifier::external_body] pub fn exprtype_clone(e: &ExprType) -> (r: ExprType) ensures r == *e { unimplemented!() }
// a destination of 16 bits: a short / pointer variable, or an element of an array of shorts / of pointers
pub open spec fn wide(cs: &CompilerState, left: ExprType) -> bool {
    match left {
        ExprType::Absolute(_, eight_bits, _) => !eight_bits,
        ExprType::AbsoluteX(v) => var_of(cs, v@).var_type == VariableType::ShortPtr || var_of(cs, v@).var_type == VariableType::CharPtrPtr,
        ExprType::AbsoluteY(v) => var_of(cs, v@).var_type == VariableType::ShortPtr || var_of(cs, v@).var_type == VariableType::CharPtrPtr,
        _ => false,
    }
}
"""

STUBS = """
    #[verifier::external_body]
    pub(crate) fn generate_expr(&mut self, expr: &Expr, pos: usize, high_byte: bool, second_time: bool) -> (res: Result<ExprType, Error>)
        ensures final(self).compiler_state == old(self).compiler_state,
            res is Ok ==> res->Ok_0 == operand_of(*expr, high_byte),
            res is Ok ==> final(self).gh@.passes == old(self).gh@.passes && final(self).gh@.lhs == old(self).gh@.lhs && final(self).gh@.saved_outside == old(self).gh@.saved_outside && final(self).gh@.visits == old(self).gh@.visits.push(Visit { e: *expr, high: high_byte, second_time }),
            // an element access through a general subscript parks Y (it is rejected while Y is parked already: U-subscript)
            (res is Ok && parks_y(*expr) && !second_time) ==> !old(self).saved_y && final(self).saved_y && final(self).gh@.y_is_subscript_of == Some(*expr),
            (res is Ok && parks_y(*expr) && second_time) ==> !old(self).saved_y && final(self).saved_y && final(self).gh@.y_is_subscript_of == Some(*expr),
            (res is Ok && !parks_y(*expr)) ==> final(self).saved_y == old(self).saved_y && final(self).gh@.y_is_subscript_of == old(self).gh@.y_is_subscript_of,
    { unimplemented!() }
    #[verifier::external_body]
    pub(crate) fn generate_assign(&mut self, left: &ExprType, right: &ExprType, pos: usize, high_byte: bool) -> (res: Result<ExprType, Error>)
        requires
            // a destination reached through a parked Y is stored while Y still holds its subscript
            old(self).gh@.lhs is Some && parks_y(old(self).gh@.lhs->Some_0) && *left == operand_of(old(self).gh@.lhs->Some_0, false)
                ==> old(self).gh@.y_is_subscript_of == old(self).gh@.lhs, //@ C01:store-indexed-while-y-holds-the-subscript
        ensures final(self).compiler_state == old(self).compiler_state, final(self).saved_y == old(self).saved_y,
            final(self).gh@ == (G { passes: old(self).gh@.passes.push(Pass { left: *left, right: *right, high: high_byte }), ..old(self).gh@ }),
    { unimplemented!() }
    #[verifier::external_body]
    pub(crate) fn asm_restore_y(&mut self)
        requires old(self).saved_y,
            !old(self).gh@.saved_outside, //@ C01:assign-leaves-the-y-of-an-enclosing-expression-parked
        ensures final(self).compiler_state == old(self).compiler_state, final(self).saved_y == old(self).saved_y, final(self).tmp_in_use == old(self).tmp_in_use,
            final(self).carry_flag_ok == old(self).carry_flag_ok, final(self).flags == old(self).flags,
            final(self).gh@ == (G { y_is_subscript_of: None::<Expr>, ..old(self).gh@ }),
    { unimplemented!() }
"""

HEADER = """    fn arm_assign(&mut self, lhs: &Box<Expr>, rhs: &Box<Expr>, pos: usize, high_byte: bool) -> (res: Result<ExprType, Error>)
        requires
            old(self).gh@.passes.len() == 0, old(self).gh@.visits.len() == 0, old(self).gh@.lhs == Some(**lhs),
            // Y may have been parked by an enclosing expression (this assignment loads a parameter of a call in the middle of it)
            old(self).gh@.saved_outside == old(self).saved_y, !old(self).saved_y ==> old(self).gh@.y_is_subscript_of is None,
            old(self).saved_y ==> old(self).gh@.y_is_subscript_of is Some && old(self).gh@.y_is_subscript_of != old(self).gh@.lhs,
            !(parks_y(**lhs) && parks_y(**rhs)),          // both sides through a general subscript: rejected by the second element access (U-subscript)
        ensures
            final(self).compiler_state == old(self).compiler_state,
            // the byte passes: low (or the byte asked for), then high when the destination is 16 bits wide and the caller asked for the low byte
            res is Ok ==> ({ let left = operand_of(**lhs, high_byte); let cs = old(self).compiler_state;
                if !high_byte && wide(cs, left) {
                    final(self).gh@.passes =~= seq![Pass { left: left, right: operand_of(**rhs, false), high: false }, Pass { left: left, right: operand_of(**rhs, true), high: true }]
                } else {
                    final(self).gh@.passes =~= seq![Pass { left: left, right: operand_of(**rhs, high_byte), high: high_byte }]
                } }), //@ C01,C15:assign-writes-every-byte-of-the-destination-once
            // the source is visited again for the high byte as `second_time`: its side effects are not repeated
            res is Ok ==> forall|i: int| 2 <= i < final(self).gh@.visits.len() ==> (#[trigger] final(self).gh@.visits[i]).second_time && final(self).gh@.visits[i].high, //@ C01,C18:assign-second-visit-is-second-time
    {
        %(arm)s
    }
"""


def candidates(f):
    """16-bit stores through general subscripts, on either side"""
    out = []
    def prog(decl, body, sim, note=""):
        out.append({"source": "%s\nvoid main() { %s }\n" % (decl, body), "args": ["-O0"], "expect": {"panic": False}, "simulate": dict(sim, stack_empty=True), "note": note})
    for b in (0, 2, 3):
        prog("short t[4]; unsigned char b, ry; short s;", "Y = 1; t[b] = s; ry = Y;", {"init": {"b": b}, "init16": {"s": 0x1234}, "expect": {"t+%d" % b: 0x34, "t+%d" % (b + 4): 0x12, "ry": 1}}, "t[b] = s, b=%d (low bytes first, then high bytes)" % b)
        prog("short t[4]; unsigned char b, ry; short s;", "Y = 1; s = t[b]; ry = Y;", {"init": {"b": b}, "init_addr": {"t+%d" % b: 0x78, "t+%d" % (b + 4): 0x56}, "expect16": {"s": 0x5678}, "expect": {"ry": 1}}, "s = t[b], b=%d" % b)
        prog("short t[4]; unsigned char b, ry;", "Y = 1; t[b] = 1000; ry = Y;", {"init": {"b": b}, "expect": {"t+%d" % b: 1000 & 255, "t+%d" % (b + 4): 1000 >> 8, "ry": 1}}, "t[b] = 1000, b=%d" % b)
        prog("short t[4]; unsigned char b; short s;", "X = b; t[X] = s;", {"init": {"b": b}, "init16": {"s": 0x1234}, "expect": {"t+%d" % b: 0x34, "t+%d" % (b + 4): 0x12}}, "t[X] = s, X=%d" % b)
    d = "unsigned char a, b, r; unsigned char m[4]; unsigned char f2(unsigned char p) { return p ^ 0x55; }"
    for b in (0, 2):
        prog(d, "Y = 1; r = m[b] - f2(128); a = Y;", {"init": {"b": b}, "init_addr": {"m+%d" % b: 42}, "expect": {"r": (42 - (128 ^ 0x55)) & 255, "a": 1}}, "a parameter is loaded while Y is parked for m[b] (rejected, or right), b=%d" % b)
    return out


def cut_arm(sf, fn_span):
    s0, ob0, cb0 = fn_span
    m = mask(sf.text)
    k = re.compile(r"^\s*Operation::Assign\s*=>\s*\{", re.M).search(m, ob0, cb0)
    if not k:
        raise Undecided("generate_expr has no `Operation::Assign => {` arm")
    a = k.end() - 1
    b = match_brace(m, a)
    return sf.cut_span(a, b + 1, "generate_expr(): Expr::BinOp, arm `Operation::Assign => { .. }` (R8)")


def build(repo):
    u = Unit(NAME, TOOL, PROPS, ["src/generate/generate_statements.rs: GeneratorState::generate_expr, case Expr::BinOp, arm `Operation::Assign => { .. }` (R8)"],
             assumptions=["callees are stubs (TRUSTED): generate_assign's own text is U-assign's subject, the element access is U-subscript's",
                          "what an expression evaluates to is an uninterpreted function of the expression and the byte asked for"])
    gs = SourceFile(repo, "src/generate/generate_statements.rs")
    gm = SourceFile(repo, "src/generate/mod.rs")
    comp = SourceFile(repo, "src/compile.rs")
    arm = cut_arm(gs, gs.find_fn_span("generate_expr"))
    cuts, tys = [arm], []
    for sf, kind, name, structural in ((comp, "enum", "Operation", True), (comp, "enum", "VariableType", True), (gm, "enum", "ExprType", False), (gm, "enum", "FlagsState", False), (comp, "enum", "Expr", False)):
        c = sf.item(kind, name)
        common.r2(c, structural=structural)
        c.sub(r"pub\(crate\) enum", "pub enum", "R2-pub")
        if not structural:
            c.sub(r"#\[derive\(([^)]*)\)\]", "", "R2-derive (no derived impls needed)", expect=(0, 1))
        cuts.append(c)
        tys.append(c.text)
    vc = comp.item("struct", "Variable")
    cuts.append(vc)
    fields = re.findall(r"^\s*(?:pub(?:\([^)]*\))?\s+)?(\w+)\s*:\s*(bool|VariableType)\s*,", vc.text, re.M)
    if "var_type" not in [a for a, _ in fields]:
        raise Undecided("struct Variable no longer declares var_type")
    vshim = "pub struct Variable { %s }" % ", ".join("pub %s: %s" % x for x in fields)
    arm.sub(r"\A\s*Operation::Assign\s*=>\s*", "", "R8 the arm's pattern", expect=(0, 1), flags=0)
    arm.sub(r"\bleft\.clone\(\)", "exprtype_clone(&left)", "R11 ExprType::clone -> shim", expect=(0, 2))
    arm.sub(r"^\s*//[^\n]*\n", "", "comments dropped (one of them holds commented-out code with an unbalanced quote for the masker)", expect=(0, 12))
    text = common.PRELUDE + common.header_comment(NAME, cuts) + "verus! {\n" + (SPECS % {"types": "\n".join(tys), "variable_shim": vshim}) + \
        "impl<'a> GeneratorState<'a> {\n" + STUBS + (HEADER % {"arm": arm.text}) + "\n}\n" + common.CANARY + "\n} // verus!\n"
    text = text.replace("pub y_is_subscript_of: Option<Expr>,", "pub y_is_subscript_of: Option<Expr>,\n    pub lhs: Option<Expr>,              // the destination expression of the assignment under contract\n    pub saved_outside: bool,            // Y was parked before this assignment started (by an enclosing expression)")
    u.text[None] = text
    u.rewrites = common.collect_rewrites(cuts)
    u.dropped = ["R6 shim environment", "the other arms of generate_expr"]
    return u
