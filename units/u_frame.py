"""U-frame: frame conditions established by a scan of the function's own text (masked: comments and string literals blanked).  A Rust function can only
write a field of `self` by naming it (or by calling a method, and the methods called are listed): "this function does not touch field F" is decided by the
absence of F from its text and from the texts of the same-file helpers it calls.  Each condition becomes one trivially true / false assertion in a Verus
file, so that it is reported, ledgered and counted like every other obligation.

  push_code (inline expansion) leaves the call tree and the in-use set alone: the calls an inlined body makes stay recorded under the inline function, whose
  own entry is what links them to the callers (C12, C14: declaring a function inline changes only where its code is placed -- in particular not the storage
  overlay the linker derives from the call tree).

  Two panic sites on text the user controls are decided the same way (C16): the number written between two `@` in the source is not unwrapped / used as an
  index unchecked, and the text after `#define` is not assumed to start with a name.

  One REQUIRED pattern: in optimize(), the arm that restarts the scan at a label -- forgetting what the registers hold -- also matches an inline assembly line
  (C02, C18: the text of an `asm` statement can change any register)."""
import re
from vf.core import Unit
from vf.rustcut import SourceFile, Undecided, mask
from . import common

NAME = "U-frame"
TOOL = "verus"
PROPS = ["C12", "C14", "C16", "C02", "C18", "C03", "C06", "C08", "C09"]
RLIMIT = 10
TRUSTED = ["verus 0.2026.09.13 + z3 (the assertions are literal)", "a field of self is written only by code that names it: scan of the function's text and of the helpers it calls in the same impl"]

FRAMES = [
    # (file, impl, function, forbidden identifiers / patterns, tags, clause)
    ("src/generate/generate_asm.rs", "GeneratorState", "push_code", ["functions_call_tree", "functions_actually_in_use"], "C12,C14", "inline-expansion-leaves-the-call-tree-alone",
     "push_code names neither functions_call_tree nor functions_actually_in_use"),
    # panic sites on text the user controls (C16): the number between two `@` is whatever the source says, the text after `#define` too
    ("src/compile.rs", "CompilerState", "compile_quoted_string", [r"parse::<usize>\(\)\s*\.unwrap\(\)", r"literal_strings\s*\["], "C16", "literal-marker-checked-not-indexed",
     "compile_quoted_string neither unwraps the parse of the marker's number nor indexes the literal table with it"),
    ("src/cpp.rs", None, "process", [r"define_regex\s*\.captures\([^)]*\)\s*\.unwrap\(\)"], "C16", "define-without-a-name-is-an-error",
     "process() does not unwrap the match of the text after #define"),
    ("src/compile.rs", "CompilerState", "compile_statement_ex", [r"parse_calc\([^;]*\)\?\s*as\s+u32"], "C16,C03", "asm-size-checked-not-cast",
     "the size written in an asm statement is not cast from the calculator's i32 unchecked (a negative size becomes 4 billion bytes and overflows the branch distances)"),
    ("src/compile.rs", "CompilerState", "compile_var_decl", [r"\.parse::<u32>\(\)\s*\.unwrap\(\)", r"parse_calc\([^;]*\)\?\s*as\s+usize"], "C16", "declaration-numbers-checked-global",
     "compile_var_decl neither unwraps the parse of a bank number nor casts an array size from the calculator's i32 unchecked"),
    ("src/compile.rs", "CompilerState", "compile_func_decl", [r"\.parse::<u32>\(\)\s*\.unwrap\(\)", r"parse_calc\([^;]*\)\?\s*as\s+usize"], "C16", "declaration-numbers-checked-function",
     "compile_func_decl neither unwraps the parse of a bank number nor casts an array size unchecked"),
    ("src/compile.rs", "CompilerState", "compile_local_var_decl", [r"parse_calc\([^;]*\)\?\s*as\s+usize"], "C16", "declaration-numbers-checked-local",
     "compile_local_var_decl does not cast an array size unchecked"),
    ("src/compile.rs", "CompilerState", "compile_var_decl", [r"\bsign\s*\*\s*(?:offset|parse_int)"], "C16", "reference-offset-sign-applied-without-overflow",
     "the sign of `name - k` in an initialiser is not applied with an unchecked multiplication"),
    ("src/cpp.rs", None, "process", [r"\.read_line\(&mut \w+\)\s*\?", r"File::open\(path\)\s*\?"], "C06", "io-errors-carry-a-location",
     "an input / output failure while reading a source or opening an include is not propagated bare (it is converted into an error with file, line and includer)"),
    ("src/cpp.rs", None, "process", [r"let\s+vx\s*=\s*v\.trim_start\(\)\s*;"], "C16,C08", "macro-parameter-trimmed-on-both-sides",
     "a macro parameter is not used with its trailing blanks (it names a capture group of a regular expression)"),
    ("src/generate/generate_statements.rs", "GeneratorState", "generate_statement", [r"mapped_lines\s*\[", r"\.truncate\(256\)"], "C16", "source-listing-indexes-and-cuts-checked",
     "the source-listing block of generate_statement neither indexes the line table unchecked nor cuts a line at a fixed byte"),
    ("src/generate/generate_statements.rs", "GeneratorState", "generate_included_source_code_line", [r"last_included_position\s*\+=\s*1\b"], "C16", "source-listing-position-in-bytes",
     "the position of the source listing advances by the byte length of the character read"),
    ("src/generate/generate_statements.rs", "GeneratorState", "generate_expr", [r"-?\bl\s*\*\s*256\b"], "C16", "high-byte-offset-computed-without-overflow",
     "generate_expr does not multiply the constant of `(arr >> 8) + k` by 256 unchecked"),
]


# patterns that must be present: (file, impl, function, pattern, tags, name, clause)
REQUIRED = [
    ("src/assemble.rs", "AssemblyCode", "optimize", r"Some\(AsmLine::Label\(_\)\)\s*\|\s*Some\(AsmLine::Inline\(_, _\)\)\s*=>\s*\{[^}]*?restart", "C02,C18", "inline-assembly-restarts-the-optimizer-like-a-label",
     "in optimize(), the arm that restarts the scan (and forgets the registers) at a label is also taken at an inline assembly line"),
    ("src/compile.rs", "CompilerState", "parse_identifier", r"let (\w+) = self\.parse_expr_ex\([^;]*;(?:(?!Box::new).)*?if !\1\.1\.is_empty\(\) \{\s*return Err", "C09,C16", "subscript-literals-are-not-dropped",
     "in parse_identifier(), the literals collected by the subscript expression are not thrown away silently (their names would be taken by the next literals of the program): a subscript with a literal is rejected"),
]


def candidates(f):
    """texts that made the compiler panic: each must be answered by output or by a located error"""
    out = [{"source": src, "args": ["-O1"], "expect": {"panic": False}, "note": note} for src, note in (
        ("char *p;\nvoid main() { p = @7@; }\n", "a literal marker written in the source"), ("char *p;\nvoid main() { p = @-1@; }\n", "a negative literal marker"),
        ("#define 123\nvoid main() { }\n", "#define without a name"), ("#define\nvoid main() { }\n", "#define alone"),
        ("unsigned char i;\nvoid main() { asm(\"nop\", -1); if (i) i = 1; }\n", "negative size of inline assembly before a branch"),
        ("char arr[4]; unsigned char r;\nvoid main() { r = (arr >> 8) + 16777216; }\n", "(arr >> 8) + 2^24"), ("char arr[4]; unsigned char r;\nvoid main() { r = (arr >> 8) - 16777216; }\n", "(arr >> 8) - 2^24"),
        ("char a[4];\nvoid main() { X = a[\"abc\" + 1]; }\n", "a literal plus a constant as a subscript"),
        ("const char a[] = {1}; const char s[] = {a - -2147483648}; void main() { }\n", "name - INT_MIN in an initialiser"),
        ("short a[3]; void main() { a[2147483647] = 4; }\n", "constant subscript near INT_MAX"), ("superchip char su[4]; char c; void main() { c = su[2147483647]; }\n", "constant subscript near INT_MAX on split-port RAM"),
        ("char a[4]; char c; void main() { c = a[\"s\" >> 8]; }\n", "a shifted literal as a subscript"),
        ("bank99999999999 const char a[2] = {1,2}; void main() {}\n", "bank number that does not fit"), ("bank99999999999 void main() {}\n", "bank number of a function that does not fit"),
        ("short a[-1]; char b; void main() { b = sizeof(a); }\n", "negative array size"),
        ("#define MAX(a , b) ((a) > (b) ? (a) : (b))\nchar x; void main() { x = MAX(1, 2); }\n", "blank before the comma of a macro parameter list"),
        ("#define F(a,a) a\nvoid main() { }\n", "duplicate macro parameter"), ("#define F(a,) a\nvoid main() { }\n", "empty macro parameter"))] + [
        {"source": src, "args": ["-O0", "--insert-code"], "expect": {"panic": False}, "note": note} for src, note in (
        ("char x;\nvoid main() {\n  x = 1; }\n", "--insert-code: statement on the last line"), ("char x; void main() { x='\u20ac';x='\u20ac';\n}\n", "--insert-code: multi-byte character"),
        ("char x,xx,xxx; void main() {\n" + "x=1;" * 61 + "xxx='\u00e9';" + "x=2;" * 10 + "\nx=3;\nx=4;\n}\n", "--insert-code: long line cut inside a character"))] + [
        {"source": "char x; void main() { x = 1; }\n", "args": ["-O0", "-D", opt], "expect": {"panic": False}, "note": "-D %s" % opt} for opt in ("A(=1", "A[=1")]
    out.append({"source": "char t[4]; char c; char *s; char f(char *p) { return 0; }\nvoid main() { c = t[f(\"a\")]; s = \"zz\"; }\n", "args": ["-O0"], "expect": {"panic": False, "is_error": True},
                "note": "a literal in a subscript, then another literal: f must not receive the text of the second"})
    return out


def build(repo):
    u = Unit(NAME, TOOL, PROPS, ["src/generate/generate_asm.rs: GeneratorState::push_code (frame: scan)"],
             assumptions=["syntactic frame conditions: sound for direct field accesses; a write through a helper is caught only if the helper is a method of the same impl in the same file (its text is scanned too)"])
    fns, cuts = [], []
    for rel, impl, fn, forbidden, tags, name, clause in FRAMES:
        sf = SourceFile(repo, rel)
        c = sf.fn(fn, within=impl) if impl else sf.fn(fn)
        cuts.append(c)
        texts = [mask(c.text)]
        # same-file helpers called as self.<name>(
        for h in (sorted(set(re.findall(r"\bself\.(\w+)\(", texts[0]))) if impl else []):
            try:
                texts.append(mask(sf.fn(h, within=impl).text))
            except Undecided:
                pass
        hit = [w for w in forbidden if any(re.search(w if re.search(r"[\\\[\(]", w) else r"\b%s\b" % re.escape(w), t) for t in texts)]
        fns.append("// %s::%s -- %s%s\nproof fn frame_%s_%d() { assert(%s); //@ %s:%s\n}\n" % (impl or rel, fn, clause, " (found)" if hit else "", fn, len(fns), "false" if hit else "true", tags, name))
    for rel, impl, fn, pat, tags, name, clause in REQUIRED:
        sf = SourceFile(repo, rel)
        c = sf.fn(fn, within=impl) if impl else sf.fn(fn)
        cuts.append(c)
        # comments are kept for this one (the pattern spans a comment); string literals cannot contain it
        ok = re.search(pat, c.text, re.S) is not None
        fns.append("// %s::%s -- %s\nproof fn required_%s() { assert(%s); //@ %s:%s\n}\n" % (impl or rel, fn, clause, fn, "true" if ok else "false", tags, name))
    u.text[None] = common.PRELUDE + common.header_comment(NAME, cuts) + "verus! {\n" + "\n".join(fns) + common.CANARY + "\n} // verus!\n"
    u.rewrites = []
    u.dropped = ["everything: only the presence of the identifiers is looked at"]
    return u
