"""U-sign: every `Rule::var_sign => ...` arm of src/compile.rs (globals, locals, parameters, function return types), R8 windows verified in Verus: the
signedness recorded for the declaration is `signed` exactly when the keyword written is `signed` (the grammar admits `signed` | `unsigned` there).
Signedness selects the comparison branches and the sign extension the generator emits (C01) and equivalent forms of a declaration behave alike (C15)."""
import re
from vf.core import Unit
from vf.rustcut import SourceFile, Undecided, mask, match_brace
from . import common

NAME = "U-sign"
TOOL = "verus"
PROPS = ["C01", "C15"]
RLIMIT = 50
TRUSTED = ["verus 0.2026.09.13 + z3", "R15: `a.as_str().eq(\"lit\")` is equality of the two texts (str::eq)", "the grammar rule var_sign = { \"signed\" | \"unsigned\" } (pest) delivers the keyword's text"]

SPECS = """
// R15 shim: str::eq is equality of the texts
#[verifier::external_body]
pub fn str_eq(a: &str, b: &str) -> (r: bool) ensures r == (a@ == b@) { a.eq(b) }
pub open spec fn kw_signed() -> Seq<char> { "signed"@ }
"""


def candidates(f):
    """signed / unsigned declarations whose signedness decides a branch: function results, globals, locals"""
    out = []
    def prog(src, sim, note=""):
        out.append({"source": src, "args": ["-O0"], "expect": {"panic": False}, "simulate": dict(sim, stack_empty=True), "note": note})
    prog("unsigned char r; signed char f() { return -1; }\nvoid main() { r = 0; if (f() < 1) r = 1; }\n", {"expect": {"r": 1}}, "signed function result")
    prog("unsigned char r; unsigned char f() { return 255; }\nvoid main() { r = 0; if (f() < 1) r = 1; }\n", {"expect": {"r": 0}}, "unsigned function result")
    prog("unsigned char r; signed char g;\nvoid main() { r = 0; g = -1; if (g < 1) r = 1; }\n", {"expect": {"r": 1}}, "signed global")
    prog("unsigned char r; unsigned char g;\nvoid main() { r = 0; g = 255; if (g < 1) r = 1; }\n", {"expect": {"r": 0}}, "unsigned global")
    prog("unsigned char r;\nvoid main() { signed char l; r = 0; l = -1; if (l < 1) r = 1; }\n", {"expect": {"r": 1}}, "signed local")
    prog("unsigned char r;\nvoid main() { unsigned char l; r = 0; l = 255; if (l < 1) r = 1; }\n", {"expect": {"r": 0}}, "unsigned local")
    prog("unsigned char r; void t(signed char p) { if (p < 1) r = 1; }\nvoid main() { r = 0; t(-1); }\n", {"expect": {"r": 1}}, "signed parameter")
    prog("unsigned char r; void t(unsigned char p) { if (p < 1) r = 1; }\nvoid main() { r = 0; t(255); }\n", {"expect": {"r": 0}}, "unsigned parameter")
    return out


def build(repo):
    u = Unit(NAME, TOOL, PROPS, ["src/compile.rs: every `Rule::var_sign =>` arm (compile_var_decl, compile_statement local declarations, compile_func_decl return type and parameters), R8"],
             assumptions=["R15 str::eq; the pest rule var_sign delivers `signed` or `unsigned`",
                          "what the recorded signedness is used for (branch selection, sign extension) is the subject of U-branch / U-condex / U-signext"])
    comp = SourceFile(repo, "src/compile.rs")
    m = mask(comp.text)
    arms = [x for x in re.finditer(r"Rule::var_sign\s*=>\s*", m)]
    if len(arms) < 4:
        raise Undecided("fewer than 4 `Rule::var_sign =>` arms in src/compile.rs (%d): the declaration decoders have changed shape" % len(arms))
    cuts, fns = [], []
    for n, k in enumerate(arms):
        a = k.end()
        if m[a] != "{":
            raise Undecided("`Rule::var_sign =>` arm #%d is not a block" % (n + 1))
        b = match_brace(m, a)
        c = comp.cut_span(a, b + 1, "compile.rs: `Rule::var_sign =>` arm #%d (R8)" % (n + 1))
        c.sub(r"\A\s*Rule::var_sign\s*=>\s*", "", "R8 the arm's pattern", expect=(0, 1), flags=0)
        mm = re.search(r"\b(\w+) = (\w+)\.as_str\(\)\.eq\((\"[^\"]*\")\);", c.text)
        if not mm:
            raise Undecided("`Rule::var_sign =>` arm #%d does not decode the keyword as `<flag> = <pair>.as_str().eq(\"..\")`" % (n + 1))
        flag, pair = mm.group(1), mm.group(2)
        c.sub(r"\b%s\.as_str\(\)\.eq\((\"[^\"]*\")\)" % re.escape(pair), r"str_eq(keyword, \1)", "R15 <pair>.as_str().eq(\"lit\") -> shim over the keyword's text (R8: the pair's text is the window's parameter)", expect=1)
        others = sorted(set(re.findall(r"\b(\w+) = ", c.text)) - {flag})
        decl = "".join("let mut %s: bool = false; " % o for o in others)
        cuts.append(c)
        fns.append("""
fn var_sign_arm_%(n)d(keyword: &str) -> (r: bool)
    ensures r == (keyword@ == kw_signed()), //@ C01,C15:declared-signedness-is-the-keyword-written
{
    let mut %(flag)s: bool = false; %(decl)s
    %(body)s
    %(flag)s
}
""" % {"n": n + 1, "flag": flag, "decl": decl, "body": c.text})
    u.text[None] = common.PRELUDE + common.header_comment(NAME, cuts) + "verus! {\n" + SPECS + "\n".join(fns) + common.CANARY + "\n} // verus!\n"
    u.rewrites = common.collect_rewrites(cuts)
    u.dropped = ["everything of the declaration decoders but the var_sign arms"]
    return u
