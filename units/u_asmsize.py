"""U-asmsize: the size an `asm("...", n)` statement declares, as the statement parser reads it -- the `let size = ..` expression of the asm_statement arm of
compile_statement cut as a window (R8) and verified in Verus against pest shims: the size recorded in the statement is exactly the constant written
(0 included: a comment or a directive assembles to no byte), any constant outside 0..=0xffff is an error, and no size written is `None` (the generator's
default, U-asm inline-line) (C04: inline assembly is counted at its declared size; C16: no cast of a negative or oversized constant)."""
import re
from vf.core import Unit
from vf.rustcut import SourceFile, Undecided, mask, match_brace
from . import common

NAME = "U-asmsize"
TOOL = "verus"
PROPS = ["C04", "C03", "C16"]
RLIMIT = 50
TRUSTED = ["verus 0.2026.09.13 + z3", "R6 shims of pest Pairs / Pair (next, into_inner); parse_calc is a stub returning the value of the constant expression (its own text: U-calc)",
           "R15: `(a..=b).contains(&n)` is `a <= n && n <= b` (std definition of RangeInclusive::contains)"]

SPECS = """
// std: bool::then_some (definition from the standard library documentation)
pub assume_specification<T> [bool::then_some::<T>] (b: bool, t: T) -> (r: Option<T>) ensures r == (if b { Some(t) } else { Option::<T>::None });
pub struct Error { pub e: u8 }
pub struct Pair { pub id: int }
pub struct Pairs { pub items: Ghost<Seq<Pair>> }
pub uninterp spec fn calc_value(p: Pair) -> i32;           // the value of the constant expression under this pair (when it has one)
impl Pair {
    #[verifier::external_body] pub fn into_inner(self) -> (r: Pairs) ensures r.items@ == seq![self] { unimplemented!() }      // the calculator is handed the inside of the pair: one expression
}
impl Pairs {
    #[verifier::external_body] pub fn next(&mut self) -> (r: Option<Pair>)
        ensures old(self).items@.len() == 0 ==> r is None && final(self).items@ == old(self).items@,
            old(self).items@.len() > 0 ==> r == Some(old(self).items@[0]) && final(self).items@ == old(self).items@.subrange(1, old(self).items@.len() as int),
    { unimplemented!() }
}
pub struct CompilerState { pub x: u8 }
impl CompilerState {
    #[verifier::external_body] pub fn parse_calc(&self, p: Pairs) -> (r: Result<i32, Error>) ensures (r is Ok && p.items@.len() == 1) ==> r->Ok_0 == calc_value(p.items@[0]) { unimplemented!() }
    #[verifier::external_body] pub fn syntax_error(&self, m: &str, pos: usize) -> (r: Error) { unimplemented!() }
"""


def candidates(f):
    def prog(stmts, size, note):
        return {"source": "char x;\nvoid main() { %s x = 1; }\n" % stmts, "args": ["-O0"], "expect": {"panic": False, "must_compile": True, "stdout_contains": "FUNCTION main size=%d" % size}, "note": note}
    return [prog('asm("; marker", 0);', 4, "declared size 0"), prog('asm("NOP", 1);', 5, "declared size 1"), prog('asm("JSR there");', 7, "no size: the default of 3"), prog('asm("; a", 0); asm("; b", 0); asm("NOP", 1);', 5, "two lines of size 0")]


def build(repo):
    u = Unit(NAME, TOOL, PROPS, ["src/compile.rs: CompilerState::compile_statement, arm Rule::asm_statement: the `let size = ..` expression (R8)"],
             assumptions=["pest shims; parse_calc is a stub (the calculator is U-calc's subject)", "what the generator does with the size is U-asm (inline-line) and U-csleep (asm statement)"])
    comp = SourceFile(repo, "src/compile.rs")
    m = comp.masked
    arm = re.compile(r"Rule::asm_statement\s*=>\s*\{").search(m)
    if not arm:
        raise Undecided("arm Rule::asm_statement not found")
    ae = match_brace(m, arm.end() - 1)
    st = re.compile(r"let size = ").search(m, arm.end(), ae)
    if not st:
        raise Undecided("asm_statement arm: `let size = ` not found")
    # the statement ends at the first `;` at depth 0
    depth, k = 0, st.end()
    while k < ae:
        ch = m[k]
        if ch in "({[":
            depth += 1
        elif ch in ")}]":
            depth -= 1
        elif ch == ";" and depth == 0:
            break
        k += 1
    win = comp.cut_span(st.start(), k + 1, "compile_statement(): asm_statement arm, `let size = ..;` (R8)")
    win.sub(r"!\((-?\w+)\.\.=(\w+)\)\.contains\(&(\w+)\)", r"!(\1 <= \3 && \3 <= \2)", "R15 RangeInclusive::contains -> the two comparisons", expect=(0, 2))
    win.sub(r"(?<!!)\((-?\w+)\.\.=(\w+)\)\.contains\(&(\w+)\)", r"(\1 <= \3 && \3 <= \2)", "R15 RangeInclusive::contains -> the two comparisons", expect=(0, 2))
    fn = """
    // R8: the size expression of the asm_statement arm, verbatim; `px` is the iterator over what follows the quoted text
    pub fn asm_size(&self, px: &mut Pairs, pos: usize) -> (res: Result<Option<u32>, Error>)
        ensures
            (res is Ok && old(px).items@.len() == 0) ==> res->Ok_0 is None, //@ C04:asm-statement-without-a-size-has-none
            (res is Ok && old(px).items@.len() > 0) ==> 0 <= calc_value(old(px).items@[0]) <= 0xffff
                && res->Ok_0 == Some(calc_value(old(px).items@[0]) as u32), //@ C04,C03,C16:asm-statement-records-the-size-written
    {
        %s
        Ok(size)
    }
}
""" % win.text
    u.text[None] = common.PRELUDE + common.header_comment(NAME, [win]) + "verus! {\n" + SPECS + fn + common.CANARY + "\n} // verus!\n"
    u.rewrites = common.collect_rewrites([win])
    u.dropped = ["the rest of compile_statement"]
    return u
