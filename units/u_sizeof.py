"""U-sizeof: CompilerState::parse_sizeof, verbatim against pest shims (C10: sizeof gives the object's size in bytes)."""
import re
from vf.core import Unit
from vf.rustcut import SourceFile, Undecided
from . import common

NAME = "U-sizeof"
TOOL = "verus"
PROPS = ["C10", "C16"]
RLIMIT = 100
TRUSTED = ["verus 0.2026.09.13 + z3", "A-vstd", "A-spec-hash-str", "R6 shims of pest::iterators::{Pair, Pairs}: as_rule / as_str / as_span / next"]

SPECS = """
use vstd::std_specs::hash::*;
use std::collections::HashMap;
#[verifier::external_body]
pub proof fn axiom_string_key_model() ensures obeys_key_model::<String>() {}
#[verifier::external_body]
pub proof fn axiom_str_borrow_map<V>(m: Map<String, V>, k: &str)
    ensures contains_borrowed_key(m, k) <==> (exists|x: String| x@ == k@ && m.contains_key(x)),
            forall|v: V| maps_borrowed_key_to_value(m, k, v) <==> (exists|x: String| x@ == k@ && m.contains_key(x) && m[x] == v) {}
#[verifier::external_body]
pub proof fn axiom_string_ext(a: String, b: String) ensures a@ == b@ ==> a == b {}
// R15 shims
pub open spec fn has_star(s: Seq<char>) -> bool { exists|i: int| 0 <= i < s.len() && s[i] == '*' }
#[verifier::external_body] pub fn str_contains_star(s: &str) -> (r: bool) ensures r == has_star(s@) { s.contains("*") }
#[verifier::external_body] pub fn str_eq(a: &str, b: &str) -> (r: bool) ensures r == (a@ == b@) { a == b }
#[derive(Copy, Clone, PartialEq, Eq, Structural)]
pub enum Rule { primary_var_type, identifier, other }
pub struct Error { pub e: u8 }
pub struct Span { pub s: usize }
impl Span { pub fn start(&self) -> usize { self.s } }
pub struct Pair { pub rule: Rule, pub text: String, pub s: usize }
impl Pair {
    pub fn as_rule(&self) -> (r: Rule) ensures r == self.rule { self.rule }
    #[verifier::external_body] pub fn as_str(&self) -> (r: &str) ensures r@ == self.text@ { self.text.as_str() }
    pub fn as_span(&self) -> (r: Span) { Span { s: self.s } }
}
pub struct Pairs { pub first: Option<Pair> }
impl Pairs {
    #[verifier::external_body] pub fn next(&mut self) -> (r: Option<Pair>) ensures r == old(self).first, final(self).first is None { self.first.take() }
}
%(vartype)s
pub struct Variable { pub var_type: VariableType, pub var_const: bool, pub size: usize }       // R6: the fields parse_sizeof reads
pub struct CompilerState { pub variables: HashMap<String, Variable> }
impl CompilerState { #[verifier::external_body] pub fn syntax_error(&self, message: &str, loc: usize) -> Error { unimplemented!() } }

// ---- oracle: size in bytes of an object of the C subset (2-byte pointers) ---------------------------------------------------
pub open spec fn object_size(v: Variable) -> int {
    match v.var_type {
        VariableType::Char => 1,
        VariableType::Short => 2,
        VariableType::CharPtr => if v.var_const { v.size as int } else { 2 },      // an array of char (const address) or a pointer variable
        VariableType::ShortPtr => 2 * v.size,                                        // array of shorts
        VariableType::CharPtrPtr => 2 * v.size,                                      // array of pointers
    }
}
pub open spec fn type_size(t: Seq<char>) -> Option<int> {
    if has_star(t) { Some(2int) } else if t == "char"@ { Some(1int) } else if t == "short"@ || t == "short int"@ || t == "int"@ { Some(2int) } else { None }
}
pub open spec fn var_named(m: Map<String, Variable>, n: Seq<char>) -> Option<Variable> {
    if exists|x: String| x@ == n && m.contains_key(x) { let x = choose|x: String| x@ == n && m.contains_key(x); Some(m[x]) } else { None }
}
"""


def build(repo):
    u = Unit(NAME, TOOL, PROPS, ["src/compile.rs: CompilerState::parse_sizeof"],
             assumptions=["R6 pest shims (Pair/Pairs); A-spec-hash-str; oracle = object sizes of the C subset with 2-byte pointers", "array sizes are < 2^24 (no overflow of size * 2)",
                          "the statement-level twin generate_sizeof and integer-literal parsing (parse_int) are not under contract"])
    comp = SourceFile(repo, "src/compile.rs")
    vt = comp.item("enum", "VariableType")
    common.r2(vt, structural=True)
    ps = comp.fn("parse_sizeof", within="CompilerState")
    cuts = [vt, ps]
    ps.sub(r"\bs\.contains\(\"\*\"\)", "str_contains_star(s)", "R15 contains(\"*\")", expect=(0, 2))
    ps.sub(r"\bs == (\"[^\"]*\")", r"str_eq(s, \1)", "R15 &str == literal")
    ps.sub(r"Pairs<'a, Rule>", "Pairs", "R6 shim type")
    common.r14_map_or(ps)
    ps.set_header("""fn parse_sizeof(&self, mut pairs: Pairs) -> (res: Result<i32, Error>)
        requires
            pairs.first is Some, pairs.first->Some_0.rule == Rule::primary_var_type || pairs.first->Some_0.rule == Rule::identifier,
            forall|x: String| self.variables@.contains_key(x) ==> (#[trigger] self.variables@[x]).size < 0x100_0000,
        ensures
            pairs.first->Some_0.rule == Rule::primary_var_type ==> (match type_size(pairs.first->Some_0.text@) { Some(n) => res is Ok && res->Ok_0 == n, None => res is Err }), //@ C10:sizeof-type
            pairs.first->Some_0.rule == Rule::identifier ==> (match var_named(self.variables@, pairs.first->Some_0.text@) { Some(v) => res is Ok && res->Ok_0 == object_size(v), None => res is Err }), //@ C10:sizeof-variable
""", expect_sig="fn parse_sizeof(&self, mut pairs: Pairs")
    ps.body_start("""        broadcast use vstd::std_specs::hash::group_hash_axioms;
        proof { axiom_string_key_model(); reveal_strlit("char"); reveal_strlit("short"); reveal_strlit("short int"); reveal_strlit("int");
                assert forall|x: String, y: String| #[trigger] x@ == #[trigger] y@ implies x == y by { axiom_string_ext(x, y); } }
        let ghost p0 = pairs.first->Some_0;""")
    ps.all_before(r"self\.variables\.get\(s\)", "                proof { axiom_str_borrow_map(self.variables@, s); }", expect=(0, 3))
    text = common.PRELUDE + common.header_comment(NAME, cuts) + "verus! {\n" + (SPECS % {"vartype": vt.text}) + "impl CompilerState {\n" + ps.text + "\n}\n" + common.CANARY + "\n} // verus!\n"
    u.text[None] = text
    u.rewrites = common.collect_rewrites(cuts)
    u.dropped = ["R6 shims (Pair, Pairs, CompilerState, Variable)"]
    return u
