"""U-assign: GeneratorState::generate_assign whole (every destination kind x every source kind, one byte at a time), verified in Verus against
stubs of asm()/sasm() that execute each emitted instruction on a ghost 6502 (A, X, Y, cctmp, stack, the last store, and WHICH VALUE the N/Z flags
currently describe).  Postcondition: the destination holds the source's value, the other registers / cctmp / a live accumulator are kept, the
stack is balanced, and the generator's belief about N/Z (`self.flags`) is true afterwards (C01; C15 through `x = y` forms; C16)."""
import re
from vf.core import Unit
from vf.rustcut import SourceFile, Undecided
from . import common

NAME = "U-assign"
TOOL = "verus"
PROPS = ["C01", "C15", "C16"]
RLIMIT = 300
TRUSTED = ["verus 0.2026.09.13 + z3", "A-isa: LDA/LDX/LDY/TAX/TAY/TXA/TYA/PLA set N/Z from the value moved, STA/STX/STY/PHA leave them (MOS datasheet)",
           "asm()'s own contract (operand text, sizes, ports, rejections) is U-asm's subject", "A-noalias: distinct operand expressions designate distinct cells"]

SPECS = """
pub struct Error { pub e: u8 }
%(types)s
use AsmMnemonic::*;
pub struct Variable { pub var_type: VariableType, pub signed: bool, pub var_const: bool, pub size: usize, pub memory: VariableMemory }
pub struct CompilerState { pub x: u8 }
impl CompilerState {
    pub uninterp spec fn var(&self, name: Seq<char>) -> Variable;
    #[verifier::external_body] pub fn get_variable(&self, name: &str) -> (r: &Variable) ensures *r == self.var(name@) { unimplemented!() }
    #[verifier::external_body] pub fn syntax_error(&self, message: &str, loc: usize) -> Error { unimplemented!() }
    #[verifier::external_body] pub fn compiler_error(&self, message: &str, loc: usize) -> Error { unimplemented!() }
    #[verifier::external_body] pub fn warning(&self, message: &str, loc: usize) { }
}
// ---- ghost 6502 ------------------------------------------------------------------------------------------------------------------
pub type Val = int;
pub struct M { pub a: Val, pub x: Val, pub y: Val, pub tmp: Val, pub stack: Seq<Val>,
               pub nz: Option<Val>,                       // the value N/Z currently describe
               pub stored: Option<(ExprType, bool, Val)> } // the last store to a memory operand: (operand, high byte?, value)
pub uninterp spec fn mem(e: ExprType, hb: bool) -> Val;       // what a memory operand held on entry
pub uninterp spec fn imm(v: i32, hb: bool) -> Val;            // the byte of a constant
pub open spec fn cell(g: M, e: ExprType, hb: bool) -> Val {
    match g.stored { Some((e2, hb2, v)) => if e2 == e && hb2 == hb { v } else { mem(e, hb) }, None => mem(e, hb) }
}
pub open spec fn bv(g: M, e: ExprType, hb: bool) -> Val {
    match e { ExprType::Immediate(v) => imm(v, hb), ExprType::A(_) => g.a, ExprType::Tmp(_) => g.tmp, ExprType::X => g.x, ExprType::Y => g.y, _ => cell(g, e, hb) }
}
pub open spec fn scratch_exempt(left: ExprType, right: ExprType) -> bool { (left is A && (right is X || right is Y)) || left is Tmp }
pub open spec fn is_mem(e: ExprType) -> bool { e is Absolute || e is AbsoluteX || e is AbsoluteY }
pub open spec fn step(g: M, m: AsmMnemonic, e: ExprType, hb: bool) -> M {
    if m == LDA { M { a: bv(g, e, hb), nz: Some(bv(g, e, hb)), ..g } }
    else if m == LDX { M { x: bv(g, e, hb), nz: Some(bv(g, e, hb)), ..g } }
    else if m == LDY { M { y: bv(g, e, hb), nz: Some(bv(g, e, hb)), ..g } }
    else if m == STA { if e is Tmp { M { tmp: g.a, ..g } } else { M { stored: Some((e, hb, g.a)), ..g } } }
    else if m == STX { if e is Tmp { M { tmp: g.x, ..g } } else { M { stored: Some((e, hb, g.x)), ..g } } }
    else if m == STY { if e is Tmp { M { tmp: g.y, ..g } } else { M { stored: Some((e, hb, g.y)), ..g } } }
    else if m == TAX { M { x: g.a, nz: Some(g.a), ..g } }
    else if m == TAY { M { y: g.a, nz: Some(g.a), ..g } }
    else if m == TXA { M { a: g.x, nz: Some(g.x), ..g } }
    else if m == TYA { M { a: g.y, nz: Some(g.y), ..g } }
    else if m == PHA { M { stack: g.stack.push(g.a), ..g } }
    else if m == PLA { M { a: g.stack.last(), nz: Some(g.stack.last()), stack: g.stack.drop_last(), ..g } }
    else { g }
}
pub struct GeneratorState<'a> {
    pub compiler_state: &'a CompilerState,
    pub flags: FlagsState, pub acc_in_use: bool, pub tmp_in_use: bool, pub carry_flag_ok: bool, pub saved_y: bool,
    pub gh: Ghost<M>,
}
pub open spec fn plain_same(a: &GeneratorState, b: &GeneratorState) -> bool {
    a.compiler_state == b.compiler_state && a.flags == b.flags && a.acc_in_use == b.acc_in_use && a.tmp_in_use == b.tmp_in_use && a.carry_flag_ok == b.carry_flag_ok && a.saved_y == b.saved_y
}
// C01: the generator's belief about N/Z is true: they are those of the operand it names (its low byte / the 8-bit value)
pub open spec fn belief_true(f: FlagsState, g: M) -> bool {
    match f {
        FlagsState::X => g.nz == Some(g.x),
        FlagsState::Y => g.nz == Some(g.y),
        FlagsState::A => g.nz == Some(g.a),
        FlagsState::Absolute(v, eb, off) => g.nz == Some(cell(g, ExprType::Absolute(v, eb, off), false)),
        FlagsState::AbsoluteX(s) => g.nz == Some(cell(g, ExprType::AbsoluteX(s), false)),
        FlagsState::AbsoluteY(s) => g.nz == Some(cell(g, ExprType::AbsoluteY(s), false)),
        _ => true,
    }
}
"""

STUBS = """
    // ---- stubs: every emitted instruction is executed on the ghost machine -----------------------------------------------------------
    #[verifier::external_body]
    pub(crate) fn asm(&mut self, mnemonic: AsmMnemonic, operand: &ExprType, pos: usize, high_byte: bool) -> (res: Result<bool, Error>)
        requires
            mnemonic == LDA || mnemonic == LDX || mnemonic == LDY || mnemonic == STA || mnemonic == STX || mnemonic == STY, //@ C01:assign-only-loads-and-stores
            !(operand is X) && !(operand is Y) && !(operand is Nothing) && !(operand is Label) && !(operand is A), //@ C16:assign-asm-operand-kind
            (mnemonic == STA || mnemonic == STX || mnemonic == STY) ==> !(operand is Immediate), //@ C16:assign-no-store-to-constant
        ensures plain_same(old(self), final(self)),
            res is Ok ==> final(self).gh@ == step(old(self).gh@, mnemonic, *operand, high_byte),
    { unimplemented!() }
    #[verifier::external_body]
    pub(crate) fn sasm(&mut self, mnemonic: AsmMnemonic) -> (res: Result<bool, Error>)
        requires
            mnemonic == PHA || mnemonic == PLA || mnemonic == TAX || mnemonic == TAY || mnemonic == TXA || mnemonic == TYA, //@ C01:assign-only-known-implied
            mnemonic == PLA ==> old(self).gh@.stack.len() > 0, //@ C01:assign-pla-has-pha
        ensures plain_same(old(self), final(self)), res is Ok, final(self).gh@ == step(old(self).gh@, mnemonic, ExprType::Nothing, false),
    { unimplemented!() }
"""

HEADER = """pub(crate) fn generate_assign%(suffix)s(
        &mut self,
        left: &ExprType,
        right: &ExprType,
        pos: usize,
        high_byte: bool,
    ) -> (res: Result<ExprType, Error>)
        requires
            %(case)s,      // one of the cases of lemma cases_cover (the same text is verified once per case)
            old(self).gh@.stored is None,
            !(right is Label),      // a label is never an operand of an assignment (the parser has no such expression)
            belief_true(old(self).flags, old(self).gh@),          // C01's invariant, assumed on entry and proved on exit
            // an operand in the accumulator is marked live, and N/Z describe it (it was just computed there: caller obligation, assumed)
            right is A ==> (old(self).acc_in_use && old(self).gh@.nz == Some(old(self).gh@.a)),
            // a scratch destination is requested only when the accumulator is free or is the source (holds at the call sites: the 16-bit comparison
            // rejects a live accumulator before it gets here)
            (left is Tmp && !(right is A)) ==> !old(self).acc_in_use,
        ensures
            final(self).compiler_state == old(self).compiler_state,
            // the destination holds the value of the source (for this byte)
            (res is Ok && left is X) ==> final(self).gh@.x == bv(old(self).gh@, *right, high_byte), //@ C01,C15:assign-value-x
            (res is Ok && left is Y) ==> final(self).gh@.y == bv(old(self).gh@, *right, high_byte), //@ C01,C15:assign-value-y
            (res is Ok && left is A) ==> (res->Ok_0 is A && final(self).gh@.a == bv(old(self).gh@, *right, high_byte)), //@ C01:assign-value-a
            (res is Ok && left is Tmp) ==> (res->Ok_0 is Tmp && final(self).gh@.tmp == bv(old(self).gh@, *right, high_byte)), //@ C01:assign-value-tmp
            (res is Ok && is_mem(*left)) ==> final(self).gh@.stored == Some((*left, high_byte, bv(old(self).gh@, *right, high_byte))), //@ C01,C15:assign-value-memory
            // nothing else is disturbed
            (res is Ok && !(left is X)) ==> final(self).gh@.x == old(self).gh@.x, //@ C01:assign-x-kept
            (res is Ok && !(left is Y)) ==> final(self).gh@.y == old(self).gh@.y, //@ C01:assign-y-kept
            (res is Ok && !(left is Tmp)) ==> final(self).gh@.tmp == old(self).gh@.tmp, //@ C01:assign-cctmp-kept
            (res is Ok && !is_mem(*left)) ==> final(self).gh@.stored is None, //@ C01:assign-no-stray-store
            res is Ok ==> final(self).gh@.stack == old(self).gh@.stack, //@ C01:assign-stack-balanced
            (res is Ok && old(self).acc_in_use && !(right is A) && !(left is A)) ==> final(self).gh@.a == old(self).gh@.a, //@ C01:assign-live-accumulator-kept
            // and the generator's belief about N/Z is true
            // (scratch destinations filled from a register -- A from X/Y, or cctmp -- are exempt: the function does not touch the belief there and each of its
            //  call sites overwrites it before anything consumes it: generate_ternary / generate_return end in a label or RTS, the 16-bit comparison loads the high byte next)
            (res is Ok && !scratch_exempt(*left, *right)) ==> belief_true(final(self).flags, final(self).gh@), //@ C01:assign-flags-belief-true
"""


def candidates(f):
    """Assignments between every pair of locations, followed by a test of the destination (so that a wrong belief about N/Z shows), run on the 6502
    interpreter; the stack must be balanced."""
    out = []
    def prog(decl, stmt, sim, note=""):
        out.append({"source": "%s\nvoid main() { %s }\n" % (decl, stmt), "args": ["-O0"], "expect": {"panic": False}, "simulate": dict(sim, stack_empty=True), "note": note})
    locs = {"a": ("init", "a"), "X": ("x", None), "Y": ("y", None), "arr[X]": ("init_addr", "arr+1"), "arr[Y]": ("init_addr", "arr+2")}
    decl = "unsigned char a, b, r, arr[4];"
    for dst in ("a", "X", "Y", "arr[X]", "arr[Y]"):
        for src in ("a", "b", "X", "Y", "arr[X]", "arr[Y]", "7", "0"):
            if dst == src:
                continue
            for v in (0, 9):
                sim = {"init": {"a": 1 if dst != "a" else 5, "b": v}, "x": 1, "y": 2, "init_addr": {"arr+1": 3, "arr+2": 4}}
                # place v in the source
                if src == "a": sim["init"]["a"] = v
                elif src == "b": sim["init"]["b"] = v
                elif src == "X":
                    if dst in ("arr[X]",) : continue
                    sim["x"] = v if dst not in ("arr[X]",) else 1
                elif src == "Y":
                    if dst in ("arr[Y]",): continue
                    sim["y"] = v
                elif src == "arr[X]": sim["init_addr"]["arr+1"] = v
                elif src == "arr[Y]": sim["init_addr"]["arr+2"] = v
                else: v = int(src)
                if (src == "X" and "X]" in dst) or (src == "Y" and "Y]" in dst):
                    continue
                if (dst == "X" and src == "arr[X]") or (dst == "Y" and src == "arr[Y]"):
                    pass
                # a first assignment gives the flags a belief about the destination, the second one must not leave it stale
                stmt = "r = 0; %s = 5; %s = %s; if (%s) r = 1;" % (dst, dst, src, dst)
                if dst in ("X", "Y") and src in ("arr[X]", "arr[Y]") and src[4] == dst:
                    continue      # the index register is the destination: `X = 5; X = arr[X]` reads another cell
                sim["expect"] = {"r": int(v != 0)}
                prog(decl, stmt, sim, "%s = %s with value %d" % (dst, src, v))
    prog("unsigned char a, r;", "r = 0; a = 5; Y = Y; if (Y) r = 1;", {"y": 0, "expect": {"r": 0}}, "Y = Y")
    prog("unsigned char a, r;", "r = 0; a = 5; X = X; if (X) r = 1;", {"x": 0, "expect": {"r": 0}}, "X = X")
    for stmt in ("a = f();", "Y = f();", "X = f();"):
        out.append({"source": "unsigned char a;\nvoid f() { a = 1; }\nvoid main() { %s }\n" % stmt, "args": ["-O0"], "expect": {"panic": False, "is_error": True}, "note": "void value assigned"})
    return out


def build(repo):
    u = Unit(NAME, TOOL, PROPS, ["src/generate/generate_assign.rs: GeneratorState::generate_assign"],
             assumptions=["asm()/sasm() are stubs that execute the instruction on a ghost 6502 (A-isa); their requires clauses are obligations of this unit",
                          "A-noalias: a store through one operand expression changes no cell designated by a different operand expression (arr+1 vs arr,X aliasing is outside the contract)",
                          "belief_true on entry (C01's invariant) and `right is A ==> N/Z describe A` are caller obligations, assumed",
                          "`left is Tmp` with a live accumulator that is not the source is excluded by precondition (the function would leave a PHA without PLA there; "
                          "its two call sites reject a live accumulator first)",
                          "signedness (`signed`), warnings, and the 16-bit composition of two byte passes are not part of the contract"])
    gs = SourceFile(repo, "src/generate/generate_assign.rs")
    gm = SourceFile(repo, "src/generate/mod.rs")
    comp = SourceFile(repo, "src/compile.rs")
    asmf = SourceFile(repo, "src/assemble.rs")
    cuts, tys = [], []
    for sf, kind, name, structural in ((comp, "enum", "VariableType", True), (comp, "enum", "VariableMemory", True), (asmf, "enum", "AsmMnemonic", True),
                                       (gm, "enum", "ExprType", False), (gm, "enum", "FlagsState", False)):
        c = sf.item(kind, name)
        common.r2(c, structural=structural)
        c.sub(r"pub\(crate\) enum", "pub enum", "R2-pub")
        if not structural:
            c.sub(r"#\[derive\(([^)]*)\)\]", lambda m: "#[derive(%s)]" % ", ".join(x for x in [y.strip() for y in m.group(1).split(",")] if x not in ("PartialEq", "Eq", "Debug")), "R2-derive-noeq")
        cuts.append(c)
        tys.append(c.text)
    helper_text = ""
    try:
        h = gs.fn("forget_flags_of_memory", within="GeneratorState")
        h.set_header("""fn forget_flags_of_memory(&mut self)
        ensures final(self).gh@ == old(self).gh@, final(self).compiler_state == old(self).compiler_state, final(self).acc_in_use == old(self).acc_in_use, final(self).tmp_in_use == old(self).tmp_in_use,
            final(self).carry_flag_ok == old(self).carry_flag_ok, final(self).saved_y == old(self).saved_y,
            // what is kept is a belief about a register (stores change neither registers nor N/Z); a belief that names memory is dropped
            final(self).flags == (if old(self).flags is X || old(self).flags is Y || old(self).flags is A { old(self).flags } else { FlagsState::Unknown }), //@ C01:assign-store-drops-memory-belief
""", expect_sig="fn forget_flags_of_memory(&mut self)")
        cuts.append(h)
        helper_text = h.text
    except Undecided:
        helper_text = ""      # the helper does not exist in this tree: generate_assign is verified as it stands
    f = gs.fn("generate_assign", within="GeneratorState")
    cuts.append(f)
    f.sub(r"Ok\(left\.clone\(\)\)", "Ok(clone_expr(left))", "R11 derived Clone of ExprType -> shim with the structural specification", expect=(0, 2))
    cases = [("_x", "left is X"), ("_y", "left is Y"), ("_from_x", "!(left is X) && !(left is Y) && right is X"), ("_from_y", "!(left is X) && !(left is Y) && right is Y"),
             ("_general", "!(left is X) && !(left is Y) && !(right is X) && !(right is Y)")]
    base = f.text
    copies = []
    for suffix, cond in cases:
        f.text = base
        f.set_header(HEADER % {"suffix": suffix, "case": cond}, expect_sig="fn generate_assign( &mut self, left: &ExprType, right: &ExprType, pos: usize, high_byte: bool, ) -> Result<ExprType, Error>")
        copies.append(f.text)
    cover = "proof fn cases_cover(left: &ExprType, right: &ExprType) ensures " + " || ".join("(%s)" % c for _, c in cases) + " //@ C01:assign-cases-exhaustive\n{}\n"
    shim = """
#[verifier::external_body]
pub fn clone_expr(e: &ExprType) -> (r: ExprType) ensures r == *e { e.clone() }
"""
    text = common.PRELUDE + common.header_comment(NAME, cuts) + "verus! {\n" + (SPECS % {"types": "\n".join(tys)}) + shim + \
        "impl<'a> GeneratorState<'a> {\n" + STUBS + "\n" + helper_text + "\n" + "\n".join(copies) + "\n}\n" + cover + common.CANARY + "\n} // verus!\n"
    u.text[None] = text
    u.rewrites = common.collect_rewrites(cuts)
    u.rewrites.append("case split: the function text appears %d times under the names generate_assign_<case>, each with one extra precondition; lemma cases_cover proves exhaustiveness" % len(cases))
    u.dropped = ["R6 shim environment (GeneratorState fields other than flags / acc_in_use / tmp_in_use / carry_flag_ok / saved_y, CompilerState)"]
    return u
