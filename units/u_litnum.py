"""U-litnum: the places of parse_expr_ex / parse_expr_init_value_ex that number string literals (`cctmp<N>`), cut as windows (R8) and verified in Verus
against a ghost model of the literal table (the set of numbers in use) and of the running counter: a literal, or the literals of a nested expression
(parenthesised sub-expression, call arguments), get the numbers from the running counter on, the counter is advanced past them, and no entry already in
the table is overwritten -- so two literals of one expression never share a name and each keeps its own bytes (C09)."""
import re
from vf.core import Unit
from vf.rustcut import SourceFile, Undecided, match_brace
from . import common

NAME = "U-litnum"
TOOL = "verus"
PROPS = ["C09", "C16"]
RLIMIT = 50
TRUSTED = ["verus 0.2026.09.13 + z3", "R31: `Mutex::lock().unwrap()` on the two Rc<Mutex<..>> of the parser is access to the value (single thread: the lock is never contended or poisoned)",
           "the contract of the nested parse_expr_ex call (numbers [first, first + n) for its n literals) is this unit's invariant applied to the callee: assumed here, established by the same windows"]

SPECS = """
pub struct Error { pub e: u8 }
pub struct Expr { pub k: u8 }
pub struct Pair { pub k: u8 }
pub struct Pairs { pub k: u8 }
impl Pair { #[verifier::external_body] pub fn into_inner(self) -> Pairs { unimplemented!() } }
// the running counter (R31: Rc<Mutex<usize>>)
pub struct Counter { pub n: usize }
impl Counter {
    pub fn get(&self) -> (r: usize) ensures r == self.n { self.n }
    pub fn add(&mut self, d: usize) requires old(self).n + d <= usize::MAX ensures final(self).n == old(self).n + d { self.n = self.n + d; }
}
// a table of literals, by the numbers N of its keys `cctmp<N>` (opaque: only which numbers are in use, and how many entries)
#[verifier::external_body] pub struct Lits { inner: u8 }
pub uninterp spec fn in_table(l: Lits, i: int) -> bool;
pub uninterp spec fn count(l: Lits) -> nat;
impl Lits {
    #[verifier::external_body] pub fn len(&self) -> (r: usize) ensures r == count(*self) { unimplemented!() }
    // `for k in &other { self.insert(k.0.clone(), k.1.clone()); }`: an entry whose number is already in the table would replace that literal's bytes
    #[verifier::external_body] pub fn merge(&mut self, other: &Lits)
        requires forall|i: int| #![trigger in_table(*other, i)] !(in_table(*old(self), i) && in_table(*other, i)), //@ C09:nested-literals-overwrite-nothing
        ensures forall|i: int| #![trigger in_table(*final(self), i)] in_table(*final(self), i) == (in_table(*old(self), i) || in_table(*other, i))
    { unimplemented!() }
    // insert(format!("cctmp{}", n), v)
    #[verifier::external_body] pub fn insert_numbered(&mut self, n: usize, v: Bytes)
        requires !in_table(*old(self), n as int), //@ C09:literal-overwrites-nothing
        ensures forall|i: int| #![trigger in_table(*final(self), i)] in_table(*final(self), i) == (in_table(*old(self), i) || i == n)
    { unimplemented!() }
}
pub struct Bytes { pub k: u8 }
pub open spec fn below(l: Lits, n: int) -> bool { forall|i: int| #![trigger in_table(l, i)] in_table(l, i) ==> i < n }
pub struct CompilerState { pub k: u8 }
impl CompilerState {
    // the callee numbers its n literals first, first + 1, ... (this unit's invariant, for the nested expression)
    #[verifier::external_body] pub fn parse_expr_ex(&mut self, pairs: Pairs, first: usize) -> (r: Result<(Expr, Lits), Error>)
        ensures r is Ok ==> (forall|i: int| #![trigger in_table(r->Ok_0.1, i)] in_table(r->Ok_0.1, i) == (first <= i < first + count(r->Ok_0.1))) && first + count(r->Ok_0.1) <= usize::MAX
    { unimplemented!() }
%s
}
"""

NESTED = """
    // R8: nested expression %(k)d (src/compile.rs:%(ln)d, %(fn)s), verbatim up to R31
    pub fn nested_%(k)d(&mut self, %(v)s: Pair, literal_counter: &mut Counter, lit_strs: &mut Lits, first_literal: usize) -> (r: Result<Expr, Error>)
        requires below(*old(lit_strs), old(literal_counter).n as int), first_literal <= old(literal_counter).n,
        ensures r is Ok ==> below(*final(lit_strs), final(literal_counter).n as int), //@ C09:nested-literals-numbered-below-the-counter
            r is Ok ==> final(literal_counter).n >= old(literal_counter).n,
    {
%(body)s
        Ok(res.0)
    }
"""

QUOTED = """
    // R8: literal %(k)d (src/compile.rs:%(ln)d, %(fn)s), verbatim up to R31
    pub fn quoted_%(k)d(&mut self, v: Bytes, literal_counter: &mut Counter, lit_strs: &mut Lits) -> (r: Result<Expr, Error>)
        requires below(*old(lit_strs), old(literal_counter).n as int), old(literal_counter).n < usize::MAX,
        ensures r is Ok ==> below(*final(lit_strs), final(literal_counter).n as int), //@ C09:literal-numbered-below-the-counter
            r is Ok ==> final(literal_counter).n == old(literal_counter).n + 1, //@ C09:literal-advances-the-counter
            r is Ok ==> (forall|i: int| in_table(*final(lit_strs), i) == (in_table(*old(lit_strs), i) || i == old(literal_counter).n)), //@ C09:literal-takes-the-counter-value
    {
%(body)s
        Ok(Expr { k: 0 })
    }
"""


def candidates(f):
    """several literals in one expression, some of them nested: each pointer reaches its own text"""
    out = []
    for body, note in (('a = "abc", b = ("def");', "plain literal, then a parenthesised one"), ('a = ("abc"), b = "def";', "parenthesised literal first"),
                       ('a = ("abc"), b = ("def");', "two parenthesised literals"), ('a = "abc"; b = (("def"));', "doubly parenthesised")):
        out.append({"source": "char *a, *b;\nunsigned char r, q;\nvoid main() { %s r = a[1]; q = b[1]; }\n" % body, "args": ["-O0"], "expect": {"panic": False},
                    "simulate": {"init": {}, "expect": {"r": 98, "q": 101}, "stack_empty": True}, "contract_only": True, "note": note})
    out.append({"source": "char *a, *b;\nunsigned char r, q;\nvoid f(char *x, char *y) { a = x; b = y; }\nvoid main() { f(\"abc\", (\"def\")); r = a[1]; q = b[1]; }\n", "args": ["-O0"], "expect": {"panic": False},
                "simulate": {"init": {}, "expect": {"r": 98, "q": 101}, "stack_empty": True}, "contract_only": True, "note": "call arguments: a plain literal and a parenthesised one"})
    return out


def build(repo):
    u = Unit(NAME, TOOL, PROPS, ["src/compile.rs: parse_expr_ex / parse_expr_init_value_ex -- the blocks that parse a nested expression (Rule::expr, Rule::call) and the Rule::quoted_string arms (R8)"],
             assumptions=["R31 Mutex access; the literal table is modelled by the set of numbers N of its keys `cctmp<N>` (format!(\"cctmp{}\", n) is injective in n: U-gencond proves decimal rendering injective)",
                          "that the counter starts at `first_literal` and the table empty is the two `let` at the head of each parser (scanned)"])
    f = SourceFile(repo, "src/compile.rs")
    m = f.masked
    fns, cuts = [], []
    k = 0
    nested_calls = 0
    for fname in ("parse_expr_ex", "parse_expr_init_value_ex"):
        s0, ob0, cb0 = f.find_fn_span(fname)
        if not re.search(r"let literal_counter = Rc::new\(Mutex::new\(first_literal\)\);", m[ob0:cb0]):
            raise Undecided("%s: `let literal_counter = Rc::new(Mutex::new(first_literal));` not found" % fname)
        # nested expressions: every call of a parser inside the closures, with the statements up to the counter update
        for c in re.finditer(r"let res = self\.(parse_expr_ex|parse_expr_init_value_ex)\((\w+)\.into_inner\(\), (\w+)\)\?;", m[ob0:cb0]):
            nested_calls += 1
            a = ob0 + c.start()
            # the window starts at the statement that computes the argument, if it is a local of the block
            arg = c.group(3)
            st = re.compile(r"^[ \t]*let %s = [^;\n]*;\n" % re.escape(arg), re.M)
            prev = [x for x in st.finditer(m, ob0, a)]
            start = prev[-1].start() if prev and not m[prev[-1].end():a].strip() else m.rfind("\n", 0, a) + 1
            e = re.compile(r"\*l \+= res\.1\.len\(\);").search(m, a, cb0)
            if not e:
                raise Undecided("%s: `*l += res.1.len();` not found after the nested parse at line %d" % (fname, f.text.count("\n", 0, a) + 1))
            k += 1
            cut = f.cut_span(start, e.end(), "%s(): nested expression at line %d (R8)" % (fname, f.text.count("\n", 0, a) + 1))
            cut.sub(r"\*literal_counter\.lock\(\)\.unwrap\(\)", "literal_counter.get()", "R31 read of the counter", expect=(0, 1))
            cut.sub(r"let mut lit_strs = literal_strings\.lock\(\)\.unwrap\(\);\n", "", "R31 the guard of the literal table is the table (parameter lit_strs)", expect=1)
            cut.sub(r"for (\w+) in &res\.1 \{\s*lit_strs\.insert\(\1\.0\.clone\(\), \1\.1\.clone\(\)\);\s*\}", "lit_strs.merge(&res.1);", "R31 loop inserting every entry of the nested table -> merge (stub with the no-overwrite precondition)", expect=1)
            cut.sub(r"let mut l = literal_counter\.lock\(\)\.unwrap\(\);\s*\*l \+= res\.1\.len\(\);", "literal_counter.add(res.1.len());", "R31 update of the counter", expect=1)
            cuts.append(cut)
            fns.append(NESTED % {"k": k, "ln": f.text.count("\n", 0, a) + 1, "fn": fname, "v": c.group(2), "body": cut.text})
        # literals
        for c in re.finditer(r"Rule::quoted_string => \{", m[ob0:cb0]):
            ob = ob0 + c.end() - 1
            cb = match_brace(m, ob, "{", "}")
            a = re.compile(r"let mut l = literal_counter\.lock\(\)\.unwrap\(\);").search(m, ob, cb)
            e = re.compile(r"lit_strs\.insert\(name\.clone\(\), v\);").search(m, ob, cb)
            if not a or not e:
                raise Undecided("%s: the Rule::quoted_string arm has not the expected statements" % fname)
            k += 1
            start = m.rfind("\n", 0, a.start()) + 1
            cut = f.cut_span(start, e.end(), "%s(): Rule::quoted_string arm at line %d, from the counter access to the insertion (R8)" % (fname, f.text.count("\n", 0, a.start()) + 1))
            cut.sub(r"let mut l = literal_counter\.lock\(\)\.unwrap\(\);", "let l = literal_counter.get();", "R31 read of the counter", expect=1)
            cut.sub(r"let name = format!\(\"cctmp\{\}\", l\);\n", "", "R31 the name is its number (format!(\"cctmp{}\", n) injective)", expect=1)
            cut.sub(r"\*l \+= 1;", "literal_counter.add(1);", "R31 update of the counter", expect=1)
            cut.sub(r"let mut lit_strs = literal_strings\.lock\(\)\.unwrap\(\);\n", "", "R31 the guard of the literal table is the table", expect=1)
            cut.sub(r"lit_strs\.insert\(name\.clone\(\), v\);", "lit_strs.insert_numbered(l, v);", "R31 insert under the name of number l", expect=1)
            cuts.append(cut)
            fns.append(QUOTED % {"k": k, "ln": f.text.count("\n", 0, a.start()) + 1, "fn": fname, "body": cut.text})
    # every nested parser call inside the two functions is one of the windows
    total = 0
    for fname in ("parse_expr_ex", "parse_expr_init_value_ex"):
        s0, ob0, cb0 = f.find_fn_span(fname)
        total += len(re.findall(r"self\.parse_expr(?:_init_value)?_ex\(", m[ob0:cb0]))
    if total != nested_calls:
        raise Undecided("%d nested parser calls in the two parsers, %d of the recognised shape" % (total, nested_calls))
    if k < 6:
        raise Undecided("only %d numbering windows found (expected 6)" % k)
    u.text[None] = common.PRELUDE + common.header_comment(NAME, cuts) + "verus! {\n" + (SPECS % "\n".join(fns)) + common.CANARY + "\n} // verus!\n"
    u.rewrites = common.collect_rewrites(cuts)
    u.dropped = ["everything of the two parsers but the six numbering windows"]
    return u
