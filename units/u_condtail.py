"""U-condtail: the value tail of GeneratorState::generate_condition (a bare value used as a condition: `if (x)`, `while (f())`), cut from the real
text (R8) and verified in Verus against stubs that keep a symbolic account of A, X, Y, cctmp, of the value N/Z describe and of a pending jump:
control reaches `label` exactly when the value is non-zero (negated if asked), the generator's belief about N/Z is true afterwards, nothing is
pushed that is not pulled (C01, C16).  This is the leaf contract U-gencond assumes."""
import re
from vf.core import Unit
from vf.rustcut import SourceFile, Undecided, mask, match_brace
from . import common

NAME = "U-condtail"
TOOL = "verus"
PROPS = ["C01", "C16", "C10"]
RLIMIT = 200
TRUSTED = ["verus 0.2026.09.13 + z3", "A-isa: LDA / CMP #0 / CPX #0 / CPY #0 make N/Z describe the value loaded or compared; BNE jumps when it is non-zero, BEQ when it is zero; PHA pushes",
           "generate_condition_16bits' contract (U-cond16) and generate_expr's (it returns an operand denoting the expression's value) are assumed (stubs)"]

SPECS = """
pub struct Error { pub e: u8 }
%(types)s
use AsmMnemonic::*;
pub struct Variable { pub signed: bool }
pub struct CompilerState { pub x: u8 }
impl CompilerState {
    #[verifier::external_body] pub fn syntax_error(&self, message: &str, loc: usize) -> Error { unimplemented!() }
    #[verifier::external_body] pub fn compiler_error(&self, message: &str, loc: usize) -> Error { unimplemented!() }
}
pub type Val = int;
pub uninterp spec fn of(e: ExprType) -> Val;          // the value a memory operand / constant denotes
pub uninterp spec fn sem(e: Expr) -> Val;             // the value an expression denotes
pub uninterp spec fn nonzero(v: Val) -> bool;
#[verifier::external_body] pub proof fn axiom_immediate(v: i32) ensures nonzero(of(ExprType::Immediate(v))) == (v != 0) {}
pub struct Ghosts { pub areg: Val, pub xreg: Val, pub yreg: Val, pub tmp: Val, pub nz: Option<Val>, pub pushed: int, pub skip: Option<Seq<char>> }
pub open spec fn val(g: Ghosts, e: ExprType) -> Val {
    match e { ExprType::A(_) => g.areg, ExprType::X => g.xreg, ExprType::Y => g.yreg, ExprType::Tmp(_) => g.tmp, _ => of(e) }
}
pub open spec fn claims_val(f: FlagsState, g: Ghosts) -> Option<Val> {
    match f {
        FlagsState::X => Some(g.xreg), FlagsState::Y => Some(g.yreg), FlagsState::A => Some(g.areg),
        FlagsState::AbsoluteX(s) => Some(of(ExprType::AbsoluteX(s))), FlagsState::AbsoluteY(s) => Some(of(ExprType::AbsoluteY(s))),
        FlagsState::Absolute(v, eb, off) => Some(of(ExprType::Absolute(v, eb, off))),
        _ => None,
    }
}
// C01's invariant: what the generator believes N/Z describe is what they describe
pub open spec fn belief_sound(g: &GeneratorState) -> bool { claims_val(g.flags, g.gh@) is Some ==> g.gh@.nz == claims_val(g.flags, g.gh@) }
pub open spec fn claims(f: FlagsState, e: ExprType) -> bool {
    match f {
        FlagsState::X => e == ExprType::X, FlagsState::Y => e == ExprType::Y, FlagsState::A => e is A,
        FlagsState::AbsoluteX(s) => e == ExprType::AbsoluteX(s), FlagsState::AbsoluteY(s) => e == ExprType::AbsoluteY(s),
        FlagsState::Absolute(v, eb, off) => e == ExprType::Absolute(v, eb, off),
        _ => false,
    }
}
pub open spec fn after(skip0: Option<Seq<char>>, jumps: bool, label: Seq<char>) -> Option<Seq<char>> { if skip0 is Some { skip0 } else if jumps { Some(label) } else { None } }
pub open spec fn exec(g: Ghosts, m: AsmMnemonic, e: ExprType) -> Ghosts {
    if m == LDA { Ghosts { areg: val(g, e), nz: Some(val(g, e)), ..g } }
    else if m == CMP && e == ExprType::Immediate(0) { Ghosts { nz: Some(g.areg), ..g } }
    else if m == CPX && e == ExprType::Immediate(0) { Ghosts { nz: Some(g.xreg), ..g } }
    else if m == CPY && e == ExprType::Immediate(0) { Ghosts { nz: Some(g.yreg), ..g } }
    else if m == BNE && e is Label { if g.nz is Some && nonzero(g.nz->Some_0) { Ghosts { skip: Some(e->Label_0@), ..g } } else { g } }
    else if m == BEQ && e is Label { if g.nz is Some && !nonzero(g.nz->Some_0) { Ghosts { skip: Some(e->Label_0@), ..g } } else { g } }
    else if m == JMP && e is Label { Ghosts { skip: Some(e->Label_0@), ..g } }
    else { g }
}
pub open spec fn step(g: Ghosts, m: AsmMnemonic, e: ExprType) -> Ghosts { if g.skip is Some { g } else { exec(g, m, e) } }
pub struct GeneratorState<'a> {
    pub compiler_state: &'a CompilerState,
    pub flags: FlagsState, pub acc_in_use: bool, pub tmp_in_use: bool,
    pub gh: Ghost<Ghosts>,
}
pub open spec fn plain_same(a: &GeneratorState, b: &GeneratorState) -> bool {
    a.compiler_state == b.compiler_state && a.flags == b.flags && a.acc_in_use == b.acc_in_use && a.tmp_in_use == b.tmp_in_use
}
#[verifier::external_body]
fn flags_ok(flags: &FlagsState, expr_type: &ExprType) -> (r: bool) ensures r == claims(*flags, *expr_type) { unimplemented!() }
#[verifier::external_body]
pub fn string_clone(s: &String) -> (r: String) ensures r == *s { s.clone() }      // a clone is an equal value
"""

STUBS = """
    #[verifier::external_body]
    pub(crate) fn asm(&mut self, mnemonic: AsmMnemonic, operand: &ExprType, pos: usize, high_byte: bool) -> (res: Result<bool, Error>)
        requires
            mnemonic == LDA || ((mnemonic == CMP || mnemonic == CPX || mnemonic == CPY) && *operand == ExprType::Immediate(0)) || ((mnemonic == BNE || mnemonic == BEQ || mnemonic == JMP) && operand is Label), //@ C01:condtail-only-known-instructions
            // a conditional jump is a decision on the current flags: they must be known to describe something
            (mnemonic == BNE || mnemonic == BEQ) ==> old(self).gh@.skip is Some || old(self).gh@.nz is Some, //@ C01:condtail-branch-on-known-flags
        ensures plain_same(old(self), final(self)), res is Ok ==> final(self).gh@ == step(old(self).gh@, mnemonic, *operand),
    { unimplemented!() }
    #[verifier::external_body]
    pub(crate) fn sasm(&mut self, mnemonic: AsmMnemonic) -> (res: Result<bool, Error>)
        requires mnemonic == PHA,
        ensures plain_same(old(self), final(self)), res is Ok,
            final(self).gh@ == (if old(self).gh@.skip is Some { old(self).gh@ } else { Ghosts { pushed: old(self).gh@.pushed + 1, ..old(self).gh@ } }),
    { unimplemented!() }
    #[verifier::external_body]
    pub(crate) fn generate_expr(&mut self, expr: &Expr, pos: usize, high_byte: bool, second_time: bool) -> (res: Result<ExprType, Error>)
        requires belief_sound(old(self)),
        ensures final(self).compiler_state == old(self).compiler_state, final(self).gh@.skip == old(self).gh@.skip, final(self).gh@.pushed == old(self).gh@.pushed,
            res is Ok ==> val(final(self).gh@, res->Ok_0) == sem(*expr),
            res is Ok ==> belief_sound(final(self)),
            (res is Ok && res->Ok_0 is A) ==> final(self).acc_in_use,
            (res is Ok && !(res->Ok_0 is A)) ==> final(self).acc_in_use == old(self).acc_in_use,
            res is Ok ==> !(res->Ok_0 is Nothing) && !(res->Ok_0 is Label),
    { unimplemented!() }
    #[verifier::external_body]
    fn generate_condition_16bits(&mut self, l: &ExprType, op: &Operation, r: &ExprType, pos: usize, label: &str) -> (res: Result<(), Error>)
        requires *r == ExprType::Immediate(0), *op == Operation::Eq || *op == Operation::Neq,
        ensures final(self).compiler_state == old(self).compiler_state, final(self).flags == FlagsState::Unknown, final(self).gh@.pushed == old(self).gh@.pushed,
            res is Ok ==> final(self).gh@.skip == after(old(self).gh@.skip, nonzero(val(old(self).gh@, *l)) == (*op == Operation::Neq), label@),
    { unimplemented!() }
"""

HEADER = """fn condition_value_tail(&mut self, condition: &Expr, pos: usize, negate: bool, label: &str, immediate_special: bool) -> (res: Result<Option<bool>, Error>)
        requires
            belief_sound(old(self)),
            // a condition is lowered with the accumulator free (the callers that save a live accumulator mark it free first: U-condval)
            !old(self).acc_in_use,
        ensures
            final(self).compiler_state == old(self).compiler_state,
            // control reaches `label` exactly when the value is non-zero (negated if asked); a jump pending on entry stays pending
            (res is Ok && res->Ok_0 is None) ==> final(self).gh@.skip == after(old(self).gh@.skip, nonzero(sem(*condition)) != negate, label@), //@ C01:condtail-jumps-iff-nonzero
            (res is Ok && res->Ok_0 is Some) ==> (immediate_special && final(self).gh@.skip == old(self).gh@.skip && res->Ok_0->Some_0 == (nonzero(sem(*condition)) != negate)), //@ C01,C10:condtail-constant
            res is Ok ==> final(self).gh@.pushed == old(self).gh@.pushed, //@ C01:condtail-nothing-left-on-the-stack
            (res is Ok && final(self).gh@.skip is None) ==> belief_sound(final(self)), //@ C01:condtail-flags-belief-true
"""


def candidates(f):
    out = []
    for v in (0, 1, 200):
        for cond, sim in (("a", {"init": {"a": v}}), ("X", {"x": v}), ("Y", {"y": v}), ("arr[X]", {"x": 1, "init_addr": {"arr+1": v}}), ("arr[Y]", {"y": 2, "init_addr": {"arr+2": v}}),
                          ("a + 1", {"init": {"a": (v - 1) & 255}}), ("f()", {"init": {"a": v}}), ("s", {"init16": {"s": v * 256}}), ("!a", {"init": {"a": 0 if v else 1}})):
            for neg, body in ((False, "if (%s) z = 1; else z = 2;"), (True, "z = 2; while (!(%s)) { z = 1; break; } if (z == 2) z = 2; else z = 1;")):
                if neg:
                    continue
                out.append({"source": "unsigned char a, z, arr[4]; short s;\nunsigned char f() { return a; }\nvoid main() { %s }\n" % (body % cond), "args": ["-O0"], "expect": {"panic": False},
                            "simulate": dict(sim, expect={"z": 1 if v else 2}, stack_empty=True), "note": "%s with value %d" % (cond, v)})
    return out


def build(repo):
    u = Unit(NAME, TOOL, PROPS, ["src/generate/generate_conditions.rs: GeneratorState::generate_condition (value tail, from `let expr = self.generate_expr(condition, ..)` to the end, R8)"],
             assumptions=["asm / sasm / generate_expr / generate_condition_16bits are stubs (A-isa, contracts of U-cond16 and of the expression evaluator)",
                          "belief_sound on entry (C01's invariant) and `the accumulator is not marked live` are caller obligations, assumed",
                          "flags_ok is a stub with the meaning of FlagsState (spec fn claims)",
                          "A-stable-values: the operand generate_expr returns keeps denoting the expression's value until it is tested"])
    gc = SourceFile(repo, "src/generate/generate_conditions.rs")
    gm = SourceFile(repo, "src/generate/mod.rs")
    comp = SourceFile(repo, "src/compile.rs")
    asmf = SourceFile(repo, "src/assemble.rs")
    cuts, tys = [], []
    for sf, kind, name, structural in ((comp, "enum", "Operation", True), (asmf, "enum", "AsmMnemonic", True), (gm, "enum", "ExprType", False), (gm, "enum", "FlagsState", False), (comp, "enum", "Expr", False)):
        c = sf.item(kind, name)
        common.r2(c, structural=structural)
        c.sub(r"pub\(crate\) enum", "pub enum", "R2-pub")
        if not structural:
            c.sub(r"#\[derive\(([^)]*)\)\]", "", "R2-derive (no derived impls needed)", expect=(0, 1))
        cuts.append(c)
        tys.append(c.text)
    f = gc.fn("generate_condition", within="GeneratorState")
    m = re.search(r"\n([ \t]*let expr = self\.generate_expr\(condition, pos, false, false\)\?;)", f.text)
    if not m:
        raise Undecided("generate_condition: the value tail was not found")
    mk = mask(f.text)
    ob = mk.index("{", mk.index("fn generate_condition"))
    cb = match_brace(mk, ob, "{", "}")
    tail = f.text[m.start() + 1:cb]
    from vf.rustcut import Cut
    c = Cut(tail, f.rel, f.line0, "generate_condition(): value tail (R8)")
    cuts.append(c)
    c.sub(r"\blabel\.into\(\)", "label.to_string()", "R3-into (&str -> String)", expect=(0, 8))
    c.sub(r"\b([ab])\.clone\(\)", r"string_clone(\1)", "R11 String::clone -> shim", expect=(0, 4))
    c.sub(r"\bs\.clone\(\)", "string_clone(s)", "R11 String::clone -> shim", expect=(0, 4))
    body = HEADER + "    { /*@body*/\n        proof { axiom_immediate(0); }\n" + c.text + "\n    }\n"
    body = body.replace("            ExprType::Immediate(v) => {", "            ExprType::Immediate(v) => { proof { axiom_immediate(*v); }", 1)
    text = common.PRELUDE + common.header_comment(NAME, cuts) + "verus! {\n" + (SPECS % {"types": "\n".join(tys)}) + \
        "impl<'a> GeneratorState<'a> {\n" + STUBS + "\n    // R8: the value tail of generate_condition, verbatim; its free variables are the function's parameters\n    " + body + "\n}\n" + common.CANARY + "\n} // verus!\n"
    u.text[None] = text
    u.rewrites = common.collect_rewrites(cuts)
    u.dropped = ["everything of generate_condition before the tail (U-gencond)", "R6 shim environment"]
    return u
