"""U-condex: GeneratorState::generate_condition_ex whole, verified in Verus against ghost-state stubs of asm / sasm / the branch emitters /
generate_condition_16bits.  The stubs keep a symbolic account of what A, X, Y, cctmp hold and of which two values the N/Z/C flags currently
compare; the branch emitters REQUIRE that `flags-operands operator` is the comparison the caller asked for (`l op r`, negated if `negate`),
up to exchanging the operands together with mirroring the operator (C01, C15: `a < b` versus `b > a`)."""
import re
from vf.core import Unit
from vf.rustcut import SourceFile, Undecided
from . import common

NAME = "U-condex"
TOOL = "verus"
PROPS = ["C01", "C15", "C16"]
RLIMIT = 200
TRUSTED = ["verus 0.2026.09.13 + z3", "A-isa: LDA/TXA/TYA put a value in A and make N/Z describe it (a comparison with 0); CMP/CPX/CPY compare a register with the operand; "
           "STA cctmp copies A; branches and JMP change nothing", "exactness of the branch emitters for a given operator is U-branch's subject", "A-vstd"]

SPECS = """
pub struct Error { pub e: u8 }
%(types)s
// ---- symbolic values: what an operand denotes ----------------------------------------------------------------------------------
// Entry(e): the value the operand e (a memory cell, a constant) had when generate_condition_ex was entered; the registers and cctmp
// hold whatever the ghost account says.
pub type Val = int;
pub uninterp spec fn of(e: ExprType) -> Val;       // an abstract value per operand expression; only identity of values matters here
pub struct Ghosts { pub areg: Val, pub xreg: Val, pub yreg: Val, pub tmp: Val, pub cmp: Option<(Val, Val)>, pub goal: (Val, Operation, Val) }
pub open spec fn val(g: Ghosts, e: ExprType) -> Val {
    match e { ExprType::A(_) => g.areg, ExprType::X => g.xreg, ExprType::Y => g.yreg, ExprType::Tmp(_) => g.tmp, _ => of(e) }
}
pub open spec fn zero() -> Val { of(ExprType::Immediate(0)) }
// ---- oracle: C semantics of the six comparisons under negation and operand exchange ----------------------------------------------
pub open spec fn neg(o: Operation) -> Operation {      // !(a o b) == a neg(o) b
    match o { Operation::Eq => Operation::Neq, Operation::Neq => Operation::Eq, Operation::Lt => Operation::Gte, Operation::Gte => Operation::Lt,
              Operation::Gt => Operation::Lte, Operation::Lte => Operation::Gt, _ => o }
}
pub open spec fn mirror(o: Operation) -> Operation {   // (a o b) == (b mirror(o) a)
    match o { Operation::Lt => Operation::Gt, Operation::Gt => Operation::Lt, Operation::Lte => Operation::Gte, Operation::Gte => Operation::Lte, _ => o }
}
pub open spec fn is_cmp_op(o: Operation) -> bool { o == Operation::Eq || o == Operation::Neq || o == Operation::Lt || o == Operation::Lte || o == Operation::Gt || o == Operation::Gte }
pub open spec fn same_question(a: Val, o: Operation, b: Val, goal: (Val, Operation, Val)) -> bool {
    (a == goal.0 && o == goal.1 && b == goal.2) || (b == goal.0 && mirror(o) == goal.1 && a == goal.2)
}
// what the generator's belief about N/Z claims (generate/mod.rs FlagsState): the flags describe this operand
pub open spec fn claims(f: FlagsState, e: ExprType) -> bool {
    match f {
        FlagsState::X => e == ExprType::X,
        FlagsState::Y => e == ExprType::Y,
        FlagsState::A => e is A,
        FlagsState::AbsoluteX(s) => e == ExprType::AbsoluteX(s),
        FlagsState::AbsoluteY(s) => e == ExprType::AbsoluteY(s),
        FlagsState::Absolute(v, eb, off) => e == ExprType::Absolute(v, eb, off),
        _ => false,
    }
}
// the belief is true: N/Z are those of comparing the claimed operand's value with zero (claims(f, e) ==> the value below is val(e))
pub open spec fn belief_sound(g: &GeneratorState) -> bool {
    match g.flags {
        FlagsState::X => g.gh@.cmp == Some((g.gh@.xreg, zero())),
        FlagsState::Y => g.gh@.cmp == Some((g.gh@.yreg, zero())),
        FlagsState::A => g.gh@.cmp == Some((g.gh@.areg, zero())),
        FlagsState::AbsoluteX(s) => g.gh@.cmp == Some((of(ExprType::AbsoluteX(s)), zero())),
        FlagsState::AbsoluteY(s) => g.gh@.cmp == Some((of(ExprType::AbsoluteY(s)), zero())),
        FlagsState::Absolute(v, eb, off) => g.gh@.cmp == Some((of(ExprType::Absolute(v, eb, off)), zero())),
        _ => true,
    }
}
pub struct Variable { pub var_type: VariableType, pub signed: bool }
pub struct CompilerState { pub x: u8 }
impl CompilerState {
    pub uninterp spec fn var(&self, name: Seq<char>) -> Variable;
    #[verifier::external_body] pub fn get_variable(&self, name: &str) -> (r: &Variable) ensures *r == self.var(name@) { unimplemented!() }
    #[verifier::external_body] pub fn syntax_error(&self, message: &str, loc: usize) -> Error { unimplemented!() }
    #[verifier::external_body] pub fn compiler_error(&self, message: &str, loc: usize) -> Error { unimplemented!() }
}
pub struct GeneratorState<'a> {
    pub compiler_state: &'a CompilerState,
    pub flags: FlagsState, pub acc_in_use: bool, pub tmp_in_use: bool, pub saved_y: bool, pub carry_flag_ok: bool,
    pub gh: Ghost<Ghosts>,
}
pub open spec fn plain_same(a: &GeneratorState, b: &GeneratorState) -> bool {
    a.compiler_state == b.compiler_state && a.flags == b.flags && a.acc_in_use == b.acc_in_use && a.tmp_in_use == b.tmp_in_use && a.saved_y == b.saved_y && a.carry_flag_ok == b.carry_flag_ok
}
// A-isa: effect of one emitted instruction on the symbolic account
pub open spec fn step(g: Ghosts, m: AsmMnemonic, e: ExprType) -> Ghosts {
    if m == LDA { Ghosts { areg: val(g, e), cmp: Some((val(g, e), zero())), ..g } }
    else if m == TXA { Ghosts { areg: g.xreg, cmp: Some((g.xreg, zero())), ..g } }
    else if m == TYA { Ghosts { areg: g.yreg, cmp: Some((g.yreg, zero())), ..g } }
    else if m == CMP { Ghosts { cmp: Some((g.areg, val(g, e))), ..g } }
    else if m == CPX { Ghosts { cmp: Some((g.xreg, val(g, e))), ..g } }
    else if m == CPY { Ghosts { cmp: Some((g.yreg, val(g, e))), ..g } }
    else if m == STA && e is Tmp { Ghosts { tmp: g.areg, ..g } }
    else { g }
}
pub open spec fn flow_only(m: AsmMnemonic) -> bool { m == BEQ || m == BNE || m == BCC || m == BCS || m == BMI || m == BPL || m == JMP }
#[verifier::external_body]
fn flags_ok(flags: &FlagsState, expr_type: &ExprType) -> (r: bool) ensures r == claims(*flags, *expr_type) { unimplemented!() }
"""

STUBS = """
    // ---- stubs: the callee keeps the symbolic account; the branch emitters carry the obligation ------------------------------------
    #[verifier::external_body]
    pub(crate) fn asm(&mut self, mnemonic: AsmMnemonic, operand: &ExprType, pos: usize, high_byte: bool) -> (res: Result<bool, Error>)
        requires
            // a bare BEQ / BNE is a decision taken on the current flags: they must be those of the comparison asked for
            (mnemonic == BNE ==> old(self).gh@.cmp is Some && same_question(old(self).gh@.cmp->Some_0.0, Operation::Neq, old(self).gh@.cmp->Some_0.1, old(self).gh@.goal)), //@ C01,C15:condex-bare-bne
            (mnemonic == BEQ ==> old(self).gh@.cmp is Some && same_question(old(self).gh@.cmp->Some_0.0, Operation::Eq, old(self).gh@.cmp->Some_0.1, old(self).gh@.goal)), //@ C01,C15:condex-bare-beq
            mnemonic != STA || operand is Tmp,      // the function stores nowhere but to cctmp
            !(mnemonic == LDX || mnemonic == LDY || mnemonic == TAX || mnemonic == TAY || mnemonic == INX || mnemonic == DEX || mnemonic == INY || mnemonic == DEY || mnemonic == PLA), //@ C01:condex-registers-kept
        ensures plain_same(old(self), final(self)),
            res is Ok ==> final(self).gh@ == step(old(self).gh@, mnemonic, *operand),
    { unimplemented!() }
    #[verifier::external_body]
    pub(crate) fn sasm(&mut self, mnemonic: AsmMnemonic) -> (res: Result<bool, Error>)
        requires mnemonic == TXA || mnemonic == TYA, //@ C01:condex-registers-kept-implied
        ensures plain_same(old(self), final(self)), res is Ok, final(self).gh@ == step(old(self).gh@, mnemonic, ExprType::Nothing),
    { unimplemented!() }
    #[verifier::external_body]
    fn generate_branch_instruction(&mut self, op: &Operation, signed: bool, label: &str) -> (res: Result<(), Error>)
        requires old(self).gh@.cmp is Some && same_question(old(self).gh@.cmp->Some_0.0, *op, old(self).gh@.cmp->Some_0.1, old(self).gh@.goal), //@ C01,C15:condex-branch-operator
        ensures final(self).gh@ == old(self).gh@, final(self).compiler_state == old(self).compiler_state,
            final(self).flags == old(self).flags || final(self).flags == FlagsState::Unknown,
    { unimplemented!() }
    #[verifier::external_body]
    fn generate_branch_instruction_alt(&mut self, op: &Operation, signed: bool, label: &str) -> (res: Result<(), Error>)
        // the variant without CMP: the flags are those of a load, i.e. of a comparison with zero
        requires old(self).gh@.cmp is Some && old(self).gh@.cmp->Some_0.1 == zero() && same_question(old(self).gh@.cmp->Some_0.0, *op, zero(), old(self).gh@.goal), //@ C01,C15:condex-branch-alt-operator
        ensures final(self).gh@ == old(self).gh@, final(self).compiler_state == old(self).compiler_state,
            final(self).flags == old(self).flags || final(self).flags == FlagsState::Unknown,
    { unimplemented!() }
    #[verifier::external_body]
    fn generate_condition_16bits(&mut self, left: &ExprType, op: &Operation, right: &ExprType, pos: usize, label: &str) -> (res: Result<(), Error>)
        requires same_question(val(old(self).gh@, *left), *op, val(old(self).gh@, *right), old(self).gh@.goal), //@ C01,C15:condex-16bits-operator
        ensures final(self).compiler_state == old(self).compiler_state, final(self).flags == FlagsState::Unknown,
    { unimplemented!() }
"""

HEADER = """#[verifier::exec_allows_no_decreases_clause]
    fn generate_condition_ex(
        &mut self,
        l: &ExprType,
        op: &Operation,
        r: &ExprType,
        pos: usize,
        negate: bool,
        label: &str,
    ) -> (res: Result<(), Error>)
        requires
            is_cmp_op(*op),
            // the question to decide: `l op r`, negated if `negate`, on the values the operands denote now
            same_question(val(old(self).gh@, *l), if negate { neg(*op) } else { *op }, val(old(self).gh@, *r), old(self).gh@.goal),
            belief_sound(old(self)),        // C01's invariant on the generator's belief about N/Z, assumed on entry
        ensures
            final(self).compiler_state == old(self).compiler_state,
            res is Ok ==> belief_sound(final(self)), //@ C01:condex-flags-belief-kept
"""


def candidates(f):
    """Verus gives no counterexample.  These programs put every operand shape generate_condition_ex distinguishes on either side of each of the six
    operators; the code the real compiler emits is executed on the 6502 interpreter for a smaller / equal / larger pair and compared with C."""
    out = []
    ops = ["<", "<=", ">", ">=", "==", "!="]
    pairs8 = [(3, 7), (7, 3), (5, 5)]
    # (declarations, left text, right text, how to place value v on that side)
    shapes = [
        ("unsigned char arr[4];", "arr[Y]", "X", lambda a, b: {"init_addr": {"arr+1": a}, "y": 1, "x": b}),
        ("unsigned char arr[4];", "arr[X]", "Y", lambda a, b: {"init_addr": {"arr+2": a}, "x": 2, "y": b}),
        ("unsigned char arr[4];", "X", "arr[Y]", lambda a, b: {"init_addr": {"arr+1": b}, "y": 1, "x": a}),
        ("unsigned char a;", "a", "X", lambda a, b: {"init": {"a": a}, "x": b}),
        ("unsigned char a;", "Y", "a", lambda a, b: {"init": {"a": b}, "y": a}),
        ("unsigned char a, b;", "a", "b", lambda a, b: {"init": {"a": a, "b": b}}),
        ("unsigned char a;", "5", "a", lambda a, b: {"init": {"a": b}} if a == 5 else None),
        ("unsigned char a;", "a", "5", lambda a, b: {"init": {"a": a}} if b == 5 else None),
        ("unsigned char arr[4];", "5", "arr[Y]", lambda a, b: {"init_addr": {"arr+1": b}, "y": 1} if a == 5 else None),
        ("unsigned char a;", "X", "Y", lambda a, b: {"x": a, "y": b}),
    ]
    for decl, lt, rt, place in shapes:
        for op in ops:
            for a, b in (pairs8 + [(5, 3), (5, 7), (3, 5), (7, 5)]):
                sim = place(a, b)
                if sim is None:
                    continue
                want = int(eval("%d %s %d" % (a, op, b)))
                sim = dict(sim, expect={"z": want})
                out.append({"source": "%s unsigned char z;\nvoid main() { z = 0; if (%s %s %s) z = 1; }\n" % (decl, lt, op, rt), "args": ["-O0"],
                            "expect": {"panic": False}, "simulate": sim, "note": "left = %d, right = %d: C gives z = %d" % (a, b, want)})
    # an accumulator operand compared with zero when the flags do not reflect it (several case values; a function result)
    for x in (0, 1, 2, 3):
        out.append({"source": "unsigned char x, z;\nvoid main() { z = 0; switch (x & 3) { case 1: case 0: z = 1; break; default: z = 2; } }\n", "args": ["-O0"], "expect": {"panic": False},
                    "simulate": {"init": {"x": x}, "expect": {"z": 1 if x in (0, 1) else 2}}, "note": "x = %d" % x})
        out.append({"source": "unsigned char x, z;\nunsigned char f() { z = 5; return x; }\nvoid main() { if (f()) z = 1; else z = 2; }\n", "args": ["-O0"], "expect": {"panic": False},
                    "simulate": {"init": {"x": x}, "expect": {"z": 1 if x else 2}}, "note": "x = %d" % x})
    # 16-bit: arrays of shorts are stored as a table of low bytes followed by a table of high bytes
    for lt, rt, const_left in (("1000", "s[Y]", True), ("s[Y]", "1000", False), ("1000", "s[X]", True)):
        for op in ops[:4]:
            for v in (999, 1000, 1001, 256, 2000):
                a, b = (1000, v) if const_left else (v, 1000)
                want = int(eval("%d %s %d" % (a, op, b)))
                idx = {"y": 1} if "Y" in lt + rt else {"x": 1}
                sim = dict(idx, init_addr={"s+1": v & 0xff, "s+3": v >> 8}, expect={"z": want})
                out.append({"source": "short s[2]; unsigned char z;\nvoid main() { z = 0; if (%s %s %s) z = 1; }\n" % (lt, op, rt), "args": ["-O0"],
                            "expect": {"panic": False}, "simulate": sim, "note": "left = %d, right = %d: C gives z = %d" % (a, b, want)})
    return out


def build(repo):
    u = Unit(NAME, TOOL, PROPS, ["src/generate/generate_conditions.rs: GeneratorState::generate_condition_ex"],
             assumptions=["asm / sasm / generate_branch_instruction(_alt) / generate_condition_16bits are stubs that keep a symbolic account of A, X, Y, cctmp and of the two values "
                          "the flags compare (A-isa); their requires clauses are this unit's obligations",
                          "belief_sound on entry: whenever the generator's flags belief claims an operand, N/Z are those of that operand (C01's invariant, established elsewhere; "
                          "U-plusplus / U-csleep / label() prove pieces of it)",
                          "flags_ok is a stub with the meaning of FlagsState written in spec fn claims (derived PartialEq on a String-carrying enum has no Verus specification)",
                                                    "signedness of the comparison (the `signed` argument of the branch emitters) and the acc_in_use / tmp_in_use bookkeeping are not part of the contract",
                          "the callers' use of the result (generate_condition) and termination of the self-recursion (R9) are not under contract"])
    gc = SourceFile(repo, "src/generate/generate_conditions.rs")
    gm = SourceFile(repo, "src/generate/mod.rs")
    comp = SourceFile(repo, "src/compile.rs")
    asmf = SourceFile(repo, "src/assemble.rs")
    cuts = []
    tys = []
    for sf, kind, name, structural in ((comp, "enum", "Operation", True), (comp, "enum", "VariableType", True), (asmf, "enum", "AsmMnemonic", True),
                                       (gm, "enum", "ExprType", False), (gm, "enum", "FlagsState", False)):
        c = sf.item(kind, name)
        common.r2(c, structural=structural)
        c.sub(r"pub\(crate\) enum", "pub enum", "R2-pub")
        if not structural:
            c.sub(r"#\[derive\(([^)]*)\)\]", lambda m: "#[derive(%s)]" % ", ".join(x for x in [y.strip() for y in m.group(1).split(",")] if x not in ("PartialEq", "Eq", "Debug")), "R2-derive-noeq")
        cuts.append(c)
        tys.append(c.text)
    tys.append("use AsmMnemonic::*;")
    f = gc.fn("generate_condition_ex", within="GeneratorState")
    cuts.append(f)
    f.sub(r"\blabel\.into\(\)", "label.to_string()", "R3-into (&str -> String)", expect=(0, 6))
    f.sub(r"\bself\.flags == FlagsState::(A|X|Y|Unknown)\b", r"(match self.flags { FlagsState::\1 => true, _ => false })", "R3 `flags == FlagsState::V` -> match (definition of the derived PartialEq on a unit variant)", expect=(0, 6))
    f.set_header(HEADER, expect_sig="fn generate_condition_ex( &mut self, l: &ExprType, op: &Operation, r: &ExprType, pos: usize, negate: bool, label: &str, ) -> Result<(), Error>")
    # the fact everything below rests on, stated where the code has just established it: (left, operator, right) asks the caller's question
    f.after_stmt(r"let operator = if switch", "        proof { assert(same_question(val(self.gh@, *left), operator, val(self.gh@, *right), self.gh@.goal)); } //@ C01,C15:condex-swap-mirror")
    text = common.PRELUDE + common.header_comment(NAME, cuts) + "verus! {\n" + (SPECS % {"types": "\n".join(tys)}) + \
        "impl<'a> GeneratorState<'a> {\n" + STUBS + "\n" + f.text + "\n}\n" + common.CANARY + "\n} // verus!\n"
    u.text[None] = text
    u.rewrites = common.collect_rewrites(cuts)
    u.dropped = ["R6 shim environment (GeneratorState fields other than flags / acc_in_use / tmp_in_use / saved_y / carry_flag_ok, CompilerState)"]
    return u
