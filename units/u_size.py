"""U-size: AssemblyCode::size_bytes and the append_* constructors (C04, C16)."""
from vf.core import Unit
from vf.rustcut import SourceFile
from . import common

NAME = "U-size"
TOOL = "verus"
PROPS = ["C04", "C16", "C18"]
TRUSTED = ["verus 0.2026.09.13 + z3", "vstd specifications of Vec / slice iterators (A-vstd)"]


APPEND_SPECS = {
    "new": ("pub fn new() -> (r: AssemblyCode)\n ensures r.code@.len() == 0, //@ C04:new-empty\n", "fn new() -> AssemblyCode"),
    "append_asm": ("pub fn append_asm(&mut self, inst: AsmInstruction)\n ensures final(self).code@ == old(self).code@.push(AsmLine::Instruction(inst)), //@ C04,C18:append-asm\n", "fn append_asm(&mut self, inst: AsmInstruction)"),
    "append_inline": ("pub fn append_inline(&mut self, s: String, size: Option<u32>)\n ensures final(self).code@ == old(self).code@.push(AsmLine::Inline(s, match size { Some(n) => n, None => 3u32 })), //@ C04,C18:inline-default\n", "fn append_inline(&mut self, s: String, size: Option<u32>)"),
    "append_label": ("pub fn append_label(&mut self, s: String)\n ensures final(self).code@ == old(self).code@.push(AsmLine::Label(s)), //@ C04:append-label\n", "fn append_label(&mut self, s: String)"),
    "append_comment": ("pub fn append_comment(&mut self, s: String)\n ensures final(self).code@ == old(self).code@.push(AsmLine::Comment(s)), //@ C04:append-comment\n", "fn append_comment(&mut self, s: String)"),
    "append_dummy": ("pub fn append_dummy(&mut self) -> (r: usize)\n ensures final(self).code@ == old(self).code@.push(AsmLine::Dummy), r == old(self).code@.len(), //@ C04:append-dummy\n", "fn append_dummy(&mut self) -> usize"),
}


def append_fns(f, cuts, names=None):
    """The append_* constructors of AssemblyCode with their contracts (re-verified wherever included)."""
    parts = []
    for name, (hdr, sig) in APPEND_SPECS.items():
        if names is not None and name not in names:
            continue
        c = f.fn(name, within="AssemblyCode")
        c.set_header(hdr, expect_sig=sig)
        cuts.append(c)
        parts.append(c.text)
    return parts


def build(repo):
    u = Unit(NAME, TOOL, PROPS,
             ["src/assemble.rs: AssemblyCode::size_bytes", "src/assemble.rs: AssemblyCode::append_asm", "src/assemble.rs: AssemblyCode::append_inline",
              "src/assemble.rs: AssemblyCode::append_label", "src/assemble.rs: AssemblyCode::append_comment", "src/assemble.rs: AssemblyCode::append_dummy",
              "src/assemble.rs: AssemblyCode::new"],
             assumptions=["A-vstd: vstd's specifications of Vec::push/len and slice::Iter",
                          "size_bytes: requires the sum of declared sizes to fit u32 (a function of > 4 GiB is outside the 6502 address space)"])
    f, types, cuts = common.asm_types(repo)
    sz = f.fn("size_bytes", within="AssemblyCode")
    sz.sub(r"\bsize \+= s;", "size += *s;", "R3-deref", expect=(0, 4))
    sz.set_header("""pub fn size_bytes(&self) -> (r: u32)
        requires sum(self.code@, 0, self.code@.len() as int) <= u32::MAX,
        ensures r as nat == sum(self.code@, 0, self.code@.len() as int), //@ C04:sum
""", expect_sig="fn size_bytes(&self) -> u32")
    sz.loop_spec(1, r"^for c in self\.code\.iter\(\)$", """
            invariant size as nat == sum(self.code@, 0, it.index@ as int), //@ C04:sum-inv
                      sum(self.code@, 0, self.code@.len() as int) <= u32::MAX,
""", new_header="for c in it: self.code.iter()")
    sz.after(r"for c in it: self\.code\.iter\(\)[^{]*\{", "proof { sum_mono(self.code@, 0, it.index@ + 1, self.code@.len() as int); }")
    sz.sub(r"let mut size = 0;", "let mut size: u32 = 0;", "R3-type", expect=(0, 1))
    cuts.append(sz)
    parts = [sz.text]
    parts += append_fns(f, cuts)
    text = common.PRELUDE + common.header_comment(NAME, cuts) + "verus! {\n" + types + common.SUM_SPECS + \
        "impl AssemblyCode {\n" + "\n".join(parts) + "\n}\n" + common.CANARY + "\n} // verus!\n"
    u.text[None] = text
    u.rewrites = common.collect_rewrites(cuts)
    u.dropped = ["derive(Debug) and item privacy (R2)", "AsmLine::write / AssemblyCode::write (I/O formatting, not under contract)"]
    return u
