"""A-isa: the 6502 oracle tables (MOS 6502 datasheet), written once as Verus spec functions.
Used as the specification side of C04 / C13 / C18 obligations; trusted, listed in every evidence file that relies on it."""

ISA_SPECS = """
// ---- A-isa: 6502 addressing modes and encoding lengths (official opcodes only) ----------------
pub enum Mode { Implied, Imm, Zp, ZpX, ZpY, Abs, AbsX, AbsY, IndY, Rel }
pub open spec fn m_implied(m: AsmMnemonic) -> bool {
    m == AsmMnemonic::TAX || m == AsmMnemonic::TAY || m == AsmMnemonic::TXA || m == AsmMnemonic::TYA || m == AsmMnemonic::CLC || m == AsmMnemonic::SEC
    || m == AsmMnemonic::INX || m == AsmMnemonic::INY || m == AsmMnemonic::DEX || m == AsmMnemonic::DEY || m == AsmMnemonic::RTS || m == AsmMnemonic::RTI
    || m == AsmMnemonic::PHA || m == AsmMnemonic::PLA || m == AsmMnemonic::PHP || m == AsmMnemonic::PLP || m == AsmMnemonic::NOP
    // accumulator addressing
    || m == AsmMnemonic::LSR || m == AsmMnemonic::ASL || m == AsmMnemonic::ROL || m == AsmMnemonic::ROR
}
pub open spec fn m_alu(m: AsmMnemonic) -> bool {   // LDA-class: imm, zp, zp,X, abs, abs,X, abs,Y, (zp),Y
    m == AsmMnemonic::LDA || m == AsmMnemonic::ADC || m == AsmMnemonic::SBC || m == AsmMnemonic::EOR || m == AsmMnemonic::AND || m == AsmMnemonic::ORA || m == AsmMnemonic::CMP
}
pub open spec fn m_rmw(m: AsmMnemonic) -> bool {   // read-modify-write on memory: zp, zp,X, abs, abs,X
    m == AsmMnemonic::INC || m == AsmMnemonic::DEC || m == AsmMnemonic::LSR || m == AsmMnemonic::ASL || m == AsmMnemonic::ROL || m == AsmMnemonic::ROR
}
pub open spec fn m_store(m: AsmMnemonic) -> bool { m == AsmMnemonic::STA || m == AsmMnemonic::STX || m == AsmMnemonic::STY }
pub open spec fn m_branch(m: AsmMnemonic) -> bool {
    m == AsmMnemonic::BCC || m == AsmMnemonic::BCS || m == AsmMnemonic::BEQ || m == AsmMnemonic::BMI || m == AsmMnemonic::BNE || m == AsmMnemonic::BPL
}
pub open spec fn legal(m: AsmMnemonic, mode: Mode) -> bool {
    match mode {
        Mode::Implied => m_implied(m),
        Mode::Imm => m_alu(m) || m == AsmMnemonic::LDX || m == AsmMnemonic::LDY || m == AsmMnemonic::CPX || m == AsmMnemonic::CPY,
        Mode::Zp => m_alu(m) || m_rmw(m) || m_store(m) || m == AsmMnemonic::LDX || m == AsmMnemonic::LDY || m == AsmMnemonic::CPX || m == AsmMnemonic::CPY,
        Mode::ZpX => m_alu(m) || m_rmw(m) || m == AsmMnemonic::STA || m == AsmMnemonic::STY || m == AsmMnemonic::LDY,
        Mode::ZpY => m == AsmMnemonic::LDX || m == AsmMnemonic::STX,
        Mode::Abs => m_alu(m) || m_rmw(m) || m_store(m) || m == AsmMnemonic::LDX || m == AsmMnemonic::LDY || m == AsmMnemonic::CPX || m == AsmMnemonic::CPY
                     || m == AsmMnemonic::JMP || m == AsmMnemonic::JSR,
        Mode::AbsX => m_alu(m) || m_rmw(m) || m == AsmMnemonic::STA || m == AsmMnemonic::LDY,
        Mode::AbsY => m_alu(m) || m == AsmMnemonic::STA || m == AsmMnemonic::LDX,
        Mode::IndY => m_alu(m) || m == AsmMnemonic::STA,
        Mode::Rel => m_branch(m),
    }
}
pub open spec fn mode_len(mode: Mode) -> nat {
    match mode { Mode::Implied => 1, Mode::Imm | Mode::Zp | Mode::ZpX | Mode::ZpY | Mode::IndY | Mode::Rel => 2, Mode::Abs | Mode::AbsX | Mode::AbsY => 3 }
}
// ---- what an assembler makes of an operand text --------------------------------------------------
pub enum TextKind { Empty, Imm, IndY, IdxX, IdxY, Plain }
pub open spec fn ends_with2(t: Seq<char>, a: char, b: char) -> bool { t.len() >= 2 && t[t.len() - 2] == a && t[t.len() - 1] == b }
pub open spec fn kind_of_text(t: Seq<char>) -> TextKind {
    if t.len() == 0 { TextKind::Empty }
    else if t[0] == '#' { TextKind::Imm }
    else if t[0] == '(' { TextKind::IndY }            // the generator's only parenthesised memory form is `(zp),Y`
    else if ends_with2(t, ',', 'X') { TextKind::IdxX }
    else if ends_with2(t, ',', 'Y') { TextKind::IdxY }
    else { TextKind::Plain }
}
// zp: the operand's symbol lies in page zero (A-zp).  The assembler takes the zero-page form when the
// instruction has one, the absolute form otherwise.
pub open spec fn assembler_mode(m: AsmMnemonic, k: TextKind, zp: bool) -> Mode {
    match k {
        TextKind::Empty => Mode::Implied,
        TextKind::Imm => Mode::Imm,
        TextKind::IndY => Mode::IndY,
        TextKind::IdxX => if zp && legal(m, Mode::ZpX) { Mode::ZpX } else { Mode::AbsX },
        TextKind::IdxY => if zp && legal(m, Mode::ZpY) { Mode::ZpY } else { Mode::AbsY },
        TextKind::Plain => if m_branch(m) { Mode::Rel } else if zp && legal(m, Mode::Zp) { Mode::Zp } else { Mode::Abs },
    }
}
pub open spec fn ident_char(c: char) -> bool { ('a' <= c <= 'z') || ('A' <= c <= 'Z') || ('0' <= c <= '9') || c == '_' || c == '.' }
pub open spec fn ident(s: Seq<char>) -> bool { s.len() > 0 && forall|k: int| 0 <= k < s.len() ==> ident_char(#[trigger] s[k]) }
"""
