"""U-int: parse_int (integer and character literals), verbatim against pest shims and assumed std contracts of str::parse::<i32> /
i32::from_str_radix (C10: literals evaluate to their C value, literals that do not fit are rejected with an error; C16: no unwrap on a failed parse)."""
import re
from vf.core import Unit
from vf.rustcut import SourceFile, Undecided
from . import common, u_qstr

NAME = "U-int"
TOOL = "verus"
PROPS = ["C10", "C16", "C09"]
RLIMIT = 100
TRUSTED = ["verus 0.2026.09.13 + z3", "A-std-parse: str::parse::<i32> and i32::from_str_radix accept an optional single sign followed by at least one digit of the radix and "
           "return the value when it fits i32, an error otherwise (Rust std documentation)", "R6 shims of pest Pair / Pairs", "compile_quoted_string_ex contract as proved in U-qstr (stub)",
           "A-ascii: byte offset 2 of a hexadecimal literal is a character boundary (the grammar admits ASCII only)"]

SPECS = """
#[derive(Copy, Clone, PartialEq, Eq, Structural)]
pub enum Rule { decimal, hexadecimal, octal, quoted_character, other }
pub struct Error { pub e: u8 }
#[derive(Debug)]
pub struct ParseIntError { pub k: u8 }           // R6: stands for core::num::ParseIntError (never inspected by parse_int)
pub struct Span { pub s: usize }
impl Span { pub fn start(&self) -> usize { self.s } }
pub struct Pair { pub rule: Rule, pub text: String, pub s: usize, pub inner_text: String }
impl Pair {
    pub fn as_rule(&self) -> (r: Rule) ensures r == self.rule { self.rule }
    #[verifier::external_body] pub fn as_str(&self) -> (r: &str) ensures r@ == self.text@ { self.text.as_str() }
    pub fn as_span(&self) -> (r: Span) ensures r.s == self.s { Span { s: self.s } }
    #[verifier::external_body] pub fn into_inner(self) -> (r: Pairs) ensures r.first is Some, r.first->Some_0.text@ == self.inner_text@ { unimplemented!() }
}
pub struct Pairs { pub first: Option<Pair> }
impl Pairs {
    #[verifier::external_body] pub fn next(&mut self) -> (r: Option<Pair>) ensures r == old(self).first, final(self).first is None { self.first.take() }
}
pub struct CompilerState { pub x: u8 }
impl CompilerState { #[verifier::external_body] pub fn syntax_error(&self, message: &str, loc: usize) -> Error { unimplemented!() } }

// ---- the value of a digit string (oracle; left fold, most significant digit first) -------------------------------------------
pub open spec fn digit_val(c: char) -> int {
    if '0' <= c <= '9' { c as int - '0' as int } else if 'a' <= c <= 'f' { c as int - 'a' as int + 10 } else if 'A' <= c <= 'F' { c as int - 'A' as int + 10 } else { 99 }
}
pub open spec fn all_digits(s: Seq<char>, radix: int) -> bool { forall|i: int| 0 <= i < s.len() ==> 0 <= digit_val(#[trigger] s[i]) < radix }
pub open spec fn digits_value(s: Seq<char>, radix: int) -> int decreases s.len() {
    if s.len() == 0 { 0 } else { digits_value(s.drop_last(), radix) * radix + digit_val(s.last()) }
}
pub open spec fn fits(v: int) -> bool { -0x8000_0000 <= v <= 0x7fff_ffff }
// A-std-parse: what Rust's integer parsing accepts and returns
pub open spec fn std_int(s: Seq<char>, radix: int) -> Option<int> {
    let neg = s.len() > 0 && s[0] == '-';
    let d = if s.len() > 0 && (s[0] == '-' || s[0] == '+') { s.skip(1) } else { s };
    if d.len() == 0 || !all_digits(d, radix) { None }
    else { let v = if neg { -digits_value(d, radix) } else { digits_value(d, radix) }; if fits(v) { Some(v) } else { None } }
}
#[verifier::external_body]
pub fn str_parse_i32(s: &str) -> (r: Result<i32, ParseIntError>)
    ensures match std_int(s@, 10) { Some(v) => r is Ok && r->Ok_0 == v, None => r is Err }
{ unimplemented!() }
#[verifier::external_body]
pub fn i32_from_str_radix(s: &str, radix: u32) -> (r: Result<i32, ParseIntError>)
    requires 2 <= radix <= 36,
    ensures radix <= 16 ==> match std_int(s@, radix as int) { Some(v) => r is Ok && r->Ok_0 == v, None => r is Err }
{ unimplemented!() }
// u32::from_str_radix: an optional `+`, digits of the radix, a value below 2^32 (no `-` for a non-zero value: simplified to "no sign but +")
pub open spec fn std_uint(s: Seq<char>, radix: int) -> Option<int> {
    let d = if s.len() > 0 && s[0] == '+' { s.skip(1) } else { s };
    if d.len() == 0 || !all_digits(d, radix) { None } else { let v = digits_value(d, radix); if 0 <= v <= 0xffff_ffff { Some(v) } else { None } }
}
#[verifier::external_body]
pub fn u32_from_str_radix(s: &str, radix: u32) -> (r: Result<u32, ParseIntError>)
    requires 2 <= radix <= 36,
    ensures radix <= 16 ==> match std_uint(s@, radix as int) { Some(v) => r is Ok && r->Ok_0 == v, None => r is Err }
{ unimplemented!() }
// Result::map(|v| v as i32): the cast wraps
#[verifier::external_body]
pub fn res_u32_as_i32(r: Result<u32, ParseIntError>) -> (o: Result<i32, ParseIntError>)
    ensures r is Err ==> o is Err, r is Ok ==> o is Ok && o->Ok_0 == (if r->Ok_0 < 0x8000_0000 { r->Ok_0 as int } else { r->Ok_0 as int - 0x1_0000_0000 })
{ match r { Ok(v) => Ok(v as i32), Err(e) => Err(e) } }
// R21: &s[n..] on an ASCII string
#[verifier::external_body]
pub fn str_from(s: &str, n: usize) -> (r: &str)
    requires n <= s@.len(), //@ C16:int-slice-in-range
    ensures r@ == s@.skip(n as int)
{ &s[n..] }

// ---- what the grammar guarantees about the text of each rule (src/cc6502.pest, A-pest) -----------------------------------------
pub open spec fn minus_run(s: Seq<char>) -> nat decreases s.len() { if s.len() > 0 && s[0] == '-' { 1 + minus_run(s.skip(1)) } else { 0 } }
pub open spec fn grammar_ok(p: Pair) -> bool {
    match p.rule {
        Rule::decimal => p.text@.len() > minus_run(p.text@) && all_digits(p.text@.skip(minus_run(p.text@) as int), 10),
        Rule::hexadecimal => p.text@.len() >= 3 && p.text@[0] == '0' && p.text@[1] == 'x' && all_digits(p.text@.skip(2), 16),
        Rule::octal => p.text@.len() >= 2 && p.text@[0] == '0' && all_digits(p.text@.skip(1), 8),
        Rule::quoted_character => p.inner_text@.len() == 1 && p.inner_text@[0] != '\\\\' || p.inner_text@.len() == 2 && p.inner_text@[0] == '\\\\',
        Rule::other => false,
    }
}
// ---- oracle: the C value of the literal --------------------------------------------------------------------------------------------
pub open spec fn literal_value(p: Pair) -> Option<int> {
    match p.rule {
        Rule::decimal => if minus_run(p.text@) == 0 { Some(digits_value(p.text@, 10)) }
                         else if minus_run(p.text@) == 1 { Some(-digits_value(p.text@.skip(1), 10)) } else { None },    // `--5` is not a literal
        Rule::hexadecimal => Some(digits_value(p.text@.skip(2), 16)),
        Rule::octal => Some(digits_value(p.text@.skip(1), 8)),
        Rule::quoted_character => Some(decode(p.inner_text@)[0] as int),
        Rule::other => None,
    }
}
pub proof fn lemma_leading_zero(s: Seq<char>, radix: int)
    requires s.len() > 0, s[0] == '0',
    ensures digits_value(s, radix) == digits_value(s.skip(1), radix)
    decreases s.len()
{
    if s.len() == 1 {
        assert(s.drop_last().len() == 0);
        assert(s.skip(1).len() == 0);
        assert(digits_value(s.drop_last(), radix) == 0);
        assert(digits_value(s.skip(1), radix) == 0);
        assert(s.last() == '0');
        assert(digit_val('0') == 0);
    } else {
        assert(s.drop_last()[0] == '0');
        lemma_leading_zero(s.drop_last(), radix);
        assert(s.drop_last().skip(1) == s.skip(1).drop_last());
        assert(s.skip(1).last() == s.last());
    }
}
pub proof fn lemma_minus_run(s: Seq<char>)
    ensures minus_run(s) <= s.len(), forall|i: int| 0 <= i < minus_run(s) ==> s[i] == '-', minus_run(s) < s.len() ==> s[minus_run(s) as int] != '-'
    decreases s.len()
{
    if s.len() > 0 && s[0] == '-' {
        lemma_minus_run(s.skip(1));
        assert forall|i: int| 0 <= i < minus_run(s) implies s[i] == '-' by { if i > 0 { assert(s[i] == s.skip(1)[i - 1]); } }
        if minus_run(s) < s.len() { assert(s[minus_run(s) as int] == s.skip(1)[minus_run(s.skip(1)) as int]); }
    }
}
"""


def r20_map_err(cut):
    """R20: RECV.map_err(|_| E) -> match RECV { Ok(__v) => Ok(__v), Err(_) => Err(E) } (definition of Result::map_err for a closure that ignores its argument)."""
    from vf.rustcut import mask, match_brace
    pat = re.compile(r"(\b\w+)\s*\.\s*map_err\(\s*\|_\w*\|\s*")
    n = 0
    while True:
        m = pat.search(cut.text)
        if not m:
            break
        mk = mask(cut.text)
        op = cut.text.find("map_err(", m.start()) + len("map_err")
        cp = match_brace(mk, op, "(", ")")
        body = cut.text[m.end():cp].strip()
        cut.text = cut.text[:m.start()] + "(match %s { Ok(__v) => Ok(__v), Err(_) => Err(%s) })" % (m.group(1), body) + cut.text[cp + 1:]
        n += 1
        if n > 8:
            break
    if n:
        cut.log.append("R20 x%d Result::map_err(|_| e) -> match" % n)
    return n


def candidates(f):
    """Verus gives no counterexample; these are the corner cases of the contract's clauses, run on the real compiler when an obligation of this
    unit fails: literals that do not fit must give an error (never a panic), literals that fit must have their C value."""
    src = lambda e: "const short t[2] = { %s, 0 };\nvoid main() { X = t[0]; }\n" % e
    out = []
    for e in ("0xFFFFFFFF", "99999999999", "040000000000"):
        out.append({"source": src(e), "args": [], "expect": {"panic": False, "is_error": True}})
    for e, v in (("0x1F", 31), ("0x7fffffff & 0xABC", 0xABC), ("017", 15), ("1234", 1234), ("'a'", 97), ("'\\n'", 10), ("0", 0)):
        out.append({"source": src(e), "args": [], "expect": {"panic": False, "stdout_contains": "ARRAY t size=2 = %d 0" % v}})
    return out


def build(repo):
    u = Unit(NAME, TOOL, PROPS, ["src/compile.rs: parse_int"],
             assumptions=["A-std-parse (str::parse::<i32>, i32::from_str_radix): assumed contract written from the Rust documentation",
                          "A-pest: the text of a decimal / hexadecimal / octal / quoted_character pair has the shape its grammar rule prescribes (precondition grammar_ok)",
                          "compile_quoted_string_ex is a stub carrying the contract proved in U-qstr"])
    comp = SourceFile(repo, "src/compile.rs")
    f = comp.fn("parse_int")
    cuts = [f]
    f.sub(r"(\w+)\.as_str\(\)\.parse::<i32>\(\)", r"str_parse_i32(\1.as_str())", "R20 str::parse::<i32>() -> shim with the assumed std contract", expect=(0, 2))
    f.sub(r"u32::from_str_radix\(((?:[^()]|\([^()]*\))*)\)\.map\(\|v\| v as i32\)", r"res_u32_as_i32(u32_from_str_radix(\1))", "R20 u32::from_str_radix(..).map(|v| v as i32) -> shims (assumed std contract; `as` wraps)", expect=(0, 2))
    f.sub(r"i32::from_str_radix\(", "i32_from_str_radix(", "R20 i32::from_str_radix -> shim with the assumed std contract", expect=(0, 4))
    f.sub(r"&\s*(\w+)\.as_str\(\)\[(\w+)\.\.\]", r"str_from(\1.as_str(), \2)", "R21 &s[n..] -> str_from(s, n)", expect=(0, 2))
    f.sub(r"Pair<Rule>", "Pair", "R6 shim type")
    r20_map_err(f)
    common.r14_map_or(f)
    if re.search(r"\.(parse|map_err|ok_or|and_then|unwrap_or)\b", f.text.split("/*@body*/")[-1]) and "parse::<" in f.text:
        raise Undecided("parse_int: an unrecognised combinator form remains after R20/R21")
    sig = re.search(r"fn parse_int\(([^)]*)\)\s*->\s*([^{]+)\{", f.text)
    if not sig:
        raise Undecided("parse_int: signature not recognised")
    ret = sig.group(2).strip()
    params = sig.group(1).strip()
    if ret == "Result<i32, Error>":
        post = """            grammar_ok(p) ==> match literal_value(p) { Some(v) => if fits(v) { res is Ok && res->Ok_0 == v } else { res is Err }, None => res is Err }, //@ C10,C09:int-literal-value
"""
        resdecl = "(res: Result<i32, Error>)"
    elif ret == "i32":
        # the shape before the repair: a plain value; a literal that does not fit can then only panic, which the implicit obligations report
        post = """            grammar_ok(p) ==> match literal_value(p) { Some(v) => fits(v) && res == v, None => false }, //@ C10,C09:int-literal-value
"""
        resdecl = "(res: i32)"
    else:
        raise Undecided("parse_int: unexpected return type " + ret)
    f.set_header("""fn parse_int(%s) -> %s
        requires grammar_ok(p),
        ensures
%s""" % (params, resdecl, post), expect_sig="fn parse_int(")
    f.body_start("""        proof {
            lemma_minus_run(p.text@);
            if p.rule == Rule::octal { lemma_leading_zero(p.text@, 8); assert(all_digits(p.text@, 8)) by { assert forall|i: int| 0 <= i < p.text@.len() implies 0 <= digit_val(#[trigger] p.text@[i]) < 8 by { if i > 0 { assert(p.text@[i] == p.text@.skip(1)[i - 1]); } } } }
            if p.rule == Rule::decimal {
                let k = minus_run(p.text@) as int;
                if k == 1 { assert(p.text@.skip(1) == p.text@.skip(k)); }
                if k == 0 { assert(p.text@.skip(0) == p.text@); }
                if k >= 2 { assert(p.text@.skip(1)[0] == '-'); assert(digit_val('-') == 99); assert(!all_digits(p.text@.skip(1), 10)); }
            }
            if p.rule == Rule::quoted_character { reveal_with_fuel(decode, 3); }
        }""")
    stub = """
#[verifier::external_body]
fn compile_quoted_string_ex(s: &str) -> (v: String) ensures v@ == decode(s@) { unimplemented!() }
"""
    qspecs = u_qstr.SPECS[u_qstr.SPECS.index("// ---- spec written from the property statement"):]
    text = common.PRELUDE + common.header_comment(NAME, cuts) + "verus! {\n" + qspecs + SPECS + stub + f.text + "\n" + common.CANARY + "\n} // verus!\n"
    u.text[None] = text
    u.rewrites = common.collect_rewrites(cuts)
    u.dropped = ["R6 shims (Pair, Pairs, CompilerState, Error, ParseIntError)"]
    return u
