"""U-qstr: compile_quoted_string_ex (escape decoding), verbatim, against the property's escape table (C09)."""
from vf.core import Unit
from vf.rustcut import SourceFile, while_let_to_loop
from . import common

NAME = "U-qstr"
TOOL = "verus"
PROPS = ["C09", "C16"]
TRUSTED = ["verus 0.2026.09.13 + z3", "A-vstd (str::chars / Chars::next prophetic iterator spec, String::push)", "A-spec: char::from_u32(v) == Some(v as char) for scalar values"]

SPECS = """
// A-spec: char::from_u32 on a Unicode scalar value
pub assume_specification [char::from_u32] (v: u32) -> (r: Option<char>)
    ensures (v <= 0x10FFFF && !(0xD800 <= v <= 0xDFFF)) ==> r == Some(v as char);

// ---- spec written from the property statement: C escapes to their ASCII codes --------------------
pub open spec fn esc(a: char) -> char {
    if a == 'n' { 10u8 as char } else if a == 'r' { 13u8 as char } else if a == 't' { 9u8 as char }
    else if a == 'a' { 7u8 as char } else if a == 'b' { 8u8 as char } else if a == 'f' { 12u8 as char }
    else if a == 'v' { 11u8 as char } else if a == '0' { 0u8 as char }
    else { a }        // \\\\ -> backslash, \\" -> quote, any other escaped character stands for itself
}
pub open spec fn decode(s: Seq<char>) -> Seq<char> decreases s.len() {
    if s.len() == 0 { seq![] }
    else if s[0] == '\\\\' {
        if s.len() == 1 { seq![] } else { seq![esc(s[1])] + decode(s.subrange(2, s.len() as int)) }
    } else { seq![s[0]] + decode(s.subrange(1, s.len() as int)) }
}
"""


def build(repo):
    u = Unit(NAME, TOOL, PROPS, ["src/compile.rs: compile_quoted_string_ex"],
             assumptions=["A-vstd: prophetic iterator specification of str::chars()", "A-spec: char::from_u32 returns Some(v as char) for scalar values",
                          "termination of the decoding loop is not proved (R9): IteratorSpec::decrease() is not known to decrease across a None result",
                          "NUL termination / concatenation in compile_quoted_string and the quoted_character arm of parse_int take pest Pairs and are not under contract"])
    comp = SourceFile(repo, "src/compile.rs")
    q = comp.fn("compile_quoted_string_ex")
    cuts = [q]
    while_let_to_loop(q, 1, r"^while let Some\(c\) = i\.next\(\)$")
    q.set_header("""#[verifier::exec_allows_no_decreases_clause]
fn compile_quoted_string_ex(s: &str) -> (v: String)
    ensures v@ == decode(s@), //@ C09:decode
""", expect_sig="fn compile_quoted_string_ex(s: &str) -> String")
    q.loop_spec(1, r"^loop /\*@R10\*/$", """
        invariant_except_break v@ + decode(i.remaining()) == decode(s@), //@ C09:decode-inv
            i.obeys_prophetic_iter_laws(),
        ensures v@ == decode(s@), //@ C09:decode-exit
""")
    q.sub(r"\{ let __o = i\.next\(\);", "{\n        let ghost r0 = i.remaining();\n        let __o = i.next();", "hint-placement (ghost only)", expect=(0, 1))
    q.before(r"match i\.next\(\) \{", "            let ghost r1 = i.remaining();")
    q.before(r"^\s*\} else \{", """            proof {
                assert(r1.len() > 0 ==> r0.subrange(2, r0.len() as int) =~= i.remaining());
                assert(r1.len() == 0 ==> r0.len() == 1);
                assert(r1.len() > 0 ==> r0[1] == r1[0]);
            }""")
    q.after_line(r"^\s*\} else \{", "            proof { assert(r0.subrange(1, r0.len() as int) =~= i.remaining()); }")
    text = common.PRELUDE + common.header_comment(NAME, cuts) + "verus! {\n" + SPECS + q.text + "\n" + common.CANARY + "\n} // verus!\n"
    u.text[None] = text
    u.rewrites = common.collect_rewrites(cuts)
    u.dropped = ["R10: while-let desugared to loop/match (Rust reference definition)"]
    return u
