"""U-qstr: compile_quoted_string_ex (escape decoding), verbatim, against the property's escape table (C09)."""
from vf.core import Unit
import re
from vf.rustcut import SourceFile, while_let_to_loop, Undecided
from . import common

NAME = "U-qstr"
TOOL = "verus"
PROPS = ["C09", "C16"]
TRUSTED = ["verus 0.2026.09.13 + z3", "A-vstd (str::chars / Chars::next prophetic iterator spec, String::push)", "A-spec: char::from_u32(v) == Some(v as char) for scalar values"]

SPECS = """
// A-spec: char::from_u32 on a Unicode scalar value
pub assume_specification [char::from_u32] (v: u32) -> (r: Option<char>)
    ensures (v <= 0x10FFFF && !(0xD800 <= v <= 0xDFFF)) ==> r == Some(v as char);

// ---- spec written from the property statement: C escapes to their ASCII codes --------------------
pub open spec fn esc(a: char) -> char {
    if a == 'n' { 10u8 as char } else if a == 'r' { 13u8 as char } else if a == 't' { 9u8 as char }
    else if a == 'a' { 7u8 as char } else if a == 'b' { 8u8 as char } else if a == 'f' { 12u8 as char }
    else if a == 'v' { 11u8 as char } else if a == '0' { 0u8 as char }
    else { a }        // \\\\ -> backslash, \\" -> quote, any other escaped character stands for itself
}
pub open spec fn decode(s: Seq<char>) -> Seq<char> decreases s.len() {
    if s.len() == 0 { seq![] }
    else if s[0] == '\\\\' {
        if s.len() == 1 { seq![] } else { seq![esc(s[1])] + decode(s.subrange(2, s.len() as int)) }
    } else { seq![s[0]] + decode(s.subrange(1, s.len() as int)) }
}
"""


def candidates(f):
    """every escape the property names, in a string literal and as a character constant: the bytes the compiler stores"""
    src = 'const char s[] = "\\a\\b\\t\\n\\v\\f\\r\\\\z\\"q"; const char t[] = "a\\0b"; unsigned char x;\nvoid main() { x = \'\\f\'; x = \'\\v\'; }\n'
    return [{"source": src, "args": ["-O0"], "expect": {"panic": False, "stdout_contains": "ARRAY s size=12 = 7 8 9 10 11 12 13 92 122 34 113 0 "}, "note": "control escapes, backslash, quote"},
            {"source": src, "args": ["-O0"], "expect": {"panic": False, "stdout_contains": "ARRAY t size=4 = 97 0 98 0 "}, "note": "embedded NUL"},
            {"source": src, "args": ["-O0"], "expect": {"panic": False, "stdout_contains": "LDA #12\n\tSTA x\n\tLDA #11"}, "note": "character constants"}]


def build(repo):
    u = Unit(NAME, TOOL, PROPS, ["src/compile.rs: compile_quoted_string_ex", "src/compile.rs: CompilerState::compile_quoted_string (statements after the loop, R8)", "src/cpp.rs: process() (string-literal extraction window: marker number, counter, table push, R8)"],
             assumptions=["A-vstd: prophetic iterator specification of str::chars()", "A-spec: char::from_u32 returns Some(v as char) for scalar values",
                          "termination of the decoding loop is not proved (R9): IteratorSpec::decrease() is not known to decrease across a None result",
                          "the loop of compile_quoted_string over the pest Pairs of adjacent literals (concatenation) and the quoted_character arm of parse_int are not under contract; only its tail (NUL termination) is"])
    comp = SourceFile(repo, "src/compile.rs")
    q = comp.fn("compile_quoted_string_ex")
    cuts = [q]
    consts, const_lits = common.referenced_consts(comp, q)
    cuts += consts
    nfind = common.r15_find_char(q)
    while_let_to_loop(q, 1, r"^while let Some\(c\) = i\.next\(\)$")
    q.set_header("""#[verifier::exec_allows_no_decreases_clause]
fn compile_quoted_string_ex(s: &str) -> (v: String)
    ensures v@ == decode(s@), //@ C09:decode
""", expect_sig="fn compile_quoted_string_ex(s: &str) -> String")
    # what a referenced constant text holds is known inside the loop as well (plain ASCII texts only)
    const_inv = "".join("            %s@ =~= seq![%s],\n" % (n, ", ".join("'%s'" % ch for ch in l)) for n, l in const_lits if re.match(r"^[A-Za-z0-9 _.,;:+*/=<>-]*$", l))
    q.loop_spec(1, r"^loop /\*@R10\*/$", """
        invariant_except_break v@ + decode(i.remaining()) == decode(s@), //@ C09:decode-inv
            i.obeys_prophetic_iter_laws(),
""" + const_inv + """        ensures v@ == decode(s@), //@ C09:decode-exit
""")
    q.sub(r"\{ let __o = i\.next\(\);", "{\n        let ghost r0 = i.remaining();\n        let __o = i.next();", "hint-placement (ghost only)", expect=(0, 1))
    q.before(r"match i\.next\(\) \{", "            let ghost r1 = i.remaining();")
    q.before(r"^\s*\} else \{", """            proof {
                assert(r1.len() > 0 ==> r0.subrange(2, r0.len() as int) =~= i.remaining());
                assert(r1.len() == 0 ==> r0.len() == 1);
                assert(r1.len() > 0 ==> r0[1] == r1[0]);
            }""")
    q.after_line(r"^\s*\} else \{", "            proof { assert(r0.subrange(1, r0.len() as int) =~= i.remaining()); }")
    # R8: tail of compile_quoted_string (after the loop over the literal's pieces): exactly one NUL is appended to what was accumulated
    cq = comp.fn("compile_quoted_string", within="CompilerState")
    body = cq.body_only()
    from vf.rustcut import mask, match_brace, Cut
    mk = mask(body)
    lp = re.search(r"\bfor \w+ in \w+ \{", mk)
    if not lp:
        raise Undecided("compile_quoted_string: loop over the pieces not found")
    cb = match_brace(mk, lp.end() - 1)
    tail = Cut(body[cb + 1:], cq.rel, cq.line0, "compile_quoted_string: statements after the loop over the pieces (R8)")
    cuts.append(tail)
    # R15: string predicates without vstd specifications (bodies are the original calls)
    tail.sub(r"(\w+)\.ends_with\(('(?:\\.|[^'\\])')\)", r"str_ends_with_char(&\1, \2)", "R15 ends_with(char)")
    tail.sub(r"(\w+)\.starts_with\(('(?:\\.|[^'\\])')\)", r"str_starts_with_char(&\1, \2)", "R15 starts_with(char)")
    tail.sub(r"(\w+)\.is_empty\(\)", r"str_is_empty(&\1)", "R15 is_empty()")
    tail_fn = """
#[verifier::external_body] pub fn str_ends_with_char(s: &String, c: char) -> (r: bool) ensures r == (s@.len() > 0 && s@[s@.len() - 1] == c) { s.ends_with(c) }
#[verifier::external_body] pub fn str_starts_with_char(s: &String, c: char) -> (r: bool) ensures r == (s@.len() > 0 && s@[0] == c) { s.starts_with(c) }
#[verifier::external_body] pub fn str_is_empty(s: &String) -> (r: bool) ensures r == (s@.len() == 0) { s.is_empty() }
// R8: what compile_quoted_string does with the concatenated, decoded pieces `v`
%s
{
    let mut v = v;
%s
}
""" % (("pub struct Error { pub e: u8 }\nfn quoted_string_tail(v: String) -> (r: Result<String, Error>)\n    ensures r is Ok && r->Ok_0@ == v@.push(0u8 as char), //@ C09:single-nul-terminator" if re.search(r"\bOk\(v\)\s*$", tail.text.strip()) else
       "fn quoted_string_tail(v: String) -> (r: String)\n    ensures r@ == v@.push(0u8 as char), //@ C09:single-nul-terminator"), tail.text)
    # R8: the literal-extraction window of cpp::process: the marker written into the text must be the table index of the literal pushed
    cpp = SourceFile(repo, "src/cpp.rs")
    ps, pob, pcb = cpp.find_fn_span("process")
    win = cpp.block(r"^\s*uncommented_buf\s*$|^\s*uncommented_buf\.push_str\(&format!\(|^\s*\.push_str\(&format!\(\"\{\}@\{\}@\"", r"^\s*remaining = &remaining\[cursor \+ 1\.\.\];", ps, pcb,
                    desc="cpp::process(): string-literal extraction window (marker, counter, table push) (R8)")
    cuts.append(win)
    n1 = win.sub(r"uncommented_buf\s*\.push_str\(&format!\(\"\{\}@\{\}@\", left, ([^)]+)\)\);", r"let __marker: u32 = \1;", "R8 the marker number written into the text becomes the result", expect=1)
    win.sub(r"let s = remaining\[[^;]*\]\.to_string\(\);", "let s = lit;", "R8 the literal's text becomes a parameter", expect=1)
    st = cpp.item("enum", "State")
    common.r2(st)
    st.sub(r"#\[derive\(([^)]*)\)\]", "#[derive(Eq, PartialEq, Copy, Clone, Structural)]", "R2-derive+structural")
    cuts.append(st)
    win_fn = st.text + """
pub struct Context { pub literal_strings: Vec<String>, pub literal_strings_number: u32 }      // R6 shim: the two fields the window touches
// R8: cpp::process(), from writing the @N@ marker to pushing the literal's raw text, verbatim (free variables are parameters)
fn literal_window(context: &mut Context, lit: String, state: State, in_multiline_comments: bool) -> (marker: u32)
    requires old(context).literal_strings_number == old(context).literal_strings@.len(), old(context).literal_strings@.len() < 0xffff_fff0,
    ensures
        final(context).literal_strings@ == old(context).literal_strings@.push(lit), //@ C09:literal-text-stored-verbatim
        marker == old(context).literal_strings@.len(), //@ C09:marker-names-the-stored-literal
        final(context).literal_strings_number == final(context).literal_strings@.len(), //@ C09:marker-counter-tracks-table
{
%s
    __marker
}
""" % win.text
    if const_lits:
        q.body_start("    proof { %s }" % " ".join('reveal_strlit("%s");' % l for _, l in const_lits))
    text = common.PRELUDE + common.header_comment(NAME, cuts) + "verus! {\n" + SPECS + (common.STR_FIND_SHIM if nfind else "") + "\n".join(c.text for c in consts) + "\n" + q.text + "\n" + tail_fn + win_fn + common.CANARY + "\n} // verus!\n"
    u.text[None] = text
    u.rewrites = common.collect_rewrites(cuts)
    u.dropped = ["R10: while-let desugared to loop/match (Rust reference definition)"]
    return u
