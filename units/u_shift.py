"""U-shift: GeneratorState::generate_shift whole (8-bit << and >> by a constant, the `>> 8` / `<< 8` byte-selection shortcuts), verified in Verus
against stubs of asm()/sasm() that execute each emitted instruction on a ghost 6502 (A, X, Y, cctmp, carry, stack).  Postcondition: the returned
expression denotes the shifted value, X / Y / the stack are as on entry, a live accumulator is preserved (C01, C16)."""
import re
from vf.core import Unit
from vf.rustcut import SourceFile, Undecided, mask, match_brace
from . import common

NAME = "U-shift"
TOOL = "verus"
PROPS = ["C01", "C16"]
RLIMIT = 400
TRUSTED = ["verus 0.2026.09.13 + z3", "A-asm-signedness: asm() returns the signedness of the operand it was given (variable's `signed`, the flag carried by A/Tmp, false otherwise)", "A-isa: ASL / LSR / ROR on the accumulator, CMP #imm (carry = A >= imm), CLC, ADC, EOR, LDA, TXA, TYA, PHA, PLA, STA cctmp (MOS datasheet)",
           "asm()'s own contract is U-asm's subject; the folded value of two constants is U-fold's subject"]

SPECS = """
pub struct Error { pub e: u8 }
%(types)s
use AsmMnemonic::*;
pub struct Variable { pub var_type: VariableType, pub signed: bool, pub var_const: bool, pub size: usize }
pub struct CompilerState { pub x: u8 }
impl CompilerState {
    pub uninterp spec fn var(&self, name: Seq<char>) -> Variable;
    pub uninterp spec fn declared(&self, name: Seq<char>) -> bool;
    // the real get_variable unwraps the table lookup: it may only be called with a name known to be declared
    #[verifier::external_body] pub fn get_variable(&self, name: &str) -> (r: &Variable)
        requires self.declared(name@), //@ C16:shift-operand-variable-looked-up-without-panic
        ensures *r == self.var(name@) { unimplemented!() }
    #[verifier::external_body] pub fn syntax_error(&self, message: &str, loc: usize) -> Error { unimplemented!() }
    #[verifier::external_body] pub fn compiler_error(&self, message: &str, loc: usize) -> Error { unimplemented!() }
}
// ---- ghost 6502 ------------------------------------------------------------------------------------------------------------------
pub struct M { pub a: int, pub x: int, pub y: int, pub tmp: int, pub c: int, pub stack: Seq<int> }
pub open spec fn byte(v: int) -> bool { 0 <= v <= 255 }
pub open spec fn wf(m: M) -> bool { byte(m.a) && byte(m.x) && byte(m.y) && byte(m.tmp) && (m.c == 0 || m.c == 1) }
pub uninterp spec fn mem(e: ExprType, hb: bool) -> int;
#[verifier::external_body] pub proof fn axiom_mem_byte(e: ExprType, hb: bool) ensures byte(mem(e, hb)) {}
pub uninterp spec fn imm(v: i32, hb: bool) -> int;
pub uninterp spec fn bxor(a: int, b: int) -> int;        // EOR (only used by the sign-extension idiom, whose arithmetic is not decided here)
#[verifier::external_body] pub broadcast proof fn axiom_bxor_byte(a: int, b: int) ensures byte(#[trigger] bxor(a, b)) {}
#[verifier::external_body] pub broadcast proof fn axiom_imm_byte(v: i32, hb: bool) ensures byte(#[trigger] imm(v, hb)) {}
pub open spec fn bv(m: M, e: ExprType, hb: bool) -> int {
    match e { ExprType::Immediate(v) => imm(v, hb), ExprType::A(_) => m.a, ExprType::Tmp(_) => m.tmp, ExprType::X => m.x, ExprType::Y => m.y, _ => mem(e, hb) }
}
pub open spec fn step(g: M, m: AsmMnemonic, e: ExprType, hb: bool) -> M {
    if m == LDA { M { a: bv(g, e, hb), ..g } }
    else if m == STA && e is Tmp { M { tmp: g.a, ..g } }
    else if m == TXA { M { a: g.x, ..g } }
    else if m == TYA { M { a: g.y, ..g } }
    else if m == PHA { M { stack: g.stack.push(g.a), ..g } }
    else if m == PLA { M { a: g.stack.last(), stack: g.stack.drop_last(), ..g } }
    else if m == ASL { M { a: if 2 * g.a >= 256 { 2 * g.a - 256 } else { 2 * g.a }, c: if 2 * g.a >= 256 { 1int } else { 0int }, ..g } }
    else if m == LSR { M { a: g.a / 2, c: g.a %% 2, ..g } }
    else if m == ROR { M { a: g.a / 2 + 128 * g.c, c: g.a %% 2, ..g } }
    else if m == CMP { M { c: if g.a >= bv(g, e, hb) { 1int } else { 0int }, ..g } }
    else if m == CLC { M { c: 0, ..g } }
    else if m == ADC { let t = g.a + bv(g, e, hb) + g.c; M { a: if t >= 256 { t - 256 } else { t }, c: if t >= 256 { 1int } else { 0int }, ..g } }
    else if m == EOR { M { a: bxor(g.a, bv(g, e, hb)), ..g } }
    else { g }
}
// ---- oracle: C shifts of an 8-bit value by n ------------------------------------------------------------------------------------------
pub open spec fn shl8(a: int, n: int) -> int decreases n { if n <= 0 { a } else { let t = shl8(a, n - 1); if 2 * t >= 256 { 2 * t - 256 } else { 2 * t } } }
pub open spec fn shr8(a: int, n: int) -> int decreases n { if n <= 0 { a } else { shr8(a, n - 1) / 2 } }
pub open spec fn asr1(a: int) -> int { a / 2 + (if a >= 128 { 128int } else { 0int }) }      // arithmetic shift of a two's-complement byte
pub proof fn lemma_shift_bytes(a: int, n: int)
    requires byte(a), ensures byte(shl8(a, n)), byte(shr8(a, n)) decreases n
{ if n > 0 { lemma_shift_bytes(a, n - 1); } }
pub struct GeneratorState<'a> {
    pub compiler_state: &'a CompilerState,
    pub flags: FlagsState, pub acc_in_use: bool, pub tmp_in_use: bool, pub carry_flag_ok: bool,
    pub gh: Ghost<M>,
}
pub open spec fn plain_same(a: &GeneratorState, b: &GeneratorState) -> bool {
    a.compiler_state == b.compiler_state && a.flags == b.flags && a.acc_in_use == b.acc_in_use && a.tmp_in_use == b.tmp_in_use && a.carry_flag_ok == b.carry_flag_ok
}
pub open spec fn imm128(e: ExprType) -> bool { e == ExprType::Immediate(0x80) }
#[verifier::external_body] pub proof fn axiom_imm_0x80() ensures imm(0x80, false) == 128 {}
"""

STUBS = """
    // the total lookup (generate_statements.rs): an error for a name that is not a variable
    #[verifier::external_body]
    pub(crate) fn variable_or_error(&self, name: &str, pos: usize) -> (r: Result<&'a Variable, Error>)
        ensures (r is Ok) == self.compiler_state.declared(name@), r is Ok ==> *r->Ok_0 == self.compiler_state.var(name@),
    { unimplemented!() }
    #[verifier::external_body]
    pub(crate) fn asm(&mut self, mnemonic: AsmMnemonic, operand: &ExprType, pos: usize, high_byte: bool) -> (res: Result<bool, Error>)
        requires
            mnemonic == LDA || mnemonic == CMP || mnemonic == ADC || mnemonic == EOR || (mnemonic == STA && operand is Tmp), //@ C01:shift-only-known-instructions
            !(operand is X) && !(operand is Y) && !(operand is Nothing) && !(operand is Label), //@ C16:shift-asm-operand-kind
            mnemonic == LDA || !(operand is A), //@ C16:shift-asm-no-alu-on-a
        ensures plain_same(old(self), final(self)),
            res is Ok ==> final(self).gh@ == step(old(self).gh@, mnemonic, *operand, high_byte),
            res is Ok ==> res->Ok_0 == operand_signed(old(self), *operand),      // A-asm-signedness: asm() returns the signedness of its operand
    { unimplemented!() }
    #[verifier::external_body]
    pub(crate) fn sasm(&mut self, mnemonic: AsmMnemonic) -> (res: Result<bool, Error>)
        requires
            mnemonic == PHA || mnemonic == PLA || mnemonic == CLC || mnemonic == TXA || mnemonic == TYA || mnemonic == ASL || mnemonic == LSR || mnemonic == ROR, //@ C01:shift-only-known-implied
            mnemonic == PLA ==> old(self).gh@.stack.len() > 0, //@ C01:shift-pla-has-pha
        ensures plain_same(old(self), final(self)), res is Ok, final(self).gh@ == step(old(self).gh@, mnemonic, ExprType::Nothing, false),
    { unimplemented!() }
"""

HEADER = """#[verifier::exec_allows_no_decreases_clause]
    pub(crate) fn generate_shift%(suffix)s(&mut self, left: &ExprType, op: &Operation, right: &ExprType, pos: usize, high_byte: bool) -> (res: Result<ExprType, Error>)
        requires
            %(case)s,      // one of the cases of lemma cases_cover (the same text is verified once per case)
            wf(old(self).gh@),
            *op is Bls || *op is Brs,
            left is A ==> old(self).acc_in_use,
            left is Tmp ==> old(self).tmp_in_use,
            (left is Absolute ==> -0x100_0000 <= left->Absolute_2 <= 0x100_0000 && old(self).compiler_state.var(left->Absolute_0@).size < 0x100_0000),
        ensures
            final(self).compiler_state == old(self).compiler_state,
            res is Ok ==> wf(final(self).gh@),
            // the value, for the plain path (operand loaded, shifted n times, n in 0..7): unsigned, or left shift, or a signed right shift by one
            (res is Ok && (res->Ok_0 is A || res->Ok_0 is Tmp) && right is Immediate && 0 <= right->Immediate_0 <= 7 && !byte_select(old(self), *left, *op, *right)
                && *op is Bls) ==> bv(final(self).gh@, res->Ok_0, false) == shl8(bv(old(self).gh@, *left, false), right->Immediate_0 as int), //@ C01:shift-left-value
            (res is Ok && (res->Ok_0 is A || res->Ok_0 is Tmp) && right is Immediate && 0 <= right->Immediate_0 <= 7 && !byte_select(old(self), *left, *op, *right)
                && *op is Brs && !operand_signed(old(self), *left)) ==> bv(final(self).gh@, res->Ok_0, false) == shr8(bv(old(self).gh@, *left, false), right->Immediate_0 as int), //@ C01:shift-right-value
            (res is Ok && (res->Ok_0 is A || res->Ok_0 is Tmp) && right == ExprType::Immediate(1) && !byte_select(old(self), *left, *op, *right)
                && *op is Brs && operand_signed(old(self), *left)) ==> bv(final(self).gh@, res->Ok_0, false) == asr1(bv(old(self).gh@, *left, false)), //@ C01:shift-right-signed-by-one
            // nothing else is disturbed
            res is Ok ==> final(self).gh@.x == old(self).gh@.x && final(self).gh@.y == old(self).gh@.y, //@ C01:shift-index-registers-kept
            res is Ok ==> final(self).gh@.stack == old(self).gh@.stack, //@ C01:shift-stack-balanced
            (res is Ok && old(self).acc_in_use && !(left is A)) ==> (final(self).gh@.a == old(self).gh@.a && !(res->Ok_0 is A)), //@ C01:shift-live-accumulator-kept
            (res is Ok && res->Ok_0 is A) ==> final(self).acc_in_use, //@ C01:shift-result-a-marked-live
            (res is Ok && res->Ok_0 is Tmp) ==> final(self).tmp_in_use, //@ C01:shift-result-tmp-marked-live
"""

EXTRA_SPECS = """
// the `>> 8` / `<< 8` shortcuts select a byte of a wider object instead of shifting: no shifted-value claim there
pub open spec fn byte_select(g: &GeneratorState, left: ExprType, op: Operation, right: ExprType) -> bool { right == ExprType::Immediate(8) }
pub open spec fn operand_signed(g: &GeneratorState, left: ExprType) -> bool {
    match left {
        ExprType::Absolute(v, _, _) => g.compiler_state.var(v@).signed, ExprType::AbsoluteX(v) => g.compiler_state.var(v@).signed, ExprType::AbsoluteY(v) => g.compiler_state.var(v@).signed,
        ExprType::A(s) => s, ExprType::Tmp(s) => s, _ => false,
    }
}
"""


def r23_shift_fold(cut):
    """R23: the two folding arms of generate_shift are chains of Option combinators with closures (u32::try_from(..).ok().and_then(|s| ..).map(Ctor).ok_or_else(|| e));
    they are replaced by a call to an external_body shim that returns an arbitrary Result<ExprType, Error> holding an Immediate: their value is U-fold's subject (Kani runs
    those very arms), here only 'a constant or an error, nothing emitted' matters."""
    n = 0
    for opn in ("Brs", "Bls"):
        m = re.search(r"Operation::%s\(_\) => return u32::try_from\(\*r\)" % opn, cut.text)
        if not m:
            continue
        start = cut.text.index("return", m.start())
        mk = mask(cut.text)
        # the statement ends at the `,` that closes the match arm: find the ok_or_else( and its closing paren
        k = cut.text.index("ok_or_else(", start) + len("ok_or_else")
        cp = match_brace(mk, k, "(", ")")
        cut.text = cut.text[:start] + "return fold_shift_shim(&self.compiler_state, *l, *r, pos)" + cut.text[cp + 1:]
        n += 1
    if n:
        cut.log.append("R23 x%d constant-folding arms of generate_shift -> shim (value decided by U-fold)" % n)
    return n


def candidates(f):
    """shifts by constants around the limits, with and without a live accumulator, unsigned and signed, on the 6502 interpreter"""
    out = []
    def prog(decl, stmt, sim, note=""):
        out.append({"source": "%s\nvoid main() { %s }\n" % (decl, stmt), "args": ["-O0"], "expect": {"panic": False}, "simulate": dict(sim, stack_empty=True), "note": note})
    for a in (1, 0x81, 0x55, 0xff, 0):
        for n in (0, 1, 2, 3, 7, 9, 12):
            prog("unsigned char a, b, c;", "c = a << %d;" % n, {"init": {"a": a}, "expect": {"c": (a << n) & 255}}, "a=%d" % a)
            prog("unsigned char a, b, c;", "c = a >> %d;" % n, {"init": {"a": a}, "expect": {"c": (a >> n) & 255}}, "a=%d" % a)
            prog("unsigned char a, b, c;", "c = (b + 1) + (a << %d);" % n, {"init": {"a": a, "b": 10}, "expect": {"c": (11 + ((a << n) & 255)) & 255}}, "a=%d live accumulator" % a)
            prog("unsigned char a, b, c;", "c = (b + 1) + (a >> %d);" % n, {"init": {"a": a, "b": 10}, "expect": {"c": (11 + (a >> n)) & 255}}, "a=%d live accumulator" % a)
            prog("unsigned char a, c;", "X = a; c = X << %d;" % n, {"init": {"a": a}, "expect": {"c": (a << n) & 255}}, "X=%d" % a)
        for n in (1, 2, 3, 7):
            s = a - 256 if a >= 128 else a
            prog("signed char a, c;", "c = a >> %d;" % n, {"init": {"a": a}, "expect": {"c": (s >> n) & 255}}, "a=%d signed" % s)
    return out


def build(repo):
    u = Unit(NAME, TOOL, PROPS, ["src/generate/generate_arithm.rs: GeneratorState::generate_shift"],
             assumptions=["asm()/sasm() are stubs that execute the instruction on a ghost 6502 (A-isa); their requires clauses are obligations of this unit",
                          "the arithmetic of the sign-extension idiom for signed `>> n`, n >= 2 (LSR^n, CLC, ADC #mask, EOR #mask) is not decided here (EOR is uninterpreted); "
                          "the byte-selection shortcuts (`>> 8`, `<< 8`) carry only the frame / stack / liveness clauses",
                          "R23: the two constant-folding arms are replaced by a shim (their value is decided by U-fold on the same text)",
                          "termination of the shift loops (R9) is not an obligation; the shift count is a constant in 0..7 there"])
    ga = SourceFile(repo, "src/generate/generate_arithm.rs")
    gm = SourceFile(repo, "src/generate/mod.rs")
    comp = SourceFile(repo, "src/compile.rs")
    asmf = SourceFile(repo, "src/assemble.rs")
    cuts, tys = [], []
    for sf, kind, name, structural in ((comp, "enum", "Operation", True), (comp, "enum", "VariableType", True), (asmf, "enum", "AsmMnemonic", True),
                                       (gm, "enum", "ExprType", False), (gm, "enum", "FlagsState", False)):
        c = sf.item(kind, name)
        common.r2(c, structural=structural)
        c.sub(r"pub\(crate\) enum", "pub enum", "R2-pub")
        if not structural:
            c.sub(r"#\[derive\(([^)]*)\)\]", lambda m: "#[derive(%s)]" % ", ".join(x for x in [y.strip() for y in m.group(1).split(",")] if x not in ("PartialEq", "Eq", "Debug")), "R2-derive-noeq")
        cuts.append(c)
        tys.append(c.text)
    f = ga.fn("generate_shift", within="GeneratorState")
    cuts.append(f)
    r23_shift_fold(f)
    if re.search(r"\.and_then\(|\.filter\(", f.text):
        raise Undecided("generate_shift: an Option combinator chain remains after R23")
    f.sub(r"varname\.clone\(\)", "clone_string(varname)", "R11 String::clone -> shim", expect=(0, 2))
    f.sub(r"offset \+ v\.size as i32", "*offset + v.size as i32", "R3-deref", expect=(0, 1))
    cases = [("_left", "*op is Bls"), ("_right_mem", "*op is Brs && (left is Absolute || left is AbsoluteX || left is AbsoluteY)"),
             ("_right_other", "*op is Brs && !(left is Absolute || left is AbsoluteX || left is AbsoluteY)")]
    base = f.text
    copies = []
    for suffix, cond in cases:
        f.text = base
        f.set_header(HEADER % {"suffix": suffix, "case": cond}, expect_sig="fn generate_shift(&mut self, left: &ExprType, op: &Operation, right: &ExprType, pos: usize, high_byte: bool) -> Result<ExprType, Error>")
        f.body_start("""        broadcast use axiom_bxor_byte, axiom_imm_byte;
        proof { axiom_mem_byte(*left, false); axiom_mem_byte(*left, true); axiom_imm_0x80(); reveal_with_fuel(shl8, 2); reveal_with_fuel(shr8, 2); }
        let ghost g0 = self.gh@;""")
        loops = f.loops()
        nl = 0
        for ks, kw, ob in loops:
            if re.match(r"^for _ in 0\.\.\*v$", re.sub(r"\s+", " ", f.text[ks:ob]).strip()):
                nl += 1
        if nl != 2:
            raise Undecided("generate_shift: expected the two shift loops `for _ in 0..*v`, found %d" % nl)
        f.loop_spec(1, r"^for _ in 0\.\.\*v$", """
                invariant 0 <= *v <= 7, wf(self.gh@), self.gh@.a == shr8(gl.a, _i as int), self.gh@.x == gl.x, self.gh@.y == gl.y, self.gh@.tmp == gl.tmp, self.gh@.stack == gl.stack,
                    self.compiler_state == old(self).compiler_state, self.acc_in_use == old_flags.0, self.tmp_in_use == old_flags.1, byte(gl.a),
""", new_header="for _i in 0..*v")
        f.loop_spec(2, r"^for _ in 0\.\.\*v$", """
                invariant 0 <= *v <= 7, wf(self.gh@), operation == LSR || operation == ASL, self.gh@.a == (if operation == LSR { shr8(gl.a, _i as int) } else { shl8(gl.a, _i as int) }),
                    self.gh@.x == gl.x, self.gh@.y == gl.y, self.gh@.tmp == gl.tmp, self.gh@.stack == gl.stack,
                    self.compiler_state == old(self).compiler_state, self.acc_in_use == old_flags.0, self.tmp_in_use == old_flags.1, byte(gl.a),
""", new_header="for _i in 0..*v")
        f.before(r"let operation = match op \{", "        let ghost gl = self.gh@; let ghost old_flags = (self.acc_in_use, self.tmp_in_use);\n        proof { lemma_shift_bytes(gl.a, 8); }\n")
        copies.append(f.text)
    cover = "proof fn cases_cover(left: &ExprType, op: &Operation) requires *op is Bls || *op is Brs ensures " + " || ".join("(%s)" % c for _, c in cases) + " //@ C01:shift-cases-exhaustive\n{}\n"
    shim = """
#[verifier::external_body]
pub fn clone_string(s: &String) -> (r: String) ensures r@ == s@ { s.clone() }
#[verifier::external_body]
pub fn fold_shift_shim(cs: &CompilerState, l: i32, r: i32, pos: usize) -> (res: Result<ExprType, Error>) ensures res is Ok ==> res->Ok_0 is Immediate { unimplemented!() }
"""
    text = common.PRELUDE + common.header_comment(NAME, cuts) + "verus! {\n" + (SPECS % {"types": "\n".join(tys)}) + EXTRA_SPECS + shim + \
        "impl<'a> GeneratorState<'a> {\n" + STUBS + "\n" + "\n".join(copies) + "\n}\n" + cover + common.CANARY + "\n} // verus!\n"
    u.text[None] = text
    u.rewrites = common.collect_rewrites(cuts)
    u.dropped = ["R6 shim environment", "R23: the constant-folding arms (decided by U-fold)"]
    return u
