"""U-optloop: block D of AssemblyCode::optimize -- the loop that makes `second` point to an instruction, restarting the scan at a label or an inline assembly
line -- cut verbatim (R8) and verified in Verus against a cursor over the line vector (R32): when the block is left, `first` and `second` are instructions
with nothing but comments and removed lines between them, and either the scan did not restart and what is known about the registers is untouched, or it
did and what is known comes from `first` alone: nothing survives a label (a join point) or an inline assembly line (which can change any register)
(C02, C18)."""
import re
from vf.core import Unit
from vf.rustcut import SourceFile, Undecided, match_brace
from . import common

NAME = "U-optloop"
TOOL = "verus"
PROPS = ["C02", "C18", "C16", "C15"]
RLIMIT = 200
TRUSTED = ["verus 0.2026.09.13 + z3", "R32: itertools::multipeek(self.code.iter_mut()) is a cursor over the vector; the block only reads through `first` / `second` (checked on its text)",
           "A-vstd (String clone, Option)"]

SPECS = """
pub open spec fn is_ins(l: Option<&AsmLine>) -> bool { l is Some && l->Some_0 is Instruction }
pub open spec fn ins(l: Option<&AsmLine>) -> AsmInstruction { l->Some_0->Instruction_0 }
pub open spec fn known(k: Option<String>, t: Seq<char>) -> bool { k is Some && k->Some_0@ == t }
// a line that neither executes nor can be jumped to
pub open spec fn transparent(l: AsmLine) -> bool { l is Comment || l is Dummy }
pub open spec fn at(s: Seq<AsmLine>, k: int) -> Option<AsmLine> { if 0 <= k < s.len() { Some(s[k]) } else { None } }
pub open spec fn dv(l: Option<&AsmLine>) -> Option<AsmLine> { match l { Some(r) => Some(*r), None => None } }
// R32: the cursor; pos = number of next() calls so far
pub struct Cursor<'a> { pub lines: &'a Vec<AsmLine>, pub pos: usize }
impl<'a> Cursor<'a> {
    pub fn next(&mut self) -> (r: Option<&'a AsmLine>)
        requires old(self).pos <= old(self).lines@.len(), old(self).lines@.len() < usize::MAX,
        ensures dv(r) == at(old(self).lines@, old(self).pos as int), final(self).pos == old(self).pos + 1, final(self).lines == old(self).lines,
    {
        let p = self.pos;
        self.pos = self.pos + 1;
        if p < self.lines.len() { Some(&self.lines[p]) } else { None }
    }
}
// what is known comes from `first` alone
pub open spec fn fresh(first: Option<&AsmLine>, a: Option<String>, x: Option<String>, y: Option<String>, flags: FlagsState) -> bool {
    (a is None || (ins(first).mnemonic == AsmMnemonic::LDA && known(a, ins(first).dasm_operand@)))
    && (x is None || (ins(first).mnemonic == AsmMnemonic::LDX && known(x, ins(first).dasm_operand@)))
    && (y is None || (ins(first).mnemonic == AsmMnemonic::LDY && known(y, ins(first).dasm_operand@)))
    && (flags == FlagsState::Unknown || (flags == FlagsState::A && ins(first).mnemonic == AsmMnemonic::LDA) || (flags == FlagsState::X && ins(first).mnemonic == AsmMnemonic::LDX)
        || (flags == FlagsState::Y && ins(first).mnemonic == AsmMnemonic::LDY))
}
pub enum D<'a> { Done, Go(Option<&'a AsmLine>, Option<&'a AsmLine>, Option<String>, Option<String>, Option<String>, FlagsState, Ghost<int>) }
"""

FN = """
// R8: block D of optimize(), verbatim up to R32; free variables are parameters / results (D::Done = `return removed_instructions`)
pub fn second_to_instruction<'a>(iter: &mut Cursor<'a>, first: Option<&'a AsmLine>, second: Option<&'a AsmLine>, accumulator: Option<String>, x_register: Option<String>, y_register: Option<String>,
                                 flags: FlagsState, Ghost(fi0): Ghost<int>) -> (r: D<'a>)
    requires
        old(iter).lines@.len() < usize::MAX - 1, 1 <= old(iter).pos <= old(iter).lines@.len() + 1,
        // the invariant of optimize()'s main loop: `first` is an instruction, `second` the line the cursor delivered last, only comments / removed lines in between
        is_ins(first), dv(first) == at(old(iter).lines@, fi0), 0 <= fi0 < old(iter).pos - 1, dv(second) == at(old(iter).lines@, old(iter).pos - 1),
        forall|k: int| fi0 < k < old(iter).pos - 1 ==> transparent(#[trigger] old(iter).lines@[k]),
    ensures
        final(iter).lines == old(iter).lines,
        r is Go ==> is_ins(r->Go_0) && is_ins(r->Go_1), //@ C02:optloop-both-are-instructions
        r is Go ==> dv(r->Go_0) == at(old(iter).lines@, r->Go_6@) && dv(r->Go_1) == at(old(iter).lines@, final(iter).pos - 1) && 0 <= r->Go_6@ < final(iter).pos - 1 <= old(iter).lines@.len(),
        // nothing that executes, can be jumped to, or is inline assembly lies between the two instructions of the pair
        r is Go ==> (forall|k: int| r->Go_6@ < k < final(iter).pos - 1 ==> transparent(#[trigger] old(iter).lines@[k])), //@ C02,C18:optloop-only-comments-between-the-pair
        // no restart: what is known is untouched
        (r is Go && r->Go_6@ == fi0) ==> r->Go_2 == accumulator && r->Go_3 == x_register && r->Go_4 == y_register && r->Go_5 == flags, //@ C02:optloop-knowledge-kept-without-restart
        // restart (at a label or an inline assembly line): what is known comes from the new `first` alone
        (r is Go && r->Go_6@ != fi0) ==> fresh(r->Go_0, r->Go_2, r->Go_3, r->Go_4, r->Go_5), //@ C02,C18:optloop-knowledge-reset-at-label-or-inline-assembly
{
    let mut first = first;
    let mut second = second;
    let mut accumulator = accumulator;
    let mut x_register = x_register;
    let mut y_register = y_register;
    let mut flags = flags;
    let ghost mut fi: int = fi0;
    let ghost a0 = accumulator; let ghost x0 = x_register; let ghost y0 = y_register; let ghost f0 = flags;
%s
    D::Go(first, second, accumulator, x_register, y_register, flags, Ghost(fi))
}
"""

OUTER_INV = """                invariant iter.lines == old(iter).lines, iter.lines@.len() < usize::MAX - 1, 1 <= iter.pos <= iter.lines@.len() + 1,
                    is_ins(first), dv(first) == at(iter.lines@, fi), 0 <= fi < iter.pos - 1, dv(second) == at(iter.lines@, iter.pos - 1),
                    forall|k: int| fi < k < iter.pos - 1 ==> transparent(#[trigger] iter.lines@[k]),
                    fi == fi0 ==> accumulator == a0 && x_register == x0 && y_register == y0 && flags == f0,
                    fi != fi0 ==> fresh(first, accumulator, x_register, y_register, flags), fi >= fi0,
                ensures is_ins(second),
                decreases iter.lines@.len() + 1 - iter.pos"""
INNER_INV = """                            invariant iter.lines == old(iter).lines, iter.lines@.len() < usize::MAX - 1, 1 <= iter.pos <= iter.lines@.len() + 1,
                                dv(first) == at(iter.lines@, fi), fi == iter.pos - 1, fi > fi0, iter.pos > p_in,
                            ensures is_ins(first),
                            decreases iter.lines@.len() + 1 - iter.pos"""


def build(repo):
    u = Unit(NAME, TOOL, PROPS, ["src/assemble.rs: AssemblyCode::optimize -- block 'Make sure second points also to an instruction' (R8)", "src/assemble.rs: AssemblyCode::optimize -- head, up to the main loop (R8)"],
             assumptions=["the block's precondition is the invariant of optimize()'s main loop (`first` an instruction, `second` the next line): established by the code around the block, which is not under contract as a loop",
                          "R32 cursor model of the multipeek iterator (next() only; the look-ahead of block B is U-opt's Peek shim)"])
    f, types, cuts = common.asm_types(repo)
    gm = SourceFile(repo, "src/generate/mod.rs")
    fl = gm.item("enum", "FlagsState")
    common.r2(fl, structural=False)
    fl.sub(r"pub\(crate\) enum", "pub enum", "R2-pub")
    fl.sub(r"#\[derive\(([^)]*)\)\]", "#[derive(PartialEq, Clone)]", "R2-derive")
    cuts.append(fl)
    s0, ob0, cb0 = f.find_fn_span("optimize")
    m = f.masked
    a = re.compile(r"^[ \t]*// Make sure second points also to an instruction", re.M).search(f.text, ob0, cb0)
    if not a:
        raise Undecided("optimize(): the comment `// Make sure second points also to an instruction` was not found")
    lp = re.compile(r"\bloop \{").search(m, a.end(), cb0)
    if not lp or m[a.end():lp.start()].strip():
        raise Undecided("optimize(): no `loop {` right after the comment `// Make sure second points also to an instruction`")
    lcb = match_brace(m, lp.end() - 1, "{", "}")
    c = f.cut_span(f.text.rfind("\n", 0, lp.start()) + 1, lcb + 1, "optimize(): block 'Make sure second points also to an instruction' (R8)")
    cuts.append(c)
    if re.search(r"\*\s*(first|second)\b|\b(first|second)\.(unwrap|as_mut|as_deref_mut)\(", c.text):
        raise Undecided("optimize(): the block writes through `first` / `second`: outside R32")
    c.sub(r"\breturn removed_instructions\b", "return D::Done", "R8 the enclosing function's return is the window's result Done", expect=(1, 6))
    c.sub(r"_ => first = iter\.next\(\),", "_ => { first = iter.next(); proof { fi = iter.pos - 1; } }", "R32 ghost: index of `first` (annotation)", expect=(0, 4))
    c.sub(r"(?<!\{ )\bfirst = iter\.next\(\);", "first = iter.next(); proof { fi = iter.pos - 1; }", "R32 ghost: index of `first` (annotation)", expect=(0, 4))
    c.sub(r"\bflags == FlagsState::(A|X|Y|Unknown)\b", r"(match &flags { FlagsState::\1 => true, _ => false })", "R3 derived == on an enum with String-carrying variants -> match", expect=(0, 8))
    c.loop_spec(1, r"^loop$", OUTER_INV)
    c.at_block_start(r"\bloop\b", "                let ghost p_in = iter.pos;")
    ls = c.loops()
    if len(ls) >= 2:
        c.loop_spec(2, r"^loop$", INNER_INV)
    if len(ls) > 2:
        raise Undecided("optimize(): block D has %d loops, the unit's invariants cover 2" % len(ls))
    # block 0: the head of optimize() -- first instruction, the line after it, and what is known at the start
    h = re.compile(r"^[ \t]*let mut first = iter\.next\(\);", re.M).search(m, ob0, cb0)
    ml = re.compile(r"^[ \t]*loop \{\s*\n\s*// For each iteration of this loop", re.M).search(f.text, ob0, cb0)
    if not h or not ml or ml.start() < h.start():
        raise Undecided("optimize(): head (`let mut first = iter.next();` .. main loop) not found")
    c0 = f.cut_span(h.start(), ml.start(), "optimize(): head, from `let mut first = iter.next();` to the main loop (R8)")
    cuts.append(c0)
    if re.search(r"\*\s*(first|second)\b|\b(first|second)\.(unwrap|as_mut)\(", c0.text):
        raise Undecided("optimize(): the head writes through `first` / `second`: outside R32")
    c0.sub(r"\breturn removed_instructions\b", "return D::Done", "R8 the enclosing function's return is the window's result Done", expect=(1, 3))
    c0.sub(r"_ => first = iter\.next\(\),", "_ => { first = iter.next(); proof { fi = iter.pos - 1; } }", "R32 ghost: index of `first` (annotation)", expect=(0, 2))
    c0.sub(r"let mut first = iter\.next\(\);", "let mut first = iter.next(); proof { fi = iter.pos - 1; }", "R32 ghost: index of `first` (annotation)", expect=1)
    c0.sub(r"\bflags == FlagsState::(A|X|Y|Unknown)\b", r"(match &flags { FlagsState::\1 => true, _ => false })", "R3 derived == on an enum with String-carrying variants -> match", expect=(0, 8))
    if len(c0.loops()) != 1:
        raise Undecided("optimize(): the head has %d loops, expected 1" % len(c0.loops()))
    c0.loop_spec(1, r"^loop$", """            invariant iter.lines == old(iter).lines, iter.lines@.len() < usize::MAX - 1, 1 <= iter.pos <= iter.lines@.len() + 1, dv(first) == at(iter.lines@, fi), fi == iter.pos - 1,
            ensures is_ins(first),
            decreases iter.lines@.len() + 1 - iter.pos""")
    head = """
// R8: the head of optimize(), verbatim up to R32: the first instruction, the line after it, what is known at the start
pub fn head<'a>(iter: &mut Cursor<'a>, accumulator: Option<String>, x_register: Option<String>, y_register: Option<String>) -> (r: D<'a>)
    requires old(iter).lines@.len() < usize::MAX - 1, old(iter).pos == 0, accumulator is None, x_register is None, y_register is None,
    ensures final(iter).lines == old(iter).lines,
        r is Go ==> is_ins(r->Go_0) && dv(r->Go_0) == at(old(iter).lines@, r->Go_6@) && dv(r->Go_1) == at(old(iter).lines@, final(iter).pos - 1) && r->Go_6@ == final(iter).pos - 2, //@ C02:optloop-head-first-and-the-line-after-it
        r is Go ==> fresh(r->Go_0, r->Go_2, r->Go_3, r->Go_4, r->Go_5), //@ C02:optloop-head-knowledge-from-first-alone
{
    let mut accumulator = accumulator;
    let mut x_register = x_register;
    let mut y_register = y_register;
    let ghost mut fi: int = 0;
%s
    D::Go(first, second, accumulator, x_register, y_register, flags, Ghost(fi))
}
""" % c0.text
    text = common.PRELUDE + common.header_comment(NAME, cuts) + "verus! {\n" + types + fl.text + "\n" + SPECS + (FN % c.text) + head + common.CANARY + "\n} // verus!\n"
    u.text[None] = text
    u.rewrites = common.collect_rewrites(cuts)
    u.dropped = ["everything of optimize() outside the block"]
    return u
