"""U-loc: offset -> line translation of syntax_error / compiler_error / warning (C06, C16)."""
import re
from vf.core import Unit
from vf.rustcut import SourceFile, Undecided, Cut
from . import common

NAME = "U-loc"
TOOL = "verus"
PROPS = ["C06", "C16"]
TRUSTED = ["verus 0.2026.09.13 + z3", "A-vstd (str::chars for-loop specification)"]

SPECS = """
// A-spec: char::len_utf16 (vstd specifies len_utf8 only): one code unit up to U+FFFF, two above.  Offsets counted in UTF-16 units are not byte offsets.
pub assume_specification [char::len_utf16] (c: char) -> (r: usize)
    ensures r == (if (c as u32) < 0x10000 { 1usize } else { 2usize });
// number of newline characters among the first n characters: the 0-based index of the line that contains character n
pub open spec fn count_nl(s: Seq<char>, n: int) -> nat decreases n {
    if n <= 0 { 0 } else { count_nl(s, n - 1) + if s[n - 1] == '\\n' { 1nat } else { 0nat } }
}
// pest locations are BYTE offsets into the UTF-8 text: blen(c) is the encoded length of a character (A-spec of char::len_utf8: 1..4 bytes)
pub open spec fn blen(c: char) -> nat { c.len_utf8() as nat }      // vstd's own specification of char::len_utf8 (1..4 bytes)
// byte offset at which character n starts
pub open spec fn boff(s: Seq<char>, n: int) -> nat decreases n { if n <= 0 { 0 } else { boff(s, n - 1) + blen(s[n - 1]) } }
// the character that starts at byte offset loc, searched from character k on; the text length when no character starts there
pub open spec fn char_at(s: Seq<char>, loc: int, k: int) -> int decreases s.len() - k {
    if k >= s.len() || k < 0 { s.len() as int } else if boff(s, k) == loc { k } else { char_at(s, loc, k + 1) }
}
pub proof fn lemma_count_le(s: Seq<char>, n: int) requires 0 <= n ensures count_nl(s, n) <= n decreases n { if n > 0 { lemma_count_le(s, n - 1); } }
pub proof fn lemma_boff_ge(s: Seq<char>, n: int) requires 0 <= n ensures boff(s, n) >= n decreases n { if n > 0 { lemma_boff_ge(s, n - 1); } }
pub proof fn lemma_boff_mono(s: Seq<char>, i: int, j: int) requires 0 <= i <= j ensures boff(s, i) <= boff(s, j) decreases j - i { if i < j { lemma_boff_mono(s, i, j - 1); } }
pub struct CompilerState<'a> { pub preprocessed_utf8: &'a str }     // R6 shim: the only field the loop reads
"""


def build(repo):
    u = Unit(NAME, TOOL, PROPS,
             ["src/compile.rs: compile() (parse-error arm)", "src/compile.rs: CompilerState::syntax_error (offset->line loop)", "src/compile.rs: CompilerState::compiler_error (offset->line loop)", "src/compile.rs: CompilerState::warning (offset->line loop)"],
             assumptions=["the byte length of a str fits usize (precondition boff(text, len) <= usize::MAX); char::len_utf8 has vstd's specification",
                          "A-mapping: cpp::process pushes exactly one mapping entry per output line with the right physical line (process() is not under contract: str::split*/byte slicing without vstd specifications)",
                          "the tail of each function (building the Error from mapped_lines[...]): only its index expressions are extracted and proved equal to the loop's line_number; that the fields .0/.1/.2 are copied to filename/line/included_in is not under contract",
                          "the caller passes loc <= text length and the line table has an entry for that line (else the index panics): stated, not proved"])
    comp = SourceFile(repo, "src/compile.rs")
    cuts, parts = [], []
    for k, fname in enumerate(("syntax_error", "compiler_error", "warning"), 1):
        f = comp.fn(fname, within="CompilerState")
        cuts.append(f)
        body = f.body_only()
        m = re.search(r"(\s*let mut line_number: usize = 0;.*?\n\s*for c in self\.preprocessed_utf8\.chars\(\) \{)", body, re.S)
        if not m:
            raise Undecided("%s: offset->line loop not found" % fname)
        # R8: from `let mut line_number` to the end of the for loop
        start = m.start()
        from vf.rustcut import mask, match_brace
        mk = mask(body)
        ob = m.end() - 1
        cb = match_brace(mk, ob)
        loop_text = body[start:cb + 1]
        tail = body[cb + 1:]
        # scan of the tail: every index into self.mapped_lines must be `line_number`
        idx = re.findall(r"self\.mapped_lines\[([^\]]+)\]", tail)
        if not idx:
            raise Undecided("%s: the Error is not built from self.mapped_lines[...]" % fname)
        idx_fns = []
        for n, e in enumerate(idx, 1):
            idx_fns.append("""
    // index expression #%(n)d used on self.mapped_lines in the tail of %(f)s (verbatim): it must be the line computed by the loop
    fn index_%(f)s_%(n)d(&self, line_number: usize) {
        let __i: usize = %(e)s;
        assert(__i == line_number); //@ C06:%(f)s-index-%(n)d-is-computed-line
    }
""" % {"n": n, "f": fname, "e": e.strip()})
        c = Cut(loop_text, f.rel, f.line0, "%s: offset->line loop (R8)" % fname)
        c.sub(r"let mut char_number = 0;", "let mut char_number: usize = 0;", "R3-type", expect=(0, 1))
        c.loop_spec(1, r"^for c in self\.preprocessed_utf8\.chars\(\)$", """
            invariant_except_break char_number == boff(self.preprocessed_utf8@, it.index@ as int),
                line_number == count_nl(self.preprocessed_utf8@, it.index@ as int), //@ C06:%(f)s-line-inv
                char_at(self.preprocessed_utf8@, loc as int, 0) == char_at(self.preprocessed_utf8@, loc as int, it.index@ as int),
            invariant line_number <= self.preprocessed_utf8@.len(), boff(self.preprocessed_utf8@, self.preprocessed_utf8@.len() as int) <= usize::MAX,
            ensures line_number == count_nl(self.preprocessed_utf8@, char_at(self.preprocessed_utf8@, loc as int, 0)), //@ C06:%(f)s-stops-at-offset
""" % {"f": fname}, new_header="for c in it: self.preprocessed_utf8.chars()")
        c.at_block_start(r"for c in it: self\.preprocessed_utf8\.chars\(\)", "            proof { lemma_count_le(self.preprocessed_utf8@, it.index@ as int); lemma_boff_mono(self.preprocessed_utf8@, it.index@ as int + 1, self.preprocessed_utf8@.len() as int); lemma_boff_ge(self.preprocessed_utf8@, self.preprocessed_utf8@.len() as int); }")
        cuts.append(c)
        parts.append("""
    // R8: the offset->line loop of %(f)s, verbatim; the result is the index used for self.mapped_lines[...]
    fn line_of_%(f)s(&self, loc: usize) -> (line_number: usize)
        requires boff(self.preprocessed_utf8@, self.preprocessed_utf8@.len() as int) <= usize::MAX,      // the byte length of a str fits usize
        // the line index is the number of newlines before the character that starts at byte offset loc (all of them when no character starts there)
        ensures line_number == count_nl(self.preprocessed_utf8@, char_at(self.preprocessed_utf8@, loc as int, 0)), //@ C06:%(f)s-offset-to-line
    {
%(loop)s
        line_number
    }
""" % {"f": fname, "loop": c.text} + "".join(idx_fns))
    # parse-error arm of compile(): `ex.line_col = match e.line_col { … };` (R8), location taken from the line table
    s0, ob0, cb0 = comp.find_fn_span("compile")
    arm = comp.stmt(r"ex\.line_col = match e\.line_col \{", s0, cb0, desc="compile(): parse-error arm `ex.line_col = match e.line_col {…};` (R8)")
    cuts.append(arm)
    arm.sub(r"^ex\.line_col = match e\.line_col", "let __lc = match e_line_col", "R8 free variables e.line_col -> parameter, ex.line_col -> result", expect=1)
    arm.sub(r"std::rc::Rc::new\(args\.input\.clone\(\)\)", "std::rc::Rc::new(args_input.clone())", "R8 free variable args.input -> parameter", expect=(0, 4))
    parts.append("""
}
#[derive(Clone, Copy)]
pub enum LineColLocation { Pos((usize, usize)), Span((usize, usize), (usize, usize)) }      // R6 shim of pest::error::LineColLocation
pub open spec fn lc_line(l: LineColLocation) -> usize { match l { LineColLocation::Pos((a, _)) => a, LineColLocation::Span((a, _), _) => a } }
// R8: the parse-error arm of compile(), verbatim; free variables became parameters
// the including file and line recorded in a line-table entry (R6 stub of compile.rs's helper included_in_of, when the tree has it)
pub open spec fn inc_of(e: (std::rc::Rc<String>, u32, Option<(std::rc::Rc<String>, u32)>)) -> Option<(Seq<char>, u32)> {
    match e.2 { Some(i) => Some(((*i.0)@, i.1)), None => None }
}
pub open spec fn inc_view(o: Option<(String, u32)>) -> Option<(Seq<char>, u32)> { match o { Some(i) => Some((i.0@, i.1)), None => None } }
#[verifier::external_body]
fn included_in_of(entry: &(std::rc::Rc<String>, u32, Option<(std::rc::Rc<String>, u32)>)) -> (r: Option<(String, u32)>) ensures inc_view(r) == inc_of(*entry) { unimplemented!() }
pub fn parse_error_location(e_line_col: LineColLocation, mapped_lines: &Vec<(std::rc::Rc<String>, u32, Option<(std::rc::Rc<String>, u32)>)>, args_input: &String) -> (r: (std::rc::Rc<String>, u32, LineColLocation, Option<(String, u32)>))
    requires lc_line(e_line_col) >= 1,      // A-pest-lines: pest line numbers are 1-based
        match e_line_col { LineColLocation::Span(_, (l2, _)) => l2 >= 1, _ => true },
    ensures
        // the reported file and line are those of the line-table entry of the line pest points at
        (lc_line(e_line_col) - 1 < mapped_lines@.len()) ==> r.0 == mapped_lines@[lc_line(e_line_col) - 1].0 && r.1 == mapped_lines@[lc_line(e_line_col) - 1].1, //@ C06:parse-error-line
        // ... and so are the including file and line
        (lc_line(e_line_col) - 1 < mapped_lines@.len()) ==> inc_view(r.3) == inc_of(mapped_lines@[lc_line(e_line_col) - 1]), //@ C06:parse-error-included-in
        // an error found at the end of the input (pest points one line past the table) is located at the last line that reached the compiler, includer included
        (e_line_col is Pos && lc_line(e_line_col) - 1 >= mapped_lines@.len() && mapped_lines@.len() > 0) ==> r.0 == mapped_lines@[mapped_lines@.len() - 1].0 && r.1 == mapped_lines@[mapped_lines@.len() - 1].1
            && inc_view(r.3) == inc_of(mapped_lines@[mapped_lines@.len() - 1]), //@ C06:parse-error-past-the-end-is-the-last-line
{
    let filename;
    let line;
    %(included_decl)s
    %(arm)s
    (filename, line, __lc, %(included_res)s)
}
impl<'a> CompilerState<'a> {
""" % {"arm": arm.text, "included_decl": "let included_in;" if "included_in" in arm.text else "", "included_res": "included_in" if "included_in" in arm.text else "None"})
    text = common.PRELUDE + common.header_comment(NAME, cuts) + "verus! {\n" + SPECS + "impl<'a> CompilerState<'a> {\n" + "\n".join(parts) + "\n}\n" + common.CANARY + "\n} // verus!\n"
    u.text[None] = text
    u.rewrites = common.collect_rewrites(cuts)
    u.dropped = ["R8: only the offset->line loop of each function is verified; the construction of the Error value is scanned textually", "R6 shim CompilerState"]
    return u
