"""U-stmt: GeneratorState::generate_statement whole (the dispatcher every statement goes through, recursive on blocks), verified in Verus against stubs that log
one event per generator call: for every statement tree the log is exactly the source order -- each statement is handed to the generator of its kind once,
between the flush of the previous statement's deferred ++/-- and its own, with the accumulator and the scratch byte marked free, its label (if any) defined
first; a block is its statements in order (inductive invariant over the block) (C18, C01, C13, C16)."""
import re
from vf.core import Unit
from vf.rustcut import SourceFile, Undecided, mask, match_brace
from . import common

NAME = "U-stmt"
TOOL = "verus"
PROPS = ["C18", "C01", "C13", "C16", "C17"]
RLIMIT = 300
TRUSTED = ["verus 0.2026.09.13 + z3", "A-fmt (R4)", "every generator the dispatcher calls is a stub that appends one event to a ghost log (their own texts: U-loops, U-if, U-switch, U-csleep, ...)",
           "the source-listing block at the head of the function (insert_code: comments only) is a stub without effect on the log"]

SPECS = """
use vstd::std_specs::hash::*;
use std::collections::HashMap;
#[verifier::external_body]
pub proof fn axiom_string_key_model() ensures obeys_key_model::<String>() {}
pub struct Error { pub e: u8 }
%(types)s
pub struct CompilerState { pub x: u8 }
impl CompilerState { #[verifier::external_body] pub fn syntax_error(&self, message: &str, loc: usize) -> Error { unimplemented!() } }
// one event per generator call; a body handed to a generator is identified by the statement itself
pub enum Ev {
    Purge, Label(Seq<char>), Expr(Expr, bool), For(Expr, Expr, Expr, StatementLoc), If(Expr, StatementLoc, Option<StatementLoc>), While(Expr, StatementLoc), DoWhile(StatementLoc, Expr),
    Switch(Expr, Vec<(Vec<i32>, Vec<StatementLoc>)>), Break, Continue, Return(Expr), Asm(Seq<char>, Option<u32>), Strobe(Expr), Transfer(ExprType, bool), CSleep(i32), Goto(Seq<char>),
}
pub uninterp spec fn operand_of(e: Expr) -> ExprType;
// R6 shim of AssemblyCode: whether anything has been generated for the function yet
pub struct AssemblyCode { pub empty: bool }
impl AssemblyCode { #[verifier::external_body] pub fn is_empty(&self) -> (r: bool) ensures r == self.empty { unimplemented!() } }
pub struct GeneratorState<'a> {
    pub compiler_state: &'a CompilerState,
    pub acc_in_use: bool, pub tmp_in_use: bool, pub insert_code: bool, pub protected: bool,
    pub flags: FlagsState, pub carry_flag_ok: bool,
    pub current_function: Option<String>,
    pub functions_code: HashMap<String, AssemblyCode>,
    pub log: Ghost<Seq<Ev>>,
    pub live_purges: Ghost<int>,             // flushes of the deferred ++/-- made while the accumulator was marked live (they must leave it alone)
    pub at_function_entry: Ghost<bool>,      // nothing has been generated yet for the function being compiled
}
pub open spec fn entering(g: &GeneratorState) -> bool {
    g.current_function is Some && g.functions_code@.contains_key(g.current_function->Some_0) && g.functions_code@[g.current_function->Some_0].empty
}
// ---- the source order -----------------------------------------------------------------------------------------------------------------------
pub open spec fn label_ev(c: StatementLoc) -> Seq<Ev> { match c.label { Some(l) => seq![Ev::Label("."@ + l@)], None => Seq::<Ev>::empty() } }
pub open spec fn stmt_ev(s: Statement) -> Seq<Ev> decreases s {
    match s {
        Statement::Block(v) => block_ev(v@, v@.len() as int),
        Statement::Expression(e) => seq![Ev::Expr(e, false)],
        Statement::For { init, condition, update, body } => seq![Ev::For(init, condition, update, *body)],
        Statement::If { condition, body, else_body } => seq![Ev::If(condition, *body, match else_body { Some(b) => Some(*b), None => None })],
        Statement::While { condition, body } => seq![Ev::While(condition, *body)],
        Statement::DoWhile { body, condition } => seq![Ev::DoWhile(*body, condition)],
        Statement::Switch { expr, cases } => seq![Ev::Switch(expr, cases)],
        Statement::Break => seq![Ev::Break],
        Statement::Continue => seq![Ev::Continue],
        Statement::Return(e) => seq![Ev::Return(e)],
        Statement::Asm(t, n) => seq![Ev::Asm(t@, n)],
        Statement::Strobe(e) => seq![Ev::Strobe(e)],
        Statement::Store(e) => seq![Ev::Expr(e, false), Ev::Transfer(operand_of(e), false)],
        // the code that computes a value to be loaded IS the load: it is generated protected
        Statement::Load(e) => seq![Ev::Expr(e, true), Ev::Transfer(operand_of(e), true), Ev::Purge],
        Statement::CSleep(n) => seq![Ev::CSleep(n)],
        Statement::Goto(l) => seq![Ev::Goto(l@)],
        Statement::LocalVarDecl => Seq::<Ev>::empty(),
    }
}
pub open spec fn gen_ev(c: StatementLoc) -> Seq<Ev> decreases c { seq![Ev::Purge] + label_ev(c) + stmt_ev(c.statement) + seq![Ev::Purge] }
// the first n statements of a block, in order
pub open spec fn block_ev(v: Seq<StatementLoc>, n: int) -> Seq<Ev> decreases v, n when 0 <= n <= v.len()
{ if n <= 0 { Seq::<Ev>::empty() } else { block_ev(v, n - 1) + gen_ev(v[n - 1]) } }
"""

STUBS = """
    #[verifier::external_body] fn insert_source_comment_block(&mut self, pos: usize) -> (res: Result<(), Error>)
        ensures final(self).compiler_state == old(self).compiler_state, final(self).log@ == old(self).log@, final(self).acc_in_use == old(self).acc_in_use, final(self).tmp_in_use == old(self).tmp_in_use,
            final(self).flags == old(self).flags, final(self).carry_flag_ok == old(self).carry_flag_ok, final(self).at_function_entry@ == old(self).at_function_entry@, final(self).protected == old(self).protected, final(self).live_purges@ == old(self).live_purges@,
    { unimplemented!() }
    #[verifier::external_body] fn purge_deferred_plusplus_and_savey(&mut self) -> (res: Result<(), Error>)
        ensures final(self).compiler_state == old(self).compiler_state, final(self).protected == old(self).protected, res is Ok ==> final(self).log@ == old(self).log@.push(Ev::Purge),
            final(self).live_purges@ == old(self).live_purges@ + (if old(self).acc_in_use { 1int } else { 0int }), final(self).acc_in_use == old(self).acc_in_use,
            // flushing a deferred ++/-- emits code only if there is one: at a function's entry there is none (the flags belief may only change towards what that code left)
            old(self).at_function_entry@ ==> final(self).flags == old(self).flags && final(self).carry_flag_ok == old(self).carry_flag_ok && final(self).at_function_entry@,
            !old(self).at_function_entry@ ==> !final(self).at_function_entry@,
    { unimplemented!() }
    #[verifier::external_body] pub(crate) fn label(&mut self, l: &str) -> (res: Result<(), Error>)
        ensures final(self).compiler_state == old(self).compiler_state, final(self).acc_in_use == old(self).acc_in_use, final(self).tmp_in_use == old(self).tmp_in_use, final(self).protected == old(self).protected, final(self).live_purges@ == old(self).live_purges@,
            res is Ok ==> final(self).log@ == old(self).log@.push(Ev::Label(l@)),
            final(self).flags is Unknown && !final(self).carry_flag_ok, final(self).at_function_entry@ == false,      // a label forgets the belief (generate_asm.rs: label())
    { unimplemented!() }
%(gens)s
"""

# (name, parameter list, event)
GENS = [
    ("generate_expr", "expr: &Expr, pos: usize, high_byte: bool, second_time: bool", "Result<ExprType, Error>", "Ev::Expr(*expr, old(self).protected)", "!high_byte && !second_time", "res->Ok_0 == operand_of(*expr)"),
    ("generate_for_loop", "init: &Expr, condition: &Expr, update: &Expr, body: &StatementLoc, pos: usize", "Result<(), Error>", "Ev::For(*init, *condition, *update, *body)", "true", "true"),
    ("generate_if", "condition: &Expr, body: &StatementLoc, else_body: Option<&StatementLoc>, pos: usize", "Result<(), Error>",
     "Ev::If(*condition, *body, match else_body { Some(b) => Some(*b), None => None })", "true", "true"),
    ("generate_while", "condition: &Expr, body: &StatementLoc, pos: usize", "Result<(), Error>", "Ev::While(*condition, *body)", "true", "true"),
    ("generate_do_while", "body: &StatementLoc, condition: &Expr, pos: usize", "Result<(), Error>", "Ev::DoWhile(*body, *condition)", "true", "true"),
    ("generate_switch", "expr: &Expr, cases: &Vec<(Vec<i32>, Vec<StatementLoc>)>, pos: usize", "Result<(), Error>", "Ev::Switch(*expr, *cases)", "true", "true"),
    ("generate_break", "pos: usize", "Result<(), Error>", "Ev::Break", "true", "true"),
    ("generate_continue", "pos: usize", "Result<(), Error>", "Ev::Continue", "true", "true"),
    ("generate_return", "expr: &Expr, pos: usize", "Result<(), Error>", "Ev::Return(*expr)", "true", "true"),
    ("generate_asm_statement", "s: &str, size: Option<u32>", "Result<(), Error>", "Ev::Asm(s@, size)", "true", "true"),
    ("generate_strobe_statement", "expr: &Expr, pos: usize", "Result<(), Error>", "Ev::Strobe(*expr)", "true", "true"),
    ("generate_load_store_statement", "param: &ExprType, pos: usize, load: bool", "Result<(), Error>", "Ev::Transfer(*param, load)", "true", "true"),
    ("generate_csleep_statement", "cycles: i32, pos: usize", "Result<(), Error>", "Ev::CSleep(cycles)", "true", "true"),
    ("generate_goto_statement", "s: &str", "Result<(), Error>", "Ev::Goto(s@)", "true", "true"),
]

HEADER = """#[verifier::exec_allows_no_decreases_clause]
pub fn generate_statement(&mut self, code: &StatementLoc) -> (res: Result<(), Error>)
        requires old(self).at_function_entry@ ==> (entering(old(self)) || (old(self).flags is Unknown && !old(self).carry_flag_ok)), !old(self).protected,
        ensures
            final(self).compiler_state == old(self).compiler_state,
            !final(self).protected, //@ C18:statement-leaves-protection-off
            final(self).live_purges@ >= old(self).live_purges@,
            // the value a load() leaves in A survives the deferred side effects of its own expression (`load(t[Y]++)`, `load(a++)` on split-port memory)
            (res is Ok && code.statement is Load) ==> final(self).live_purges@ >= old(self).live_purges@ + 1, //@ C18,C17,C01:load-flushes-deferred-effects-with-the-accumulator-live
            res is Ok ==> final(self).log@ =~= old(self).log@ + gen_ev(*code), //@ C18,C01:statements-generated-once-in-source-order
            res is Ok ==> (final(self).at_function_entry@ ==> final(self).flags is Unknown && !final(self).carry_flag_ok),
"""


def candidates(f):
    """the first statement of a function compiled after another one tests what that other function left the generator believing about the flags"""
    out = []
    for v in (0, 3):
        out.append({"source": "unsigned char k, v; void f() { v = 0; }\nvoid main() { if (v) k = 1; }\n", "args": ["-O0"], "expect": {"panic": False},
                    "simulate": {"init": {"v": v, "k": 0}, "expect": {"k": int(v != 0)}, "stack_empty": True}, "note": "main starts with `if (v)` after f ended with a store to v, v=%d" % v})
        out.append({"source": "unsigned char k; void f() { X = 1; }\nvoid main() { if (X) k = 1; }\n", "args": ["-O0"], "expect": {"panic": False},
                    "simulate": {"init": {"k": 0}, "x": v, "expect": {"k": int(v != 0)}, "stack_empty": True}, "note": "main starts with `if (X)` after f ended with a load of X, X=%d" % v})
    return out


def build(repo):
    u = Unit(NAME, TOOL, PROPS, ["src/generate/generate_statements.rs: GeneratorState::generate_statement (whole; the source-listing block at its head is a stub)"],
             assumptions=["callees are logging stubs (TRUSTED); that a generator handed a body runs that body's statements through generate_statement again is that generator's contract (U-loops, U-if, U-switch)",
                          "the source-listing block (insert_code) only writes comments", "termination of the recursion over the statement tree is not proved (R9: the structural decrease through Vec / Box made the query intractable)"])
    gs = SourceFile(repo, "src/generate/generate_statements.rs")
    gm = SourceFile(repo, "src/generate/mod.rs")
    comp = SourceFile(repo, "src/compile.rs")
    f = gs.fn("generate_statement", within="GeneratorState")
    cuts, tys = [f], []
    for sf, kind, name, structural in ((comp, "enum", "Operation", True), (gm, "enum", "ExprType", False), (gm, "enum", "FlagsState", False), (comp, "enum", "Expr", False), (comp, "enum", "Statement", False), (comp, "struct", "StatementLoc", False)):
        c = sf.item(kind, name)
        common.r2(c, structural=structural)
        c.sub(r"pub\(crate\) enum", "pub enum", "R2-pub")
        if not structural:
            c.sub(r"#\[derive\(([^)]*)\)\]", "", "R2-derive (no derived impls needed)", expect=(0, 1))
        c.sub(r"<'a>", "", "R2 lifetime of the borrowed source text dropped (Goto carries a String in the shim)", expect=(0, 8))
        c.sub(r"Goto\(&'a str\)", "Goto(String)", "R2 &'a str -> String", expect=(0, 1))
        c.sub(r"pub\(crate\) (pos|label|statement):", r"pub \1:", "R2-pub", expect=(0, 3))
        cuts.append(c)
        tys.append(c.text)
    # R8: the source-listing block at the head becomes a stub call
    mk = mask(f.text)
    m1 = re.search(r"^[ \t]*if self\.insert_code \{", mk, re.M)
    if not m1:
        raise Undecided("generate_statement(): `if self.insert_code {` not found")
    cb = match_brace(mk, m1.end() - 1)
    f.text = f.text[:m1.start()] + "        self.insert_source_comment_block(code.pos)?;      // R8: `if self.insert_code { .. }` (comments only) -> stub\n" + f.text[cb + 1:]
    f.log.append("R8 block `if self.insert_code { .. }` -> self.insert_source_comment_block(code.pos)?")
    fm = common.Fmt({"label": ("str", "label")})
    fm.apply(f)
    f.sub(r"for code in statements \{", "for __n in 0..statements.len() {\n                    let code = &statements[__n];", "R26 for-in-&Vec -> index loop", expect=1)
    f.sub(r"\bbody\.as_ref\(\)", "&**body", "R3 Box::as_ref -> explicit deref", expect=(0, 8))
    f.sub(r"Some\(ebody\.as_ref\(\)\)", "Some(&**ebody)", "R3 Box::as_ref -> explicit deref", expect=(0, 2))
    f.sub(r"generate_goto_statement\(s\)", "generate_goto_statement(s.as_str())", "R2 (Goto carries a String in the shim)", expect=(0, 1))
    f.set_header(HEADER, expect_sig="pub fn generate_statement(&mut self, code: &'a StatementLoc<'a>) -> Result<(), Error>")
    f.body_start("        let ghost log0 = self.log@;\n        proof { reveal_strlit(\".\"); axiom_string_key_model(); }")
    # the first code of a function is generated without any belief about N/Z and the carry: what the previous function left in them says nothing here
    f.before(r"^\s*match &code\.statement \{", "        proof { assert(self.at_function_entry@ ==> (self.flags is Unknown && !self.carry_flag_ok)); //@ C01,C02:function-entry-forgets-flags\n        }")
    f.loop_spec(1, r"^for __n in 0\.\.statements\.len\(\)$", """
                    invariant
                        self.compiler_state == old(self).compiler_state, !self.protected, self.live_purges@ >= old(self).live_purges@,
                        self.log@ =~= log0 + seq![Ev::Purge] + label_ev(*code) + block_ev(statements@, __n as int), //@ C18,C01:block-statements-in-order
                        self.at_function_entry@ ==> (self.flags is Unknown && !self.carry_flag_ok),
""")
    gens = []
    for name, params, ret, ev, extra_req, extra_ens in GENS:
        gens.append("""    #[verifier::external_body] fn %(name)s(&mut self, %(params)s) -> (res: %(ret)s)
        requires (!old(self).acc_in_use && !old(self).tmp_in_use) || %(free_ok)s, //@ C01:statement-generated-with-free-accumulator-and-scratch
            %(extra_req)s,
        ensures final(self).compiler_state == old(self).compiler_state, final(self).protected == old(self).protected, final(self).live_purges@ >= old(self).live_purges@, res is Ok ==> final(self).log@ == old(self).log@.push(%(ev)s), res is Ok ==> %(extra_ens)s,
            final(self).at_function_entry@ == false,
    { unimplemented!() }""" % {"name": name, "params": params, "ret": ret, "ev": ev, "extra_req": extra_req, "extra_ens": extra_ens, "free_ok": "true" if name == "generate_load_store_statement" else "false"})
    text = common.PRELUDE + common.header_comment(NAME, cuts) + "verus! {\n" + (SPECS % {"types": "\n".join(tys)}) + fm.text() + \
        "impl<'a> GeneratorState<'a> {\n" + (STUBS % {"gens": "\n".join(gens)}) + f.text + "\n}\n" + common.CANARY + "\n} // verus!\n"
    u.text[None] = text
    u.rewrites = common.collect_rewrites(cuts)
    u.dropped = ["R6 shim environment", "the source-listing block (stub)"]
    return u
