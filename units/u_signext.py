"""U-signext: GeneratorState::generate_sign_extend whole, verified in Verus against stubs that execute the emitted instructions on a ghost 6502 with a
forward branch (a taken BMI skips every instruction up to the definition of its label).  Postcondition: the result is $FF when bit 7 of the operand is
set and $00 otherwise (the high byte of the sign-extended value), X / Y / the stack are as on entry, a live accumulator is preserved (C01, C13, C16)."""
import re
from vf.core import Unit
from vf.rustcut import SourceFile, Undecided
from . import common

NAME = "U-signext"
TOOL = "verus"
PROPS = ["C01", "C13", "C16"]
RLIMIT = 100
TRUSTED = ["verus 0.2026.09.13 + z3 (bit_vector for `a | $7F`)", "A-isa: LDA / ORA set N from bit 7 of the result, BMI branches when N is set, STA / PHA / PLA (PLA sets N)", "A-fmt (R4)"]

SPECS = """
pub struct Error { pub e: u8 }
%(types)s
use AsmMnemonic::*;
pub struct CompilerState { pub x: u8 }
impl CompilerState { #[verifier::external_body] pub fn syntax_error(&self, message: &str, loc: usize) -> Error { unimplemented!() } }
// ---- ghost 6502 with one pending forward branch --------------------------------------------------------------------------------------
pub struct M { pub a: int, pub x: int, pub y: int, pub tmp: int, pub n: bool, pub stack: Seq<int>, pub skip: Option<Seq<char>> }
pub open spec fn byte(v: int) -> bool { 0 <= v <= 255 }
pub uninterp spec fn mem(e: ExprType, hb: bool) -> int;
#[verifier::external_body] pub proof fn axiom_mem_byte(e: ExprType, hb: bool) ensures byte(mem(e, hb)) {}
pub open spec fn bv(m: M, e: ExprType, hb: bool) -> int {
    match e { ExprType::Immediate(v) => (if hb { (v >> 8) & 0xff } else { v & 0xff }) as int, ExprType::A(_) => m.a, ExprType::Tmp(_) => m.tmp, ExprType::X => m.x, ExprType::Y => m.y, _ => mem(e, hb) }
}
#[verifier::opaque] pub open spec fn bor(a: int, b: int) -> int { ((a as u8) | (b as u8)) as int }
pub proof fn lemma_ora_7f(a: int) requires byte(a) ensures bor(a, 0x7f) == (if a >= 128 { 255int } else { 127int })
{ reveal(bor); let x = a as u8; assert((x | 0x7fu8) == (if x >= 128u8 { 255u8 } else { 127u8 })) by (bit_vector); }
pub open spec fn exec(g: M, m: AsmMnemonic, e: ExprType, hb: bool) -> M {
    if m == LDA { M { a: bv(g, e, hb), n: bv(g, e, hb) >= 128, ..g } }
    else if m == ORA { M { a: bor(g.a, bv(g, e, hb)), n: bor(g.a, bv(g, e, hb)) >= 128, ..g } }
    else if m == STA && e is Tmp { M { tmp: g.a, ..g } }
    else if m == PHA { M { stack: g.stack.push(g.a), ..g } }
    else if m == PLA { M { a: g.stack.last(), n: g.stack.last() >= 128, stack: g.stack.drop_last(), ..g } }
    else if m == BMI { if g.n { M { skip: Some(e->Label_0@), ..g } } else { g } }
    else { g }
}
pub open spec fn step(g: M, m: AsmMnemonic, e: ExprType, hb: bool) -> M { if g.skip is Some { g } else { exec(g, m, e, hb) } }
pub struct GeneratorState<'a> {
    pub compiler_state: &'a CompilerState,
    pub flags: FlagsState, pub acc_in_use: bool, pub tmp_in_use: bool, pub local_label_counter_if: u32,
    pub gh: Ghost<M>,
}
pub open spec fn plain_same(a: &GeneratorState, b: &GeneratorState) -> bool {
    a.compiler_state == b.compiler_state && a.acc_in_use == b.acc_in_use && a.tmp_in_use == b.tmp_in_use && a.local_label_counter_if == b.local_label_counter_if
}
"""

STUBS = """
    #[verifier::external_body]
    pub(crate) fn asm(&mut self, mnemonic: AsmMnemonic, operand: &ExprType, pos: usize, high_byte: bool) -> (res: Result<bool, Error>)
        requires
            mnemonic == LDA || mnemonic == ORA || (mnemonic == BMI && operand is Label) || (mnemonic == STA && operand is Tmp), //@ C01:signext-only-known-instructions
            !(operand is X) && !(operand is Y) && !(operand is Nothing), //@ C16:signext-asm-operand-kind
            mnemonic == LDA || !(operand is A),
        ensures plain_same(old(self), final(self)), final(self).flags == old(self).flags,
            res is Ok ==> final(self).gh@ == step(old(self).gh@, mnemonic, *operand, high_byte),
    { unimplemented!() }
    #[verifier::external_body]
    pub(crate) fn sasm(&mut self, mnemonic: AsmMnemonic) -> (res: Result<bool, Error>)
        requires mnemonic == PHA || mnemonic == PLA, //@ C01:signext-only-known-implied
            (mnemonic == PLA && old(self).gh@.skip is None) ==> old(self).gh@.stack.len() > 0, //@ C01:signext-pla-has-pha
        ensures plain_same(old(self), final(self)), final(self).flags == old(self).flags, res is Ok, final(self).gh@ == step(old(self).gh@, mnemonic, ExprType::Nothing, false),
    { unimplemented!() }
    #[verifier::external_body]
    pub(crate) fn label(&mut self, l: &str) -> (res: Result<(), Error>)
        ensures plain_same(old(self), final(self)), res is Ok,
            final(self).gh@ == (if old(self).gh@.skip == Some(l@) { M { skip: None, ..old(self).gh@ } } else { old(self).gh@ }),
    { unimplemented!() }
"""

HEADER = """pub(crate) fn generate_sign_extend(&mut self, expr: ExprType, pos: usize) -> (res: Result<ExprType, Error>)
        requires
            old(self).gh@.skip is None, byte(old(self).gh@.a), byte(old(self).gh@.tmp), byte(old(self).gh@.x), byte(old(self).gh@.y),
            old(self).local_label_counter_if < 0xffff_ffff, //@ C16:signext-counter-bound
            expr is A ==> !old(self).acc_in_use || true,
            !(expr is X) && !(expr is Y) && !(expr is Nothing) && !(expr is Label),
            // the operand is not the live accumulator itself (it is reloaded after the accumulator was saved): callers pass memory operands / cctmp
            !(expr is A),
        ensures
            final(self).compiler_state == old(self).compiler_state,
            res is Ok ==> final(self).gh@.skip is None, //@ C01,C13:signext-branch-lands
            // $FF for a negative operand, $00 otherwise
            res is Ok ==> (res->Ok_0 is A || res->Ok_0 is Tmp) && bv(final(self).gh@, res->Ok_0, false) == (if bv(old(self).gh@, expr, false) >= 128 { 255int } else { 0int }), //@ C01:signext-value
            res is Ok ==> final(self).gh@.x == old(self).gh@.x && final(self).gh@.y == old(self).gh@.y && final(self).gh@.stack == old(self).gh@.stack, //@ C01:signext-frame
            (res is Ok && old(self).acc_in_use) ==> (final(self).gh@.a == old(self).gh@.a && res->Ok_0 is Tmp), //@ C01:signext-live-accumulator-kept
            res is Ok ==> final(self).flags == FlagsState::Unknown, //@ C01:signext-forgets-flags
            (res is Ok && res->Ok_0 is A) ==> final(self).acc_in_use,
            (res is Ok && res->Ok_0 is Tmp) ==> final(self).tmp_in_use,
            res is Ok ==> final(self).local_label_counter_if == old(self).local_label_counter_if + 1, //@ C13:signext-label-counter-advanced
"""


def candidates(f):
    out = []
    for v in (0, 1, 0x7f, 0x80, 0xff):
        sv = v - 256 if v >= 128 else v
        for decl, stmt, sim in (("signed char c; short s;", "s = c;", {"init": {"c": v}}),
                                ("signed char c; short s, t;", "s = t + c;", {"init": {"c": v}, "init16": {"t": 1000}}),
                                ("signed char tab[4]; short s;", "X = 1; s = tab[X];", {"init_addr": {"tab+1": v}})):
            want = (sv + (1000 if "t + c" in stmt else 0)) & 0xffff
            out.append({"source": "%s\nvoid main() { %s }\n" % (decl, stmt), "args": ["-O0"], "expect": {"panic": False},
                        "simulate": dict(sim, expect16={"s": want}, stack_empty=True), "note": "value %d" % sv})
    return out


def build(repo):
    u = Unit(NAME, TOOL, PROPS, ["src/generate/generate_arithm.rs: GeneratorState::generate_sign_extend"],
             assumptions=["asm()/sasm()/label() are stubs that execute the instruction on a ghost 6502 with one pending forward branch (A-isa)",
                          "the operand is a memory operand, a constant or cctmp (not the accumulator, X or Y): holds at the call sites in generate_expr"])
    ga = SourceFile(repo, "src/generate/generate_arithm.rs")
    gm = SourceFile(repo, "src/generate/mod.rs")
    asmf = SourceFile(repo, "src/assemble.rs")
    cuts, tys = [], []
    for sf, kind, name, structural in ((asmf, "enum", "AsmMnemonic", True), (gm, "enum", "ExprType", False), (gm, "enum", "FlagsState", False)):
        c = sf.item(kind, name)
        common.r2(c, structural=structural)
        c.sub(r"pub\(crate\) enum", "pub enum", "R2-pub")
        if not structural:
            c.sub(r"#\[derive\(([^)]*)\)\]", lambda m: "#[derive(%s)]" % ", ".join(x for x in [y.strip() for y in m.group(1).split(",")] if x not in ("PartialEq", "Eq", "Debug")), "R2-derive-noeq")
        cuts.append(c)
        tys.append(c.text)
    f = ga.fn("generate_sign_extend", within="GeneratorState")
    cuts.append(f)
    f.sub(r"ifneg_label\.clone\(\)", "clone_string(&ifneg_label)", "R11 String::clone -> shim", expect=(0, 2))
    fm = common.Fmt({"self.local_label_counter_if": ("int", None)})
    fm.apply(f)
    f.set_header(HEADER, expect_sig="fn generate_sign_extend(&mut self, expr: ExprType, pos: usize) -> Result<ExprType, Error>")
    f.body_start("""        proof { assert forall|v: i32| 0 <= #[trigger] (v & 0xff) <= 255 by { assert(0 <= (v & 0xff) <= 255) by (bit_vector); }
                axiom_mem_byte(expr, false); lemma_ora_7f(bv(self.gh@, expr, false)); assert((0x7Fi32 & 0xff) == 0x7f) by (bit_vector); assert((0i32 & 0xff) == 0) by (bit_vector); }""")
    shim = """
#[verifier::external_body]
pub fn clone_string(s: &String) -> (r: String) ensures r@ == s@ { s.clone() }
"""
    text = common.PRELUDE + common.header_comment(NAME, cuts) + "verus! {\n" + common.DEC_SPECS + (SPECS % {"types": "\n".join(tys)}) + shim + fm.text() + \
        "impl<'a> GeneratorState<'a> {\n" + STUBS + "\n" + f.text + "\n}\n" + common.CANARY + "\n} // verus!\n"
    u.text[None] = text
    u.rewrites = common.collect_rewrites(cuts)
    u.dropped = ["R6 shim environment"]
    return u
