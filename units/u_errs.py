"""U-errs: BOUNDED stand-in (labelled as such, never counted as proved) for two families no contract reaches yet: the line an error is reported on when the
defect sits on a later line of a multi-line construct (C06), and inputs that used to make the compiler panic (C16).  Every program is compiled by the real
compiler (vf/probe); the expectation is a text the output must contain (`on line N of`) or the absence of a panic."""
from vf.core import Unit

NAME = "U-errs"
TOOL = "sim"
PROPS = ["C06", "C16", "C13", "C01", "C08", "C09", "C07", "C10"]
TRUSTED = ["the probe driver prints the error returned by compile()"]


def _loc(src, line, note, args=None):
    return {"source": src, "args": list(args or ["-O0"]), "expect": {"panic": False, "stdout_contains": "on line %d of" % line}, "note": note}


def corpus(tier):
    mul = "y * z"      # a code-generation error: the 6502 has no multiplier
    loc = [
        _loc("char x, y, z;\nvoid main() {\n  x = 1;\nagain:\n  x = %s;\n}\n" % mul, 5, "statement after a label on its own line"),
        _loc("char x, y, z;\nvoid main() {\n  x = 1;\nagain:\n\n  // comment\n  x = %s;\n}\n" % mul, 7, "label, blank line, comment, statement"),
        _loc("char x, y, z;\nconst char a[1] = {0};\nconst char *t[] = {\n  a,\n  a,\n  BAD\n};\nvoid main() { }\n", 6, "unknown identifier in the third element of an array of pointers"),
        _loc("char x;\nconst char t[] = {\n 1,\n 2,\n x >> 9\n};\nvoid main() { }\n", 5, "bad suffix in the third element of an array of chars"),
        _loc("char x, y, z;\nvoid main() {\n  char a = 1,\n       b = %s;\n}\n" % mul, 4, "second initialiser of a local declaration"),
        _loc("char x, y, z;\nvoid main() {\n  x = 1;\n  x = %s;\n}\n" % mul, 4, "plain statement"),
        _loc("char x, y, z;\n/* a \\\n b */\nvoid main() {\n  x = %s;\n}\n" % mul, 5, "after a splice inside a comment"),
        _loc("char x, y, z;\n#if 0\nx\n#else\n#endif\nvoid main() {\n  x = %s;\n}\n" % mul, 7, "after a skipped #if region"),
        {"source": "char x;\n#include \"/tmp\"\nvoid main() { }\n", "args": ["-O0"], "expect": {"panic": False, "stdout_contains": "on line 1 of /tmp (included in"}, "note": "a directory given as an include: the read failure names the file and the includer"},
    ]
    # errors inside an included file, both kinds (Syntax / Compiler), as the driver prints them: own line and file, then the including file and the line of the #include
    for hdr, kind, ln in (("c06_inc_directive.h", "Compiler error", 3), ("c06_inc_codegen.h", "Compiler error", 4), ("c06_inc_syntax.h", "Syntax error", 2)):
        loc.append({"source": "char x, y, z;\n/* two\n   lines */\n\n#include \"/verif/witness/%s\"\nvoid main() { }\n" % hdr, "args": ["-O0"],
                    "expect": {"panic": False, "stdout_matches": r"%s: [^\n]* on line %d of /verif/witness/%s \(included in \S+ on line 5\)" % (kind, ln, hdr.replace(".", r"\."))},
                    "note": "%s on line %d of an included file, #include on line 5" % (kind, ln)})
    # recorded known finding: the expression of a statement carries no position of its own
    multi = [
        _loc("char x, y, z;\nvoid main() {\n  do {\n    x++;\n  } while (%s);\n}\n" % mul, 5, "condition of a do-while, two lines below the `do`"),
        _loc("char x, y, z;\nvoid main() {\n  x = 1 +\n    2 +\n    %s;\n}\n" % mul, 5, "third line of an expression statement"),
        _loc("char x, y, z;\nvoid main() {\n  for (x = 0;\n       x < 10;\n       x = %s) y++;\n}\n" % mul, 5, "update clause of a for, third line"),
    ]
    nopanic = [{"source": s, "args": a, "expect": {"panic": False}, "note": n} for s, a, n in (
        ("bank99999999999 void main() {}\n", ["-O0"], "bank number that does not fit"), ("short a[-1]; char b; void main() { b = sizeof(a); }\n", ["-O0"], "negative array size"),
        ("#define F(a,a) a\nvoid main() { }\n", ["-O0"], "duplicate macro parameter"), ("char x; void main() { x = 1; }\n", ["-O0", "-D", "A(=1"], "-D with a name that is not an identifier"),
        ("char x;\nvoid main() {\n  x = 1; }\n", ["-O0", "--insert-code"], "--insert-code, statement on the last line"),
        ("unsigned char i;\nvoid main() { asm(\"nop\", -1); if (i) i = 1; }\n", ["-O0"], "negative asm size"), ("char a[2 ! 1];\nvoid main() { }\n", ["-O0"], "infix ! in a constant expression"),
        ("char a[4];\nvoid main() { X = a[\"abc\" + 1]; }\n", ["-O0"], "literal plus constant as a subscript"), ("unsigned char x;\nvoid main() { x *= 2; }\n", ["-O0"], "x *= 2"),
        ("char *p;\nvoid main() { p = @7@; }\n", ["-O0"], "literal marker in the source"), ("#define 123\nvoid main() { }\n", ["-O0"], "#define without a name"),
        ("char a[4]; void main() { a[++\"s\"] = 1; }\n", ["-O0"], "++ of a literal in a subscript"), ("void a() {}\nvoid (*tab[1])() = {a}\nvoid main() { }\n", ["-O0"], "table of function pointers"),
        ("NL\nNL\nvoid main() { x = 1; }\n", ["-O0", "-D", "NL=\n\n\n"], "-D value with line breaks, then an error to locate"),
        ("char x; inline void f() { if (x) { x--; f(); } } void main() { f(); }\n", ["-O0"], "an inline function that calls itself"),
        ("=== ASSEMBLER BEGIN ===\n; codesize:\n\tNOP\n==== ASSEMBLER END ====\nvoid main() { }\n", ["-O0"], "assembler block with a header line cut short"))]
    # a store needs a place: these used to emit `STA #<arr`, `STA #0` (instructions that do not exist)
    rejected = [{"source": s_, "args": ["-O0"], "expect": {"panic": False, "is_error": True}, "note": n} for s_, n in (
        ("const char arr[2] = {1,2};\nvoid main() { arr = 5; }\n", "assignment to an array"), ("char x;\nvoid main() { &x = 3; }\n", "assignment to an address"),
        ("short s, t; unsigned char a;\nvoid main() { s = a = t; }\n", "char assignment nested in a 16-bit assignment (its high-byte pass has nowhere to store)"))]
    # macro forms whose expansion depends on what the regular expressions of cpp.rs match (no contract reaches that): the value computed tells
    def mac(defs, body, expect, note, decl="unsigned char q, r, A2;"):
        return {"source": "%s\n%s\nvoid main() { %s }\n" % (defs, decl, body), "args": ["-O0"], "expect": {"panic": False, "must_compile": True},
                "simulate": {"init": {"q": 7}, "expect": expect, "stack_empty": True}, "note": note}
    macros = [
        mac("#define P (q)", "r = P;", {"r": 7}, "object-like macro whose body is a parenthesised identifier"),
        mac("#define W 5\n#define LIMIT (W)", "r = LIMIT;", {"r": 5}, "body in terms of an earlier macro, parenthesised"),
        mac("#define ADD(a,b) a+b", "r = ADD(ADD(1,2),3);", {"r": 6}, "nested call of a function-like macro"),
        mac("#define ADD(a, b) a+b", "r = ADD((q), 1);", {"r": 8}, "parenthesised argument, blank after the comma of the parameter list"),
        mac("#define A 1", "A2 = 5; r = A2 + A;", {"r": 6, "A2": 5}, "a macro name inside a longer identifier is left alone"),
        mac("#define A 1\n#undef A\n#define A 2", "r = A;", {"r": 2}, "#undef then a new definition"),
        mac("#define TWICE(x) x+x\n#define INC(x) x+1", "r = TWICE(INC(q));", {"r": 16}, "a macro call as the argument of another macro"),
        mac("#define FOO 1\n#ifdef BAR\n#undef FOO\n#endif", "r = FOO;", {"r": 1}, "#undef in the group of a false #ifdef"),
        mac("#define FOO 3\n#if 0\n#undef FOO\n#elif 0\n#undef FOO\n#else\n#endif", "r = FOO;", {"r": 3}, "#undef in false #if / #elif groups"),
    ]
    # more than a hundred macros (the tables are chunked by 100): #undef of an early one, then #undef / #define of a late one
    fill = "\n".join("#define FILLER%d %d" % (k, k) for k in range(100))
    over = fill + "\n#define ALPHA 1\n#define BETA 1\n#define MODE 1\n#define DELTA 1\n#undef FILLER0\n#undef MODE\n#define MODE 0"
    macros += [
        mac(over + "\n#if MODE\n#define RES 2\n#else\n#define RES 1\n#endif", "r = RES;", {"r": 1}, "over 100 macros: #if on a macro redefined after an early #undef"),
        mac(over + "\n#if BETA == MODE\n#define RES 1\n#elif BETA\n#define RES 2\n#else\n#define RES 3\n#endif", "r = RES + FILLER99 + DELTA;", {"r": 2 + 99 + 1}, "over 100 macros: the neighbours of the redefined macro"),
    ]
    # character constants: every escape of the property's table, as a constant (string literals are U-qstr's subject)
    chars = [{"source": "const char t[10] = {'\\a','\\b','\\f','\\v','\\n','\\r','\\t','\\0','\\\\','\\''};\nvoid main() { X = t[0]; }\n", "args": ["-O0"],
              "expect": {"panic": False, "must_compile": True, "stdout_contains": "ARRAY t size=10 = 7 8 12 11 10 13 9 0 92 39"}, "note": "the ten escapes as character constants in a table"},
             {"source": "unsigned char c;\nvoid main() { c = '\\a'; }\n", "args": ["-O0"], "expect": {"panic": False, "must_compile": True, "stdout_contains": "LDA #7"}, "note": "'\\a' in an expression"}]
    from . import u_strscan, u_tablelit
    # recorded known finding: user labels share the name space of the labels the generator and the branch repair make up
    nodup = lambda lab: r"\A(?![\s\S]*\n%s\n[\s\S]*\n%s\n)" % (lab.replace(".", r"\."), lab.replace(".", r"\."))
    userlab = [{"source": "char x;\nvoid main() { if (x) { X = 3; } goto ifend1; X = 2; ifend1: X = 1; }\n", "args": ["-O0"], "expect": {"panic": False, "stdout_matches": nodup(".ifend1")}, "note": "a user label named ifend1 next to an if"},
               {"source": "char x;\nvoid main() { do { %s if (x) goto fix1; X = 2; fix1: X = 1; } while (Y); }\n" % " ".join("csleep(2);" for _ in range(130)), "args": ["-O0"],
                "expect": {"panic": False, "stdout_matches": nodup(".fix1")}, "note": "a user label named fix1 in a function where a far branch is repaired"}]
    # recorded known finding: the calculator's `?:` is two infix operators with an in-band sentinel; a conditional nested in the middle operand is resolved wrongly
    nested = [{"source": "char arr[%s]; void main() { X = sizeof(arr); }\n" % e, "args": ["-O0"], "expect": {"panic": False, "must_compile": True, "stdout_contains": "LDX #%d" % v}, "note": "%s is %d" % (e, v)}
              for e, v in (("0 ? 1 ? 2 : 3 : 4", 4), ("1 ? 0 ? 2 : 3 : 4", 3), ("1 ? 1 ? 2 : 3 : 4", 2), ("0 ? 2 : 1 ? 3 : 4", 3), ("0 ? 2 : 0 ? 3 : 4", 4))]
    # recorded known finding: only string literals are set aside before macro substitution, character constants are not
    charmac = [{"source": "#define A 5\nunsigned char c;\nvoid main() { c = 'A'; }\n", "args": ["-O0"], "expect": {"panic": False, "must_compile": True, "stdout_contains": "LDA #65"}, "note": "'A' with a macro named A"}]
    # recorded known finding: goto targets and user labels are not checked against each other
    gotos = [{"source": "void main() { goto foo; }\n", "args": ["-O0"], "expect": {"panic": False, "is_error": True}, "note": "goto to a label that does not exist"},
             {"source": "void main() { foo: X = 1; foo: X = 2; goto foo; }\n", "args": ["-O0"], "expect": {"panic": False, "is_error": True}, "note": "a label defined twice"}]
    return [("kf-goto-labels-not-checked", ["C13"], gotos), ("kf-macro-name-in-a-character-constant", ["C09"], charmac), ("kf-calc-nested-conditional", ["C10"], nested[:1]), ("calc-nested-conditional", ["C10"], nested[1:]), ("kf-user-label-named-like-a-generated-label", ["C13"], userlab), ("literal-extent", ["C09"], u_strscan.candidates(None)), ("literal-in-a-table", ["C09"], u_tablelit.candidates(None)), ("character-constants", ["C09"], chars), ("macro-forms", ["C08", "C07"], macros), ("constant-destinations-rejected", ["C13", "C01"], rejected), ("error-locations", ["C06"], loc), ("error-locations-inside-a-statement", ["C06"], multi), ("no-panic", ["C16"], nopanic)]


def build(repo):
    u = Unit(NAME, TOOL, PROPS, [],
             assumptions=["BOUNDED: only the listed programs are covered"],
             bounded=["the program lists of units/u_errs.py: 6 literals with backslashes before a quote, 4 literals with non-ASCII text in a table / an initialiser, 2 character-constant programs, 11 macro forms, 3 rejected stores, 9 located errors, 3 located errors inside multi-line statements (known finding), 16 inputs that used to panic or could"])
    u.text[None] = ""
    u.dropped = ["nothing is extracted: the whole compiler runs (vf/probe)"]
    return u
