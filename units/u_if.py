"""U-if: GeneratorState::generate_if whole (and its helper has_logical_operator), verified in Verus over a pending-jump ghost state: for both truth values
of the condition exactly one of the two bodies runs (the then-body when it holds), `if (c) break;` / `if (c) continue;` jump to the enclosing loop's
labels exactly when c holds, every jump lands, and the generator's belief about N/Z at the start of the else-body is true -- it may be the belief
saved after the condition only when a single comparison reaches the else label (C01, C13, C15, C16)."""
import re
from vf.core import Unit
from vf.rustcut import SourceFile, Undecided
from . import common

NAME = "U-if"
TOOL = "verus"
PROPS = ["C01", "C13", "C15", "C16"]
RLIMIT = 200
TRUSTED = ["verus 0.2026.09.13 + z3", "A-fmt (R4)",
           "generate_condition's contract (U-gencond / U-condtail): control reaches the label exactly when the condition holds (negated if asked); when the condition is ONE comparison "
           "the belief about N/Z it leaves is also true on the path that jumped (the jump is its last instruction); with && / || nothing is known about the belief on the jumping paths",
           "generate_statement runs the statement (recorded as an event) unless a jump is pending, defines no label that is pending, and leaves the belief about N/Z true"]

SPECS = """
pub struct Error { pub e: u8 }
%(types)s
use AsmMnemonic::*;
pub struct CompilerState { pub x: u8 }
impl CompilerState { #[verifier::external_body] pub fn syntax_error(&self, message: &str, loc: usize) -> Error { unimplemented!() } }
// R6 shims of the statement tree: only what generate_if inspects
pub enum Statement { Break, Continue, Other(u8) }
pub struct StatementLoc { pub statement: Statement, pub id: int }
pub uninterp spec fn truth(e: Expr) -> bool;
pub open spec fn logical(e: Expr) -> bool decreases e {
    match e { Expr::BinOp { lhs, op, rhs } => op == Operation::Land || op == Operation::Lor, Expr::Not(x) => logical(*x), _ => false }
}
pub struct Ghosts {
    pub skip: Option<Seq<char>>,       // a jump is pending to this label
    pub ran: Seq<int>,                 // statements executed so far (ids)
    pub belief_true: bool,             // the generator's belief about N/Z (self.flags) is true in the current machine state
    pub flags_at_jump: Option<FlagsState>,   // when a jump is pending: a belief that is known to be true on the jumping path (None: nothing known)
}
pub struct GeneratorState<'a> {
    pub compiler_state: &'a CompilerState,
    pub flags: FlagsState, pub local_label_counter_if: u32,
    pub loops: Vec<(String, String, bool)>,
    pub gh: Ghost<Ghosts>,
}
pub open spec fn after(skip0: Option<Seq<char>>, jumps: bool, label: Seq<char>) -> Option<Seq<char>> { if skip0 is Some { skip0 } else if jumps { Some(label) } else { None } }
#[verifier::external_body]
pub fn string_clone(s: &String) -> (r: String) ensures r == *s { s.clone() }
#[verifier::external_body]
pub fn flags_clone(f: &FlagsState) -> (r: FlagsState) ensures r == *f { unimplemented!() }
"""

STUBS = """
    #[verifier::external_body]
    pub(crate) fn generate_condition(&mut self, condition: &Expr, pos: usize, negate: bool, label: &str, immediate_special: bool) -> (res: Result<Option<bool>, Error>)
        requires old(self).gh@.skip is None, old(self).gh@.belief_true,
        ensures final(self).compiler_state == old(self).compiler_state, final(self).loops == old(self).loops, final(self).local_label_counter_if >= old(self).local_label_counter_if,
            (res is Ok && !immediate_special) ==> res->Ok_0 is None,
            res is Ok ==> final(self).gh@.ran == old(self).gh@.ran,
            (res is Ok && res->Ok_0 is None) ==> final(self).gh@.skip == after(None, truth(*condition) != negate, label@),
            // on the fall-through path the belief left is true; on the jumping path it is true as well when the condition is a single comparison
            (res is Ok && final(self).gh@.skip is None) ==> final(self).gh@.belief_true,
            (res is Ok && final(self).gh@.skip is Some) ==> final(self).gh@.flags_at_jump == (if logical(*condition) { None::<FlagsState> } else { Some(final(self).flags) }),
    { unimplemented!() }
    #[verifier::external_body]
    pub fn generate_statement(&mut self, code: &StatementLoc) -> (res: Result<(), Error>)
        requires old(self).gh@.skip is Some || old(self).gh@.belief_true, //@ C01,C15:if-body-entered-with-true-belief
        ensures final(self).compiler_state == old(self).compiler_state, final(self).loops == old(self).loops, final(self).local_label_counter_if >= old(self).local_label_counter_if,
            res is Ok ==> final(self).gh@.skip == old(self).gh@.skip && final(self).gh@.flags_at_jump == old(self).gh@.flags_at_jump,
            res is Ok ==> final(self).gh@.ran == (if old(self).gh@.skip is Some { old(self).gh@.ran } else { old(self).gh@.ran.push(code.id) }),
            (res is Ok && old(self).gh@.skip is None) ==> final(self).gh@.belief_true,
    { unimplemented!() }
    #[verifier::external_body]
    pub(crate) fn asm(&mut self, mnemonic: AsmMnemonic, operand: &ExprType, pos: usize, high_byte: bool) -> (res: Result<bool, Error>)
        requires mnemonic == JMP && operand is Label,
        ensures final(self).compiler_state == old(self).compiler_state, final(self).loops == old(self).loops, final(self).local_label_counter_if == old(self).local_label_counter_if, final(self).flags == old(self).flags,
            res is Ok ==> final(self).gh@ == (if old(self).gh@.skip is Some { old(self).gh@ } else { Ghosts { skip: Some(operand->Label_0@), flags_at_jump: None, ..old(self).gh@ } }),
    { unimplemented!() }
    // a label: a pending jump to it lands here, the generator forgets what it believed about N/Z (Unknown is always a true belief)
    #[verifier::external_body]
    pub(crate) fn label(&mut self, l: &str) -> (res: Result<(), Error>)
        ensures final(self).compiler_state == old(self).compiler_state, final(self).loops == old(self).loops, final(self).local_label_counter_if == old(self).local_label_counter_if, res is Ok,
            final(self).flags == FlagsState::Unknown,
            final(self).gh@.ran == old(self).gh@.ran,
            final(self).gh@.skip == (if old(self).gh@.skip == Some(l@) { None::<Seq<char>> } else { old(self).gh@.skip }),
            // where the jump lands, a belief known to be true on the jumping path is remembered for the code that follows the label
            final(self).gh@.flags_at_jump == (if old(self).gh@.skip == Some(l@) { old(self).gh@.flags_at_jump } else { None::<FlagsState> }),
            final(self).gh@.belief_true,
    { unimplemented!() }
"""

HEADER = """pub(crate) fn generate_if(
        &mut self,
        condition: &Expr,
        body: &StatementLoc,
        else_body: Option<&StatementLoc>,
        pos: usize,
    ) -> (res: Result<(), Error>)
        requires
            old(self).gh@.skip is None, old(self).gh@.belief_true, old(self).gh@.ran.len() == 0,
            old(self).local_label_counter_if < 0xffff_fff0,
            // the labels of the enclosing loop are not the local labels this statement mints (label discipline: U-labels)
            forall|i: int| 0 <= i < old(self).loops@.len() ==> (#[trigger] old(self).loops@[i]).0@ != ".ifend"@ + dec(old(self).local_label_counter_if as int + 1)
                && old(self).loops@[i].0@ != ".else"@ + dec(old(self).local_label_counter_if as int + 1)
                && old(self).loops@[i].1@ != ".ifend"@ + dec(old(self).local_label_counter_if as int + 1) && old(self).loops@[i].1@ != ".else"@ + dec(old(self).local_label_counter_if as int + 1),
        ensures
            final(self).compiler_state == old(self).compiler_state,
            // exactly one of the two bodies runs: the then-body when the condition holds
            (res is Ok && !(else_body is None && (body.statement is Break || body.statement is Continue))) ==>
                final(self).gh@.ran == (if truth(*condition) { seq![body.id] } else if else_body is Some { seq![else_body->Some_0.id] } else { Seq::<int>::empty() }), //@ C01,C15:if-one-body-runs
            (res is Ok && !(else_body is None && (body.statement is Break || body.statement is Continue))) ==> final(self).gh@.skip is None, //@ C01,C13:if-jumps-land
            // `if (c) break;` / `if (c) continue;`: control goes to the loop's label exactly when c holds
            (res is Ok && else_body is None && body.statement is Break) ==> final(self).gh@.skip == after(None, truth(*condition), old(self).loops@[old(self).loops@.len() - 1].1@), //@ C01:if-break-shortcut
            (res is Ok && else_body is None && body.statement is Continue) ==> final(self).gh@.skip == after(None, truth(*condition), old(self).loops@[old(self).loops@.len() - 1].0@), //@ C01:if-continue-shortcut
            (res is Ok && else_body is None && body.statement is Continue) ==> old(self).loops@[old(self).loops@.len() - 1].0@.len() > 0, //@ C13,C16:if-continue-needs-a-loop
            (res is Ok && final(self).gh@.skip is None) ==> final(self).gh@.belief_true, //@ C01,C15:if-belief-true-afterwards
"""


def candidates(f):
    out = []
    for a in (0, 1):
        for b in (0, 5):
            for cond, fn in (("a == 0 && b == 0", lambda a, b: a == 0 and b == 0), ("a == 0 || b == 0", lambda a, b: a == 0 or b == 0), ("!(a == 0 && b == 0)", lambda a, b: not (a == 0 and b == 0)), ("b == 0", lambda a, b: b == 0), ("a", lambda a, b: a != 0)):
                want = 1 if fn(a, b) else (2 if b == 0 else 3)
                out.append({"source": "unsigned char a, b, r;\nvoid main() { r = 0; if (%s) r = 1; else { if (b == 0) r = 2; else r = 3; } }\n" % cond, "args": ["-O0"], "expect": {"panic": False},
                            "simulate": {"init": {"a": a, "b": b}, "expect": {"r": want}, "stack_empty": True}, "note": "a=%d b=%d" % (a, b)})
    return out


def build(repo):
    u = Unit(NAME, TOOL, PROPS, ["src/generate/generate_conditions.rs: GeneratorState::generate_if", "src/generate/generate_conditions.rs: has_logical_operator"],
             assumptions=["generate_condition / generate_statement / label / asm(JMP) are stubs over a pending-jump ghost state (contracts in TRUSTED)",
                          "the statement tree is an R6 shim (Statement::{Break, Continue, Other}); `&'a` lifetimes dropped",
                          "the loop labels on the stack are not `.ifend<k>` / `.else<k>` texts (label discipline, U-labels)",
                          "a `break` / `continue` body with an else branch, and the bodies' own effects, are outside this contract"])
    gc = SourceFile(repo, "src/generate/generate_conditions.rs")
    gm = SourceFile(repo, "src/generate/mod.rs")
    comp = SourceFile(repo, "src/compile.rs")
    asmf = SourceFile(repo, "src/assemble.rs")
    cuts, tys = [], []
    for sf, kind, name, structural in ((comp, "enum", "Operation", True), (asmf, "enum", "AsmMnemonic", True), (gm, "enum", "ExprType", False), (gm, "enum", "FlagsState", False), (comp, "enum", "Expr", False)):
        c = sf.item(kind, name)
        common.r2(c, structural=structural)
        c.sub(r"pub\(crate\) enum", "pub enum", "R2-pub")
        if not structural:
            c.sub(r"#\[derive\(([^)]*)\)\]", "", "R2-derive (no derived impls needed)", expect=(0, 1))
        cuts.append(c)
        tys.append(c.text)
    f = gc.fn("generate_if", within="GeneratorState")
    cuts.append(f)
    f.sub(r"\b(ifend_label|bl|cl)\.clone\(\)", r"string_clone(&\1)", "R11 String::clone -> shim", expect=(0, 8))
    f.sub(r"string_clone\(&(bl|cl)\)", r"string_clone(\1)", "R11 (already a reference)", expect=(0, 4))
    f.sub(r"self\.flags\.clone\(\)", "flags_clone(&self.flags)", "R11 derived Clone of FlagsState -> shim (an equal value)", expect=(0, 2))
    f.sub(r"self\.loops\.last_mut\(\)\.unwrap\(\)\.2 = true;", "{ let __n = self.loops.len(); let __e = self.loops.pop().unwrap(); self.loops.push((__e.0, __e.1, true)); }", "R18 last_mut().unwrap().2 = true -> pop / push of the same entry with the mark set", expect=(0, 2))
    f.sub(r"match self\.loops\.last\(\) \{", "match vec_last(&self.loops) {", "R18 Vec::last -> shim", expect=(0, 4))
    fm = common.Fmt({"self.local_label_counter_if": ("int", None)})
    fm.apply(f)
    f.set_header(HEADER, expect_sig="fn generate_if( &mut self, condition: &'a Expr, body: &'a StatementLoc<'a>, else_body: Option<&'a StatementLoc<'a>>, pos: usize, ) -> Result<(), Error>")
    f.body_start("""        proof { reveal_strlit(".ifend"); reveal_strlit(".else");
            assert((".else"@ + dec(self.local_label_counter_if as int + 1))[1] == 'e'); assert((".ifend"@ + dec(self.local_label_counter_if as int + 1))[1] == 'i'); }""")
    # at the else label: the restored belief must be true
    f.after_stmt(r"self\.flags = saved_flags;", "                proof { assert(self.gh@.skip is Some || self.flags == FlagsState::Unknown || (self.gh@.flags_at_jump == Some(self.flags))); } //@ C01:if-else-belief-restored-only-if-true")
    h = None
    helper = ""
    try:
        h = gc.fn("has_logical_operator")
        cuts.append(h)
        h.set_header("""#[verifier::exec_allows_no_decreases_clause]
fn has_logical_operator(condition: &Expr) -> (r: bool)
    ensures r == logical(*condition), //@ C01,C15:if-logical-operator-recognised
""", expect_sig="fn has_logical_operator(condition: &Expr) -> bool")
        helper = h.text
    except Undecided:
        helper = ""
    shim = """
#[verifier::external_body]
pub fn vec_last(v: &Vec<(String, String, bool)>) -> (r: Option<&(String, String, bool)>) ensures v@.len() == 0 ==> r is None, v@.len() > 0 ==> r is Some && *r->Some_0 == v@[v@.len() - 1] { v.last() }
"""
    text = common.PRELUDE + common.header_comment(NAME, cuts) + "verus! {\n" + common.DEC_SPECS + (SPECS % {"types": "\n".join(tys)}) + shim + fm.text() + helper + \
        "impl<'a> GeneratorState<'a> {\n" + STUBS + "\n" + f.text + "\n}\n" + common.CANARY + "\n} // verus!\n"
    u.text[None] = text
    u.rewrites = common.collect_rewrites(cuts)
    u.dropped = ["R6 shim environment (statement tree, GeneratorState fields other than flags / loops / local_label_counter_if)"]
    return u
