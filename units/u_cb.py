"""U-cb: AssemblyCode::check_branches, verbatim (C03, C04 literal sizes, C13 fix labels, C16)."""
import re
from vf.core import Unit
from vf.rustcut import SourceFile
from . import common

NAME = "U-cb"
TOOL = "verus"
PROPS = ["C03", "C04", "C13", "C16", "C01", "C15", "C02", "C14"]
RLIMIT = 150
TRUSTED = ["verus 0.2026.09.13 + z3", "vstd specifications of Vec (index/get/push/truncate/split_off/append), slice::Iter::next, String ==/clone (A-vstd)",
           "std::fmt `{}` renders integers in decimal (A-fmt, R4)"]

SPECS = """
// ---- spec for check_branches -----------------------------------------------------------------
pub open spec fn is_cb(m: AsmMnemonic) -> bool {
    m == AsmMnemonic::BEQ || m == AsmMnemonic::BNE || m == AsmMnemonic::BMI || m == AsmMnemonic::BPL || m == AsmMnemonic::BCS || m == AsmMnemonic::BCC
}
pub open spec fn is_cbl(l: AsmLine) -> bool { match l { AsmLine::Instruction(i) => is_cb(i.mnemonic), _ => false } }
pub open spec fn opnd(l: AsmLine) -> Seq<char> { match l { AsmLine::Instruction(i) => i.dasm_operand@, _ => Seq::<char>::empty() } }
pub open spec fn is_lab(l: AsmLine, n: Seq<char>) -> bool { match l { AsmLine::Label(x) => x@ == n, _ => false } }
pub open spec fn no_lab(s: Seq<AsmLine>, lo: int, hi: int, n: Seq<char>) -> bool { forall|i: int| lo <= i < hi ==> !is_lab(#[trigger] s[i], n) }
pub open spec fn has_label(s: Seq<AsmLine>, n: Seq<char>) -> bool { exists|j: int| 0 <= j < s.len() && is_lab(#[trigger] s[j], n) }
// A-targets: every conditional branch names a label defined in the same function
pub open spec fn targets_defined(s: Seq<AsmLine>) -> bool { forall|p: int| 0 <= p < s.len() && is_cbl(#[trigger] s[p]) ==> has_label(s, opnd(s[p])) }
// the 6502 displacement of the branch at p fits: the nearest label above (counting the branch itself: the
// displacement base is the address after the branch) or the nearest label below is within 127 declared bytes
pub open spec fn in_range(s: Seq<AsmLine>, p: int) -> bool {
    (exists|j: int| 0 <= j <= p && is_lab(#[trigger] s[j], opnd(s[p])) && no_lab(s, j + 1, p + 1, opnd(s[p])) && sum(s, j + 1, p + 1) <= 127)
    || (exists|j: int| p < j < s.len() && is_lab(#[trigger] s[j], opnd(s[p])) && no_lab(s, p + 1, j, opnd(s[p])) && sum(s, p + 1, j) <= 127)
}
pub open spec fn all_in_range(s: Seq<AsmLine>, hi: int) -> bool { forall|p: int| 0 <= p < hi && is_cbl(#[trigger] s[p]) ==> in_range(s, p) }
// A-cb-bounded: resource bound (a 6502 function is < 64 KiB; fewer than 2^31 repairs)
pub open spec fn cb_bounded(s: Seq<AsmLine>, nb_fixes: u32) -> bool {
    s.len() < 0x3fff_ffff && sum(s, 0, s.len() as int) <= 0x7fff_ffff && nb_fixes < 0x7fff_ffff
}

// ---- control-flow meaning of a segment made of branches, JMP and labels ----------------------
pub enum Outcome { Fall, Jump(Seq<char>), Stuck }
pub open spec fn find_lab(seg: Seq<AsmLine>, from: int, n: Seq<char>) -> int decreases seg.len() - from {
    if from < 0 || from >= seg.len() { -1 } else if is_lab(seg[from], n) { from } else { find_lab(seg, from + 1, n) }
}
pub open spec fn taken(m: AsmMnemonic, n: bool, z: bool, c: bool) -> bool {
    match m { AsmMnemonic::BEQ => z, AsmMnemonic::BNE => !z, AsmMnemonic::BMI => n, AsmMnemonic::BPL => !n,
              AsmMnemonic::BCS => c, AsmMnemonic::BCC => !c, AsmMnemonic::JMP => true, _ => false }
}
pub open spec fn run(seg: Seq<AsmLine>, pc: int, n: bool, z: bool, c: bool) -> Outcome decreases seg.len() - pc {
    if pc < 0 || pc >= seg.len() { Outcome::Fall } else {
        match seg[pc] {
            AsmLine::Instruction(i) =>
                if is_cb(i.mnemonic) || i.mnemonic == AsmMnemonic::JMP {
                    if taken(i.mnemonic, n, z, c) {
                        let t = find_lab(seg, pc + 1, i.dasm_operand@);
                        if pc < t < seg.len() { run(seg, t + 1, n, z, c) } else { Outcome::Jump(i.dasm_operand@) }
                    } else { run(seg, pc + 1, n, z, c) }
                } else { Outcome::Stuck },
            AsmLine::Inline(_, _) => Outcome::Stuck,
            _ => run(seg, pc + 1, n, z, c),
        }
    }
}
pub open spec fn only_flow(seg: Seq<AsmLine>) -> bool {
    forall|k: int| 0 <= k < seg.len() ==> match #[trigger] seg[k] {
        AsmLine::Label(_) => true,
        AsmLine::Instruction(i) => is_cb(i.mnemonic) || i.mnemonic == AsmMnemonic::JMP,
        _ => false }
}
// 6502 encoding length of the instructions a repair inserts: relative branch 2 bytes, JMP absolute 3 bytes
pub open spec fn flow_sizes_ok(seg: Seq<AsmLine>) -> bool {
    forall|k: int| 0 <= k < seg.len() ==> match #[trigger] seg[k] {
        AsmLine::Instruction(i) => (is_cb(i.mnemonic) ==> i.nb_bytes == 2) && (i.mnemonic == AsmMnemonic::JMP ==> i.nb_bytes == 3),
        _ => true }
}

pub open spec fn prot(l: AsmLine) -> bool { match l { AsmLine::Instruction(i) => i.protected, _ => false } }
pub open spec fn is_br(l: AsmLine, m: AsmMnemonic, name: Seq<char>) -> bool { match l { AsmLine::Instruction(i) => i.mnemonic == m && i.dasm_operand@ == name, _ => false } }
pub open spec fn inverse(m: AsmMnemonic) -> AsmMnemonic {
    match m { AsmMnemonic::BEQ => AsmMnemonic::BNE, AsmMnemonic::BNE => AsmMnemonic::BEQ, AsmMnemonic::BMI => AsmMnemonic::BPL, AsmMnemonic::BPL => AsmMnemonic::BMI,
              AsmMnemonic::BCC => AsmMnemonic::BCS, AsmMnemonic::BCS => AsmMnemonic::BCC, _ => m }
}
pub open spec fn mnem(l: AsmLine) -> AsmMnemonic { match l { AsmLine::Instruction(i) => i.mnemonic, _ => AsmMnemonic::NOP } }
pub open spec fn same_flow(a: Seq<AsmLine>, b: Seq<AsmLine>) -> bool { forall|n: bool, z: bool, c: bool| #[trigger] run(a, 0, n, z, c) == run(b, 0, n, z, c) }
// single far branch `Bxx L`  ==>  `Binv F ; JMP L ; F:`
pub proof fn lemma_repair_single(old_seg: Seq<AsmLine>, new_seg: Seq<AsmLine>, m: AsmMnemonic, l: Seq<char>, f: Seq<char>)
    requires
        is_cb(m), l != f,
        old_seg.len() == 1 && is_br(old_seg[0], m, l), //@ C03,C01,C15:repair-shape-old1
        new_seg.len() == 3 && is_br(new_seg[0], inverse(m), f) && is_br(new_seg[1], AsmMnemonic::JMP, l) && is_lab(new_seg[2], f), //@ C03,C01,C15:repair-shape-new1
    ensures same_flow(new_seg, old_seg),
{
    reveal_with_fuel(run, 6); reveal_with_fuel(find_lab, 5);
    assert forall|n: bool, z: bool, c: bool| #[trigger] run(new_seg, 0, n, z, c) == run(old_seg, 0, n, z, c) by {
        assert(find_lab(old_seg, 1, l) == -1);
        assert(find_lab(new_seg, 1, f) == 2);
        assert(find_lab(new_seg, 2, l) == -1);
    }
}
// `BMI L ; BEQ L` or `BCC L ; BEQ L` (less-or-equal)  ==>  `BEQ U ; BPL|BCS F ; U: ; JMP L ; F:`
pub proof fn lemma_repair_pair(old_seg: Seq<AsmLine>, new_seg: Seq<AsmLine>, m: AsmMnemonic, l: Seq<char>, f: Seq<char>, u: Seq<char>)
    requires
        m == AsmMnemonic::BMI || m == AsmMnemonic::BCC, l != f, l != u, f != u,
        old_seg.len() == 2 && is_br(old_seg[0], m, l) && is_br(old_seg[1], AsmMnemonic::BEQ, l), //@ C03,C01,C15:repair-shape-old2
        new_seg.len() == 5 && is_br(new_seg[0], AsmMnemonic::BEQ, u) && is_br(new_seg[1], inverse(m), f) && is_lab(new_seg[2], u)
            && is_br(new_seg[3], AsmMnemonic::JMP, l) && is_lab(new_seg[4], f), //@ C03,C01,C15:repair-shape-new2
    ensures same_flow(new_seg, old_seg),
{
    reveal_with_fuel(run, 8); reveal_with_fuel(find_lab, 7);
    assert forall|n: bool, z: bool, c: bool| #[trigger] run(new_seg, 0, n, z, c) == run(old_seg, 0, n, z, c) by {
        assert(find_lab(old_seg, 1, l) == -1);
        assert(find_lab(old_seg, 2, l) == -1);
        assert(find_lab(new_seg, 1, u) == 2);
        assert(find_lab(new_seg, 2, f) == 4);
        assert(find_lab(new_seg, 4, l) == -1);
    }
}
// a repair keeps A-targets: labels are never removed, and the inserted branches target labels inserted with them
pub open spec fn seg_targets_local(seg: Seq<AsmLine>) -> bool { forall|k: int| 0 <= k < seg.len() && is_cbl(#[trigger] seg[k]) ==> has_label(seg, opnd(seg[k])) }
pub proof fn lemma_targets_preserved(old: Seq<AsmLine>, new: Seq<AsmLine>, pos: int, remove: int, seg: Seq<AsmLine>)
    requires
        targets_defined(old), 0 <= pos, 0 <= remove, pos + remove <= old.len(),
        new =~= old.subrange(0, pos) + seg + old.subrange(pos + remove, old.len() as int),
        forall|k: int| pos <= k < pos + remove ==> !((#[trigger] old[k]) is Label),
        seg_targets_local(seg),
    ensures targets_defined(new)
{
    let d = seg.len() - remove;
    assert forall|p: int| 0 <= p < new.len() && is_cbl(#[trigger] new[p]) implies has_label(new, opnd(new[p])) by {
        if p < pos || p >= pos + seg.len() {
            let q = if p < pos { p } else { p - d };           // the same line in the old code
            assert(new[p] == old[q]);
            assert(is_cbl(old[q]));
            let j = choose|j: int| 0 <= j < old.len() && is_lab(#[trigger] old[j], opnd(old[q]));
            let j2 = if j < pos { j } else { j + d };
            assert(j < pos || j >= pos + remove);
            assert(new[j2] == old[j]);
            assert(is_lab(new[j2], opnd(new[p])));
        } else {
            let k = p - pos;
            assert(new[p] == seg[k]);
            let j = choose|j: int| 0 <= j < seg.len() && is_lab(#[trigger] seg[j], opnd(seg[k]));
            assert(new[pos + j] == seg[j]);
            assert(is_lab(new[pos + j], opnd(new[p])));
        }
    }
}
pub open spec fn fix_label(n: u32) -> Seq<char> { ".fix"@ + dec(n as int) }
pub open spec fn fixup_label(n: u32) -> Seq<char> { ".fixup"@ + dec(n as int) }
pub proof fn fix_labels_differ(n: u32)
    ensures fix_label(n) != fixup_label(n)
{
    reveal_strlit(".fix"); reveal_strlit(".fixup");
    dec_nat_digits(n as nat);
    let a = fix_label(n); let b = fixup_label(n);
    assert(a[4] == dec(n as int)[0]);
    assert(b[4] == 'u');
    assert(is_digit(dec_nat(n as nat)[0]));
}
"""

INNER_INV = """
                                invariant_except_break
                                    code == self.code@, name == inst.dasm_operand@, len == code.len(),
                                    position < len < 0x3fff_ffff, sum(code, 0, len) <= 0x7fff_ffff,
                                    has_label(code, name),
                                    position + 1 <= index_below <= len + position + 2, //@ C03:search-bounds
                                    !reached_above ==> index_above <= position && index_below == position + 1 + (position - index_above), //@ C03:search-lockstep
                                    reached_above ==> index_below > 2 * position + 1,
                                    bytes_above == sum(code, if reached_above { 0 } else { index_above + 1 }, position + 1), //@ C03:dist-above
                                    no_lab(code, if reached_above { 0 } else { index_above + 1 }, position + 1, name), //@ C03:nearest-above
                                    bytes_below == sum(code, position + 1, if index_below <= len { index_below as int } else { len }), //@ C03:dist-below
                                    no_lab(code, position + 1, if index_below <= len { index_below as int } else { len }, name), //@ C03:nearest-below
                                    notfound == (if reached_above { 1int } else { 0 }) + (if index_below > len { 2int } else { 0 }), //@ C03:notfound
                                ensures
                                    above ==> exists|j: int| 0 <= j <= position && is_lab(#[trigger] code[j], name)
                                        && no_lab(code, j + 1, position + 1, name) && bytes_above == sum(code, j + 1, position + 1), //@ C03:found-above
                                    !above ==> exists|j: int| position < j < len && is_lab(#[trigger] code[j], name)
                                        && no_lab(code, position + 1, j, name) && bytes_below == sum(code, position + 1, j), //@ C03:found-below
"""

INNER_HINTS = """
                                proof {
                                    if !reached_above { sum_lo(code, index_above as int, position + 1); sum_mono_lo(code, 0, index_above as int, position + 1); }
                                    sum_mono(code, 0, position + 1, len);
                                    if index_below < len { sum_mono(code, position + 1, index_below + 1, len); }
                                    sum_mono_lo(code, 0, position + 1, len);
                                    assert(notfound == 0 || notfound == 1 || notfound == 2 || notfound == 3);
                                    assert((notfound | 2) == (if notfound == 0 || notfound == 2 { 2int } else { 3 })) by(bit_vector) requires notfound == 0 || notfound == 1 || notfound == 2 || notfound == 3;
                                    assert((notfound | 1) == (if notfound == 0 || notfound == 1 { 1int } else { 3 })) by(bit_vector) requires notfound == 0 || notfound == 1 || notfound == 2 || notfound == 3;
                                    assert(((notfound | 2) | 1) == 3int) by(bit_vector) requires notfound == 0 || notfound == 1 || notfound == 2 || notfound == 3;
                                }
"""


def build(repo):
    u = Unit(NAME, TOOL, PROPS, ["src/assemble.rs: AssemblyCode::check_branches"],
             assumptions=[
                 "A-targets: every conditional branch's label is defined in the same code vector (precondition; C13's label obligation for the generator is not proved)",
                 "A-cb-bounded: spliced `assume` at the head of the repair loop: the function is < 1 Gi lines / 2 GiB and fewer than 2^31 repairs happen (termination of check_branches is not proved, so growth cannot be bounded deductively; a 6502 function is < 64 KiB)",
                 "A-fixfresh: the repair's equivalence is stated under the hypothesis that the branch's own label differs from the fresh .fixN/.fixupN labels (no user label is spelled .fixN)",
                 "A-fmt: format!(\".fix{}\", n) is \".fix\" followed by the decimal digits of n",
                 "termination of check_branches is not proved (R9: exec_allows_no_decreases_clause)",
                 "A-vstd"],
             )
    f, types, cuts = common.asm_types(repo)
    comp = SourceFile(repo, "src/compile.rs")
    op = comp.item("enum", "Operation")
    common.r2(op, structural=True)
    cuts.append(op)
    cb = f.fn("check_branches", within="AssemblyCode")
    cuts.append(cb)
    # R3: arithmetic on pattern-bound &u32
    cb.sub(r"\b(bytes_above|bytes_below) \+= s;", r"\1 += *s;", "R3-deref", expect=(0, 4))
    # R4
    fm = common.Fmt({"nb_fixes": ("int", None)})
    fm.apply(cb, expect=(2, 2))
    cb.set_header("""#[verifier::exec_allows_no_decreases_clause]
    pub fn check_branches(&mut self) -> (r: u32)
        requires targets_defined(old(self).code@), // A-targets
        ensures all_in_range(final(self).code@, final(self).code@.len() as int), //@ C03,C13:range
""", expect_sig="fn check_branches(&mut self) -> u32")
    cb.sub(r"let mut position = 0;", "let mut position: usize = 0;", "R3-type", expect=(0, 1))
    cb.sub(r"let mut remove = 1;", "let mut remove: usize = 1;", "R3-type", expect=(0, 1))
    cb.sub(r"let mut nb_fixes = 0;", "let mut nb_fixes: u32 = 0;", "R3-type", expect=(0, 1))
    # loop 1: while restart
    cb.loop_spec(1, r"^while restart$", """
            invariant !restart ==> all_in_range(self.code@, self.code@.len() as int), //@ C03,C13:range-outer
                targets_defined(self.code@), //@ C03,C13,C01,C15:repair-keeps-targets-defined
""")
    cb.after(r"while restart\s+invariant[^{]*\{", """
            assume(cb_bounded(self.code@, nb_fixes)); // A-cb-bounded
            let ghost code0 = self.code@;
""")
    # loop 2: scan
    cb.loop_spec(2, r"^loop$", """
                invariant_except_break
                    self.code@ == code0, cb_bounded(code0, nb_fixes), targets_defined(code0), restart, !repair,
                    i.obeys_prophetic_iter_laws(),
                    position + i.remaining().len() == code0.len(), //@ C03,C13:scan-position
                    forall|k: int| 0 <= k < i.remaining().len() ==> *(#[trigger] i.remaining()[k]) == code0[position + k], //@ C03:scan-iter
                    all_in_range(code0, position as int), //@ C03,C13:range-scan
                ensures
                    self.code@ == code0, cb_bounded(code0, nb_fixes),
                    !repair ==> !restart && all_in_range(code0, code0.len() as int), //@ C03,C13:range-scan-exit
                    repair ==> restart && position < code0.len() && is_cbl(code0[position as int]), //@ C03,C01,C15:repair-at-branch
""")
    cb.after(r"let j = i\.next\(\);", "proof { if j is Some { assert(*j->Some_0 == code0[position as int]); } }")
    # loop 3: nearest-label search
    cb.before(r"let mut bytes_above = 0;", """
                            let ghost code = self.code@;
                            let ghost name = inst.dasm_operand@;
                            let ghost len = self.code@.len() as int;
                            assert(has_label(code, name)) by { assert(is_cbl(code[position as int])); assert(opnd(code[position as int]) == name); }
""")
    cb.sub(r"let mut bytes_above = 0;", "let mut bytes_above: u32 = 0;", "R3-type", expect=(0, 1))
    cb.sub(r"let mut bytes_below = 0;", "let mut bytes_below: u32 = 0;", "R3-type", expect=(0, 1))
    cb.sub(r"let mut notfound = 0;", "let mut notfound: u32 = 0;", "R3-type", expect=(0, 1))
    cb.loop_spec(3, r"^loop$", INNER_INV)
    # hints at the top of the search loop body (robust to edits of the arms)
    cb.after(r"ensures\s+above ==>[^{]*?\n\s*\{", INNER_HINTS)
    cb.all_before(r"^\s*above = (true|false);", "proof { assert(!reached_above ==> (is_lab(code[index_above as int], name) <==> is_lab(code[index_above as int], name))); }", expect=(0, 4))
    cb.before(r"let distance = if above", """
                            proof {
                                if bytes_above <= 127 && above { assert(in_range(code, position as int)); }
                                if bytes_below <= 127 && !above { assert(in_range(code, position as int)); }
                            }
""")
    # the local that carries the branch's target: named by the code, not by this unit (a renamed local must not lose the proof)
    hints = {"tgt_hint_b": "", "tgt_hint": "", "lab2_hint": ""}
    mt = re.search(r"\b(\w+) = inst\.dasm_operand\.clone\(\);", cb.text)
    mi = re.search(r"\b(\w+) = inst\.clone\(\);", cb.text)
    if mt:
        hints["tgt_hint_b"] = "assert(%s@ == opnd(b));" % mt.group(1)
        hints["tgt_hint"] = "assert(%s@ == opnd(old_code[position as int]));" % mt.group(1)
    elif mi:
        hints["tgt_hint_b"] = "assert(%s.dasm_operand@ == opnd(b));" % mi.group(1)
        hints["tgt_hint"] = "assert(%s.dasm_operand@ == opnd(old_code[position as int]));" % mi.group(1)
    if re.search(r"\blet label2 = ", cb.text):
        hints["lab2_hint"] = "assert(label2@ == fix_label(nb_fixes));"
    # repair
    cb.before(r"let operation2 = match operation", """
                proof {
                    let b = old_code[position as int];
                    assert(is_cbl(b));
                    %(tgt_hint_b)s
                    assert(remove == 1 || remove == 2);
                    assert(remove == 2 ==> position + 1 < old_len);
                    assert(remove == 2 ==> old_code[position + 1] is Instruction);
                    assert(remove == 2 ==> is_br(old_code[position + 1], AsmMnemonic::BEQ, opnd(old_code[position as int])));
                }
""" % hints)
    cb.after(r"if repair \{", """
                let ghost old_code = self.code@;
                let ghost old_len = old_code.len() as int;
""")
    cb.before(r"self\.code\.append\(&mut tail\);", """
                proof {
                    let old_seg = old_code.subrange(position as int, position + remove);
                    let new_seg = self.code@.subrange(position as int, self.code@.len() as int);
                    fix_labels_differ(nb_fixes);
                    reveal_with_fuel(run, 8);
                    reveal_with_fuel(find_lab, 6);
                    assert(self.code@.subrange(0, position as int) =~= old_code.subrange(0, position as int)); //@ C03,C01,C15:repair-frame-head
                    assert(tail@ =~= old_code.subrange(position + remove, old_len)); //@ C03,C01,C15:repair-frame-tail
                    assert(only_flow(new_seg)); //@ C03,C01,C15:repair-only-branches
                    assert(flow_sizes_ok(new_seg)); //@ C04,C03:lit-cb-sizes
                    assert(only_flow(old_seg)); //@ C03,C01,C15:repair-removes-only-branches
                    // a branch of the repair that is followed by another conditional branch shares the flags of one comparison with it: the optimizer may not
                    // fold it away together with that comparison (it is marked protected, as generate_branch_instruction marks its own)
                    assert(forall|k: int| 0 <= k < new_seg.len() - 1 && is_cbl(#[trigger] new_seg[k]) && is_cbl(new_seg[k + 1]) ==> prot(new_seg[k])); //@ C02,C14,C01:repair-branch-before-a-branch-is-protected
                    %(tgt_hint)s
                    %(lab2_hint)s
                    // every flag combination takes the same exit (A-fixfresh as hypothesis)
                    if opnd(old_code[position as int]) != fix_label(nb_fixes) && opnd(old_code[position as int]) != fixup_label(nb_fixes) {
                        if remove == 1 {
                            lemma_repair_single(old_seg, new_seg, mnem(old_code[position as int]), opnd(old_code[position as int]), fix_label(nb_fixes)); //@ C03,C01,C15:repair-equiv-single
                        } else {
                            lemma_repair_pair(old_seg, new_seg, mnem(old_code[position as int]), opnd(old_code[position as int]), fix_label(nb_fixes), fixup_label(nb_fixes)); //@ C03,C01,C15:repair-equiv-pair
                        }
                    }
                    assert((opnd(old_code[position as int]) != fix_label(nb_fixes) && opnd(old_code[position as int]) != fixup_label(nb_fixes)) ==> same_flow(new_seg, old_seg)); //@ C03,C01,C15:repair-equiv
                    // the fresh label is defined exactly where the inverted branch expects it: last line of the segment
                    assert(is_lab(new_seg[new_seg.len() - 1], fix_label(nb_fixes))); //@ C03,C13:labels-fix-defined
                    assert(find_lab(new_seg, 0, fix_label(nb_fixes)) == new_seg.len() - 1); //@ C03,C13:labels-fix-once
                }
""" % hints)
    cb.after_stmt(r"self\.code\.append\(&mut tail\)", """
                proof {
                    let new_seg = self.code@.subrange(position as int, self.code@.len() - (old_len - position - remove));
                    assert(seg_targets_local(new_seg)) by {
                        assert(is_lab(new_seg[new_seg.len() - 1], fix_label(nb_fixes)));
                        assert forall|k: int| 0 <= k < new_seg.len() && is_cbl(#[trigger] new_seg[k]) implies has_label(new_seg, opnd(new_seg[k])) by {
                            if opnd(new_seg[k]) == fix_label(nb_fixes) { assert(is_lab(new_seg[new_seg.len() - 1], opnd(new_seg[k]))); }
                            else { assert(new_seg.len() == 5 && is_lab(new_seg[2], opnd(new_seg[k]))); }
                        }
                    }
                    assert forall|k: int| position <= k < position + remove implies !((#[trigger] old_code[k]) is Label) by { }
                    lemma_targets_preserved(old_code, self.code@, position as int, remove as int, new_seg);
                }
""")
    text = common.PRELUDE + common.header_comment(NAME, cuts) + "verus! {\n" + op.text + "\n" + types + common.SUM_SPECS + common.DEC_SPECS + SPECS + fm.text() + \
        "impl AssemblyCode {\n" + cb.text + "\n}\n" + common.CANARY + "\n} // verus!\n"
    u.text[None] = text
    u.rewrites = common.collect_rewrites(cuts)
    u.dropped = ["derive(Debug), item privacy (R2)", "debug!/error! logging (R1)", "format! replaced by external_body fmt_* with spec derived from the literal (R4)"]
    return u
