"""U-dashd: the body of the loop of compile() that turns each `-D` option into a macro definition, cut as a window (R8) and verified in Verus against
specifications of str::splitn / str::split written from the standard library's documentation: the macro's name is the text before the first `=`, its value
everything after that `=` (further `=` included: `-DCOND=X==2`), and `1` when there is no `=` -- what `#define NAME VALUE` at the top of the file
defines (C08).  No option text makes the loop panic (C16)."""
import re
from vf.core import Unit
from vf.rustcut import SourceFile, Undecided, match_brace
from . import common

NAME = "U-dashd"
TOOL = "verus"
PROPS = ["C08", "C16", "C06", "C07"]
RLIMIT = 50
TRUSTED = ["verus 0.2026.09.13 + z3", "str::splitn(n, c) / str::split(c): the pieces between occurrences of c, at most n of them, the last one being the unsplit remainder (specification of the shim iterator, from the std documentation)",
           "vstd: Option::unwrap, Option::unwrap_or"]

SPECS = """
pub open spec fn tail(s: Seq<char>, n: int) -> Seq<char> { s.subrange(n, s.len() as int) }
// index of the first c in s, or s.len()
pub open spec fn first_of(s: Seq<char>, c: char) -> int decreases s.len() { if s.len() == 0 { 0 } else if s[0] == c { 0 } else { 1 + first_of(tail(s, 1), c) } }
pub proof fn lemma_first_of(s: Seq<char>, c: char) ensures 0 <= first_of(s, c) <= s.len() decreases s.len() { if s.len() > 0 && s[0] != c { lemma_first_of(tail(s, 1), c); } }
pub open spec fn occurs(s: Seq<char>, c: char) -> bool { first_of(s, c) < s.len() }
// ---- what `#define NAME VALUE` on top of the file would define, for the option text NAME[=VALUE] ------------------------------------
pub open spec fn name_of(opt: Seq<char>) -> Seq<char> { opt.subrange(0, first_of(opt, '=')) }
pub open spec fn value_of(opt: Seq<char>) -> Seq<char> { if occurs(opt, '=') { tail(opt, first_of(opt, '=') + 1) } else { "1"@ } }
// ---- std: the iterator returned by str::splitn(n, c) (limit = n) and str::split(c) (limit = -1: none) -------------------------------
pub struct Pieces<'a> { pub text: &'a str, pub rest: Ghost<Option<Seq<char>>>, pub limit: Ghost<int>, pub c: Ghost<char> }
impl<'a> Pieces<'a> {
    #[verifier::external_body] pub fn next(&mut self) -> (r: Option<&'a str>)
        ensures final(self).c@ == old(self).c@,
            old(self).rest@ is None || old(self).limit@ == 0 ==> r is None && final(self).rest@ is None,
            (old(self).rest@ is Some && old(self).limit@ != 0 && (old(self).limit@ == 1 || !occurs(old(self).rest@->Some_0, old(self).c@))) ==> r is Some && r->Some_0@ == old(self).rest@->Some_0 && final(self).rest@ is None,
            (old(self).rest@ is Some && old(self).limit@ != 0 && old(self).limit@ != 1 && occurs(old(self).rest@->Some_0, old(self).c@)) ==> r is Some && r->Some_0@ == old(self).rest@->Some_0.subrange(0, first_of(old(self).rest@->Some_0, old(self).c@))
                && final(self).rest@ == Some(tail(old(self).rest@->Some_0, first_of(old(self).rest@->Some_0, old(self).c@) + 1)) && final(self).limit@ == (if old(self).limit@ > 0 { old(self).limit@ - 1 } else { old(self).limit@ }),
    { unimplemented!() }
}
#[verifier::external_body] pub fn str_splitn<'a>(s: &'a String, n: usize, c: char) -> (r: Pieces<'a>) ensures r.rest@ == Some(s@), r.limit@ == n, r.c@ == c { unimplemented!() }
#[verifier::external_body] pub fn str_split<'a>(s: &'a String, c: char) -> (r: Pieces<'a>) ensures r.rest@ == Some(s@), r.limit@ == -1, r.c@ == c { unimplemented!() }
pub struct Error { pub e: u8 }
#[verifier::external_body] pub fn str_contains_char(s: &str, c: char) -> (r: bool) ensures r == occurs(s@, c) { s.contains(c) }
pub uninterp spec fn is_ident(s: Seq<char>) -> bool;
#[verifier::external_body] pub fn is_macro_name(s: &str) -> (r: bool) ensures r == is_ident(s@) { unimplemented!() }
// the preprocessor context: what was defined last
pub uninterp spec fn expand(c: Context, s: Seq<char>) -> Seq<char>;
pub struct Context { pub name: Ghost<Seq<char>>, pub value: Ghost<Seq<char>>, pub n: Ghost<int>, pub names: Ghost<Set<Seq<char>>> }
impl Context {
    // Context::replace_all (U-replall): what the macros known so far make of a text
    #[verifier::external_body] pub fn replace_all(&self, s: &str) -> (r: String) ensures r@ == expand(*self, s@) { unimplemented!() }
    #[verifier::external_body] pub fn get_macro(&self, name: &str) -> (r: Option<&String>) ensures (r is Some) == self.names@.contains(name@) { unimplemented!() }
    #[verifier::external_body] pub fn undefine(&mut self, name: &str) requires old(self).names@.contains(name@),
        ensures final(self).names@ == old(self).names@.remove(name@), final(self).n@ == old(self).n@ - 1, final(self).name == old(self).name, final(self).value == old(self).value { unimplemented!() }
    // the name becomes part of a regular expression (`\\bNAME\\b`, unwrapped): it has to be an identifier
    // the value is written on one line of the preprocessed text: a line break in it would leave the line table short (a panic when an error is located)
    #[verifier::external_body] pub fn define(&mut self, name: &str, value: &str) requires is_ident(name@), //@ C16,C08:dash-d-name-is-an-identifier
            !occurs(value@, '\\n'), //@ C16,C06:dash-d-value-has-no-line-break
            // a name is in the tables once: a second entry would survive an #undef and shadow a later #define (the first entry is the one applied)
            !old(self).names@.contains(name@), //@ C08,C07:dash-d-defines-a-name-that-is-not-defined
        ensures final(self).name@ == name@, final(self).value@ == value@, final(self).n@ == old(self).n@ + 1, final(self).names@ == old(self).names@.insert(name@) { unimplemented!() }
}
"""


def candidates(f):
    out = []
    for opt, body, want, note in (("COND=X==2", "X = 2; r = 0; if (COND) r = 1;", 1, "value with a comparison"), ("INIT=r=5", "r = 0; INIT;", 5, "value with an assignment"),
                                  ("N=3", "r = N;", 3, "plain value"), ("FLAG", "r = FLAG;", 1, "no value")):
        out.append({"source": "unsigned char r;\nvoid main() { %s }\n" % body, "args": ["-O0", "-D", opt], "expect": {"panic": False},
                    "simulate": {"init": {}, "expect": {"r": want}, "stack_empty": True}, "contract_only": True, "note": "-D %s: %s" % (opt, note)})
    out.append({"source": "unsigned char r;\n#undef V\n#define V 0\nvoid main() {\n#if V\nr = 2;\n#else\nr = 1;\n#endif\n}\n", "args": ["-O0", "-D", "V=1", "-D", "V=1"], "expect": {"panic": False},
                "simulate": {"init": {}, "expect": {"r": 1}, "stack_empty": True}, "contract_only": True, "note": "-D V=1 twice, then #undef V / #define V 0 in the source"})
    out.append({"source": "unsigned char r;\nvoid main() { r = V; }\n", "args": ["-O0", "-D", "V=0", "-D", "V=1"], "expect": {"panic": False},
                "simulate": {"init": {}, "expect": {"r": 1}, "stack_empty": True}, "contract_only": True, "note": "-D V=0 -D V=1: the last one wins"})
    out.append({"source": "unsigned char r;\nvoid main() { r = B; }\n", "args": ["-O0", "-D", "A=1", "-D", "B=A+2"], "expect": {"panic": False, "must_compile": True},
                "simulate": {"init": {}, "expect": {"r": 3}, "stack_empty": True}, "contract_only": True, "note": "-D A=1 -D B=A+2: as `#define A 1` / `#define B A+2`"})
    out.append({"source": "NL\nNL\nvoid main() { x = 1; }\n", "args": ["-O0", "-D", "NL=\n\n\n"], "expect": {"panic": False}, "contract_only": True, "note": "-D value with line breaks, then an error to locate"})
    return out


def build(repo):
    u = Unit(NAME, TOOL, PROPS, ["src/compile.rs: compile() -- body of `for i in &args.defines { .. }` (R8)"],
             assumptions=["the specification of the split iterators is the trusted statement of what std does; Context::define is a stub that records its arguments (its own contract: U-macro)",
                          "`-D NAME` defines NAME as 1 (what the option means in every C compiler)"])
    f = SourceFile(repo, "src/compile.rs")
    s0, ob0, cb0 = f.find_fn_span("compile")
    m = f.masked
    h = re.compile(r"for (\w+) in &args\.defines \{").search(m, ob0, cb0)
    if not h:
        raise Undecided("compile(): `for i in &args.defines {` not found")
    var = h.group(1)
    ob = h.end() - 1
    cb = match_brace(m, ob, "{", "}")
    c = f.cut_span(f.text.index("\n", ob) + 1, cb, "compile(): body of the loop over args.defines (R8)")
    c.sub(r"\b%s\.splitn\((\d+), ('.')\)" % var, r"str_splitn(%s, \1, \2)" % var, "R15 str::splitn(n, char) -> shim iterator", expect=(0, 1))
    c.sub(r"\b%s\.split\(('.')\)" % var, r"str_split(%s, \1)" % var, "R15 str::split(char) -> shim iterator", expect=(0, 1))
    c.sub(r"\b(\w+)\.contains\(('(?:\\.|[^'\\])')\)", r"str_contains_char(\1, \2)", "R15 str::contains(char) -> shim", expect=(0, 2))
    c.sub(r"return Err\(Error::Configuration \{(?:[^}\"]|\"[^\"]*\")*\}\);", "return Err(Error { e: 0 });", "R1 the error value -> any error", expect=(0, 4))
    if re.search(r"let value = context\.replace_all\(", c.text):
        c.sub(r"str_contains_char\(value,", "str_contains_char(&value,", "R3 the expanded value is a String: passed by reference to the shim", expect=(0, 1))
        c.sub(r"context\.define\((\w+), value\)", r"context.define(\1, &value)", "R3 Into<String>: the String is passed by reference to the stub", expect=1)
    if re.search(r"\b%s\.\w+\(" % var, c.text):
        raise Undecided("compile(): the option text is used through a method outside the unit's shims: %r" % re.search(r"\b%s\.\w+\(" % var, c.text).group(0))
    fn = """
// R8: body of the loop over the -D options, verbatim up to R15
pub fn dash_d(context: &mut Context, %(v)s: &String) -> (res: Result<(), Error>)
    ensures res is Ok ==> final(context).n@ == old(context).n@ + (if old(context).names@.contains(name_of(%(v)s@)) { 0int } else { 1int }), //@ C08:dash-d-defines-one-macro
        res is Ok ==> final(context).names@ =~= old(context).names@.insert(name_of(%(v)s@)), //@ C08,C07:dash-d-name-is-defined-afterwards
        res is Ok ==> final(context).name@ == name_of(%(v)s@), //@ C08:dash-d-name-is-the-text-before-the-first-equals
        // as `#define NAME VALUE` does: the macros known at that moment are expanded in the value
        res is Ok ==> final(context).value@ == expand(*old(context), value_of(%(v)s@)), //@ C08:dash-d-value-is-everything-after-the-first-equals
        res is Err ==> final(context).n@ == old(context).n@,
{
    proof { reveal_strlit("1"); lemma_first_of(%(v)s@, '='); assert(%(v)s@.subrange(0, %(v)s@.len() as int) =~= %(v)s@); }
%(body)s
    Ok(())
}
""" % {"v": var, "body": c.text}
    u.text[None] = common.PRELUDE + common.header_comment(NAME, [c]) + "verus! {\n" + SPECS + fn + common.CANARY + "\n} // verus!\n"
    u.rewrites = common.collect_rewrites([c])
    u.dropped = ["everything of compile() but the body of the loop over args.defines"]
    return u
