"""U-pushcode: GeneratorState::push_code whole (the expansion of an inline function at a call site), verified in Verus against U-appcode's contract of
append_code: the caller's code becomes what it was, followed by the callee's lines renamed with a counter value no earlier expansion used, followed by
exactly the label that the callee's early returns (`JMP .endof`, renamed with the same suffix) jump to -- so a return inside an inlined body lands right
after that body, in every expansion (C14, C13, C01)."""
import re
from vf.core import Unit
from vf.rustcut import SourceFile, Undecided
from . import common
from . import u_appcode

NAME = "U-pushcode"
TOOL = "verus"
PROPS = ["C14", "C13", "C01", "C16"]
RLIMIT = 100
TRUSTED = ["verus 0.2026.09.13 + z3", "A-fmt (R4)", "append_code has the contract U-appcode proves of it (its text is verified there); append_label pushes a Label line",
           "R5: `functions_code.get(f)` / `functions_code.get_mut(current).unwrap()` are the callee's and the caller's code objects (two fields of the shim: a function is not inlined into itself)",
           "generate_return emits `JMP .endof` in an inline function (src/generate/generate_statements.rs: scanned)"]

SPECS = """
pub struct Error { pub e: u8 }
pub struct CompilerState { pub x: u8 }
impl CompilerState { #[verifier::external_body] pub fn syntax_error(&self, message: &str, loc: usize) -> Error { unimplemented!() } }
impl AssemblyCode {
    // U-appcode's contract
    #[verifier::external_body]
    pub fn append_code(&mut self, code: &AssemblyCode, inline_counter: u32)
        ensures
            final(self).code@.len() == old(self).code@.len() + code.code@.len(),
            final(self).code@.subrange(0, old(self).code@.len() as int) =~= old(self).code@,
            forall|k: int| 0 <= k < code.code@.len() ==> renamed(code.code@[k], #[trigger] final(self).code@[old(self).code@.len() + k], inline_counter),
    { unimplemented!() }
    #[verifier::external_body]
    pub fn append_label(&mut self, s: String)
        ensures final(self).code@.len() == old(self).code@.len() + 1, final(self).code@.subrange(0, old(self).code@.len() as int) =~= old(self).code@,
            final(self).code@[old(self).code@.len() as int] is Label && final(self).code@[old(self).code@.len() as int]->Label_0@ == s@,
    { unimplemented!() }
}
// A-clone: the derived Clone of AssemblyCode copies every line
#[verifier::external_body]
pub fn clone_code(c: &AssemblyCode) -> (r: AssemblyCode) ensures r.code@.len() == c.code@.len(), forall|k: int| 0 <= k < c.code@.len() ==> line_eq(#[trigger] r.code@[k], c.code@[k]) { unimplemented!() }
pub struct GeneratorState<'a> {
    pub compiler_state: &'a CompilerState,
    pub inline_label_counter: u32,
    pub current_function: Option<String>,
    pub out: AssemblyCode,                       // R5: functions_code[current_function]
    pub callee: Option<AssemblyCode>,            // R5: functions_code.get(f)
}
#[verifier::external_body] pub fn string_is(s: &String, t: &str) -> (r: bool) ensures r == (s@ == t@) { s == t }      // R15: String == str
#[verifier::external_body] pub fn opt_ref(o: &Option<AssemblyCode>) -> (r: Option<&AssemblyCode>) ensures o is None ==> r is None, o is Some ==> r is Some && *r->Some_0 == o->Some_0 { o.as_ref() }
// renaming a clone is renaming the original
pub proof fn lemma_renamed_of_clone(a: AsmLine, b: AsmLine, d: AsmLine, n: u32)
    requires line_eq(b, a), renamed(b, d, n),
    ensures renamed(a, d, n),
{ }
"""

HEADER = """pub(crate) fn push_code(&mut self, f: &str, pos: usize) -> (res: Result<(), Error>)
        requires old(self).inline_label_counter < u32::MAX,
        ensures
            final(self).compiler_state == old(self).compiler_state,
            final(self).inline_label_counter == old(self).inline_label_counter + 1, //@ C13,C14:inline-expansion-takes-a-fresh-counter
            // the code of the function being generated is incomplete: copying it into itself leaves branches to labels that are never defined (a panic in check_branches)
            (old(self).current_function is Some && old(self).current_function->Some_0@ == f@) ==> res is Err, //@ C16,C14:inline-expansion-of-the-function-being-generated-is-rejected
            (res is Ok && old(self).current_function is Some) ==> old(self).callee is Some && ({
                let n = (old(self).inline_label_counter + 1) as u32; let body = old(self).callee->Some_0.code@; let c0 = old(self).out.code@; let c1 = final(self).out.code@;
                c1.len() == c0.len() + body.len() + 1 && c1.subrange(0, c0.len() as int) =~= c0
                && (forall|k: int| 0 <= k < body.len() ==> renamed(body[k], #[trigger] c1[c0.len() + k], n))
                // the label right after the body is the one a renamed `JMP .endof` names
                && c1[c0.len() + body.len() as int] is Label && c1[c0.len() + body.len() as int]->Label_0@ == ".endof"@ + suffix(n) }), //@ C14,C13,C01:inline-body-then-the-label-its-returns-jump-to
            (res is Ok && old(self).current_function is None) ==> final(self).out == old(self).out,
"""


def build(repo):
    u = Unit(NAME, TOOL, PROPS, ["src/generate/generate_asm.rs: GeneratorState::push_code"],
             assumptions=["append_code / append_label are stubs with the contracts proved in U-appcode (TRUSTED here)", "A-clone; A-fmt; R5",
                          "the inline counter does not wrap (2^32 expansions)"])
    f, types, cuts = common.asm_types(repo)
    ga = SourceFile(repo, "src/generate/generate_asm.rs")
    gs = SourceFile(repo, "src/generate/generate_statements.rs")
    if not re.search(r'ExprType::Label\("\.endof"\.into\(\)\)', gs.text):
        raise Undecided("generate_return no longer emits `JMP .endof` for an inline function: the label push_code appends would not be the one returns name")
    pc = ga.fn("push_code", within="GeneratorState")
    cuts.append(pc)
    pc.sub(r"\b(\w+) == f\b", r"string_is(\1, f)", "R15 String == &str -> shim", expect=(0, 1))
    pc.sub(r"self\.functions_code\.get\(f\)", "opt_ref(&self.callee)", "R5 functions_code.get(f) -> the callee's code object", expect=1)
    pc.sub(r"\bc\.clone\(\)", "clone_code(c)", "R-clone (A-clone shim)", expect=1)
    pc.sub(r"^\s*let code: &mut AssemblyCode = self\.functions_code\.get_mut\(fx\)\.unwrap\(\);\n", "", "R5 functions_code.get_mut(current).unwrap() -> self.out", expect=1)
    pc.sub(r"\bcode\.(append_code|append_label)\(", r"self.out.\1(", "R5 (the caller's code object)", expect=2)
    pc.sub(r"append_label\((fmt_\w+\([^;]*\))\)\s*\n", r"append_label(\1);\n", "(statement terminator)", expect=(0, 1))
    fm = common.Fmt({"self.inline_label_counter": ("int", None)})
    fm.apply(pc)
    pc.sub(r"(self\.out\.append_(?:code|label)\([^;\n]*\))[ \t]*\n(\s*)\}", r"\1;\n\2}", "R3 unit-valued tail expression -> statement", expect=(0, 1))
    pc.set_header(HEADER, expect_sig="pub(crate) fn push_code(&mut self, f: &str, pos: usize) -> Result<(), Error>")
    pc.body_start("""        let ghost c0 = self.out.code@; let ghost n = (self.inline_label_counter + 1) as u32;
        proof { reveal_strlit(".endofinline"); reveal_strlit(".endof"); reveal_strlit("inline"); }""")
    pc.at_block_end(r"if let Some\(fx\) = &self\.current_function", """            proof {
                let body = old(self).callee->Some_0.code@;
                assert(".endofinline"@ + dec(n as int) =~= ".endof"@ + suffix(n));
                if self.out.code@.len() == c0.len() + body.len() + 1 {
                    assert forall|k: int| 0 <= k < body.len() && code2.code@.len() == body.len() implies renamed(body[k], #[trigger] self.out.code@[c0.len() + k], n) by {
                        assert(self.out.code@[c0.len() + k] == self.out.code@.subrange(0, (c0.len() + body.len()) as int)[c0.len() + k]);
                        lemma_renamed_of_clone(body[k], code2.code@[k], self.out.code@[c0.len() + k], n);
                    }
                    assert(self.out.code@.subrange(0, c0.len() as int) =~= self.out.code@.subrange(0, (c0.len() + body.len()) as int).subrange(0, c0.len() as int));
                }
            }""")
    text = common.PRELUDE + common.header_comment(NAME, cuts) + "verus! {\n" + types + common.DEC_SPECS + u_appcode.SPECS + SPECS + fm.text() + \
        "impl<'a> GeneratorState<'a> {\n" + pc.text + "\n}\n" + common.CANARY + "\n} // verus!\n"
    u.text[None] = text
    u.rewrites = common.collect_rewrites(cuts)
    u.dropped = ["R6 shim environment (the code table reduced to the two code objects the function touches)"]
    return u
