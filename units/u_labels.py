"""U-labels: the local-label minting discipline of the generator (C13: no label defined twice within a function).
Every `format!(".<prefix>{}", self.<counter>)` site is cut together with the adjacent increment of the same counter (R8 window:
the statements between the nearest `self.<counter> += 1;` and the mint, provided nothing but lets / match heads lies between)."""
import re
from vf.core import Unit
from vf.rustcut import SourceFile, Undecided, mask, line_of
from . import common

NAME = "U-labels"
TOOL = "verus"
PROPS = ["C13", "C16"]
TRUSTED = ["verus 0.2026.09.13 + z3"]

# style per label prefix: "pre" = counter incremented, then its new value is used; "post" = current value used, then incremented
STYLE = {".ifstart": "post"}     # every other prefix is pre-incremented

SPECS = """
// Label discipline.  Within one function body the counters only grow.  A prefix minted with the value v of its counter is unique
// if every mint of that prefix is tied to its own increment in one fixed style:
//   pre : counter += 1; mint(counter)      -> v is larger than every value the counter had before
//   post: mint(counter); counter += 1      -> every later value of the counter is larger than v
// (mixing the two styles for one prefix could mint the same value twice; different prefixes never collide).
pub open spec fn pre_style(c0: u32, used: u32, c1: u32) -> bool { used == c0 + 1 && c1 == c0 + 1 }
pub open spec fn post_style(c0: u32, used: u32, c1: u32) -> bool { used == c0 && c1 == c0 + 1 }
"""

MINT_RE = re.compile(r'format!\(\s*"(\.[a-z]+)\{\}",\s*self\.(local_label_counter_\w+|inline_label_counter)\s*\)')
FILES = ["src/generate/generate_statements.rs", "src/generate/generate_arithm.rs", "src/generate/generate_conditions.rs", "src/generate/generate_asm.rs", "src/generate/generate_assign.rs"]


def quiet(masked_between):
    """True if the text between an increment and a mint contains no call on self, no `?`, no loop head: only lets, other mints, match/if heads, braces."""
    t = masked_between
    t = re.sub(r'format!\([^;]*?\)', "", t)
    # alternatives of a `match` that encloses the mint are not on the path into it: drop the arms that precede the mint's own arm
    while True:
        depth, opens = 0, []
        for i, ch in enumerate(t):
            if ch == "{":
                opens.append(i)
            elif ch == "}" and opens:
                opens.pop()
        dropped = False
        for ob in opens:                                   # braces still open at the mint
            head = t[:ob]
            if re.search(r"\bmatch\b[^{};]*$", head):
                inner = t[ob + 1:]
                # last arm arrow at depth 0 of this match body
                d, last = 0, None
                for i, ch in enumerate(inner):
                    if ch in "{([":
                        d += 1
                    elif ch in "})]":
                        d -= 1
                    elif ch == "=" and inner[i:i + 2] == "=>" and d == 0:
                        last = i
                if last is not None and re.search(r"self\.\w+\(|\bfor\b|\bwhile\b|\bloop\b", inner[:last]):
                    t = t[:ob + 1] + inner[last:]
                    dropped = True
                    break
        if not dropped:
            break
    # only a call of a method on self (which may mint labels itself) or a loop head breaks the window
    if re.search(r"self\.\w+\(|\bfor\b|\bwhile\b|\bloop\b", t):
        return False
    return True


def build(repo):
    u = Unit(NAME, TOOL, PROPS, ["src/generate/*.rs: every local-label mint site `format!(\".<prefix>{}\", self.<counter>)` with its adjacent counter increment (R8 windows)"],
             assumptions=["uniqueness argument (comment in the unit's spec): counters only grow within a function body and each prefix uses one style; that no other statement decrements or resets a counter inside a function body is checked by a textual scan (resets between functions are done by the builder, outside this crate)",
                          "goto labels, symbols referenced from inline assembly and labels of different inline expansions are not covered here (U-appcode / U-inline cover the renaming)",
                          "labels built from a counter by other means than format!(\".<prefix>{}\", self.<counter>) are outside the unit's model (none on the pinned tree)"])
    fns = []
    sites = []
    for rel in FILES:
        f = SourceFile(repo, rel)
        text, mk = f.text, f.masked
        # the literal is blanked in the masked text: search the raw text, confirm the position is code (not a comment)
        for m in MINT_RE.finditer(text):
            if mk[m.start():m.start() + 7] != "format!":
                continue
            prefix, ctr = m.group(1), m.group(2)
            inc = re.compile(r"self\." + re.escape(ctr) + r" \+= 1;")
            before = [x for x in inc.finditer(mk, 0, m.start())]
            after = inc.search(mk, m.end())
            pre = bool(before) and quiet(mk[before[-1].end():m.start()])
            # statement end of the mint
            se = mk.find(";", m.end())
            post = after is not None and quiet(mk[se + 1:after.start()])
            sites.append((rel, line_of(text, m.start()), prefix, ctr, pre, post))
        if re.search(r"self\.(local_label_counter_\w+|inline_label_counter)\s*(-=|=\s*[^=])", mk):
            raise Undecided("%s resets or decrements a label counter inside the generator: outside the unit's model" % rel)
    if len(sites) < 30:
        raise Undecided("only %d label mint sites found (expected about 39)" % len(sites))
    for k, (rel, ln, prefix, ctr, pre, post) in enumerate(sites, 1):
        style = STYLE.get(prefix, "pre")
        body = "        let mut c = c0;\n"
        if pre and style == "pre":
            body += "        c += 1;                       // `self.%s += 1;` precedes the mint\n" % ctr
        elif pre and style == "post" and not post:
            body += "        c += 1;\n"
        body += "        let used = c;                  // format!(\"%s{}\", self.%s)\n" % (prefix, ctr)
        if post and style == "post":
            body += "        c += 1;                       // `self.%s += 1;` follows the mint\n" % ctr
        elif post and style == "pre" and not pre:
            body += "        c += 1;\n"
        fns.append("""
    // mint site %(k)d: %(rel)s:%(ln)d  prefix `%(prefix)s`  counter `%(ctr)s`  (window extracted mechanically)
    fn mint_%(k)d(c0: u32) -> (r: (u32, u32))
        requires c0 < 0xffff_fff0,
        ensures %(style)s_style(c0, r.0, r.1), //@ C13:label-%(tag)s-%(k)d-own-increment
    {
%(body)s        (used, c)
    }
""" % {"k": k, "rel": rel, "ln": ln, "prefix": prefix, "ctr": ctr, "style": style, "tag": prefix[1:], "body": body})
    text = common.PRELUDE + "// unit %s: %d mint sites\n" % (NAME, len(sites)) + "verus! {\n" + SPECS + "pub struct Sites;\nimpl Sites {\n" + "\n".join(fns) + "\n}\n" + common.CANARY + "\n} // verus!\n"
    u.text[None] = text
    u.rewrites = ["R8 window per mint site: [`self.<ctr> += 1;`] mint [`self.<ctr> += 1;`] with `self.<ctr>` renamed to a local; an increment belongs to the window only if nothing but lets / other mints / match heads lies between it and the mint"]
    u.dropped = ["everything else of the generator functions"]
    return u
