"""U-splice: the head of the reader loop of cpp::process -- `line += 1;` and the loop that joins lines ending in a backslash -- cut as a window (R8) and
verified in Verus against a counting stub of the input: when the window is left, `line` is the number of physical lines read so far, whatever the lines
contain (a spliced logical line is numbered by its last physical line, and every later line by its own).  That the window is the only place of process()
that assigns `line` or reads from the input is checked on the masked text (frame).  Together with U-linemap (one table entry per output line, carrying
`line`) this is what makes a reported line one of the physical lines of the construct (C06)."""
import re
from vf.core import Unit
from vf.rustcut import SourceFile, Undecided, match_brace
from . import common

NAME = "U-splice"
TOOL = "verus"
PROPS = ["C06", "C16"]
RLIMIT = 50
TRUSTED = ["verus 0.2026.09.13 + z3", "BufRead::read_line returns Ok(n > 0) exactly when it delivered one more physical line (stub Input::read_line counts them)",
           "the input has fewer than 2^32 - 1 lines (the counter is a u32)"]

SPECS = """
pub struct Error { pub e: u8 }
// the text buffer: its content does not matter here (R8: every string operation of the window is an arbitrary function)
pub struct Buf { pub k: u8 }
impl Buf {
    #[verifier::external_body] pub fn new() -> Buf { unimplemented!() }
    #[verifier::external_body] pub fn ends_with_lit(&self, which: u8) -> bool { unimplemented!() }
    #[verifier::external_body] pub fn pop(&mut self) -> Option<char> { unimplemented!() }
    #[verifier::external_body] pub fn push_str(&mut self, b: &Buf) { unimplemented!() }
}
// the input: `reads` = number of physical lines delivered so far, `total` = number of lines it has
pub struct Input { pub reads: Ghost<int>, pub total: Ghost<int> }
impl Input {
    #[verifier::external_body] pub fn read_line(&mut self, buf: &mut Buf) -> (r: Result<usize, Error>)
        ensures final(self).total@ == old(self).total@,
            (r is Ok && r->Ok_0 > 0) ==> final(self).reads@ == old(self).reads@ + 1 && final(self).reads@ <= final(self).total@,
            !(r is Ok && r->Ok_0 > 0) ==> final(self).reads@ == old(self).reads@,
    { unimplemented!() }
}
"""


def candidates(f):
    """an error after a splice, the splice sitting in code, in a block comment, in a line comment: the error names its own line"""
    out = []
    for pre, n, note in (("#define A 1 + \\\n 2\n", 2, "splice in a #define"), ("/* a comment \\\n   continued */\n", 2, "splice inside a block comment"),
                         ("// a line comment \\\n   continued\n", 2, "splice in a line comment"), ("/* one \\\n two \\\n three */\n", 3, "two splices inside a block comment"),
                         ("/*\n * boxed \\\n */\n", 3, "splice on a middle line of a block comment")):
        out.append({"source": pre + "void main() {\n  j = 1;\n}\n", "args": ["-O0"], "expect": {"panic": False, "stdout_contains": "line %d " % (n + 2)}, "contract_only": True,
                    "note": "%s, then an unknown identifier on line %d" % (note, n + 2)})
    return out


def build(repo):
    u = Unit(NAME, TOOL, PROPS, ["src/cpp.rs: process() -- head of the reader loop: `line += 1;` and the splice loop (R8)"],
             assumptions=["the window's precondition (`line` + 1 == lines read, right after the loop header has read one) is the loop invariant of the reader loop, which is not verified as a loop: "
                          "it is the window's own postcondition plus the two frame scans (nothing else in process() assigns `line`, nothing else reads from `input`)",
                          "string operations of the window are arbitrary functions (their results do not matter for the count)"])
    f = SourceFile(repo, "src/cpp.rs")
    s0, ob0, cb0 = f.find_fn_span("process")
    m = f.masked
    MAPERR = r"(?:\s*\.map_err\(\|e\| io_error\([^()]*\)\))?"
    h = re.compile(r"while input\s*\.read_line\(&mut buf\)" + MAPERR + r"\?\s*> 0\s*\{").search(m, ob0, cb0)
    if not h:
        raise Undecided("process(): `while input.read_line(&mut buf)? > 0 {` not found")
    wob = h.end() - 1
    wcb = match_brace(m, wob, "{", "}")
    lp = re.compile(r"\bloop \{").search(m, wob, wcb)
    if not lp:
        raise Undecided("process(): the splice loop was not found")
    lcb = match_brace(m, lp.end() - 1, "{", "}")
    start = f.text.index("\n", wob) + 1
    c = f.cut_span(start, lcb + 1, "process(): `line += 1;` and the splice loop at the head of the reader loop (R8)")
    c.sub(r"\s*\.map_err\(\|e\| io_error\([^()]*\)\)", "", "R1 the conversion of an I/O error into a located error (the error value is not this unit's subject)", expect=(0, 2))
    lits = []
    def lit(mm):
        t = mm.group(2)
        if t not in lits:
            lits.append(t)
        return "%s.ends_with_lit(%d)" % (mm.group(1), lits.index(t))
    c.sub(r"\b(\w+)\.ends_with\((\"(?:[^\"\\]|\\.)*\")\)", lit, "R8 ends_with(literal) -> arbitrary predicate of the buffer (one per literal)", expect=(1, 6))
    c.sub(r"\bString::new\(\)", "Buf::new()", "R8 the buffers are shims", expect=(0, 2))
    c.sub(r"let mut (\w+) = Buf::new\(\);", r"let mut \1: Buf = Buf::new();", "(type of the local)", expect=(0, 2))
    # frame scans on the masked text of process(): assignments to `line`, reads of `input`
    assigns = [x.start() for x in re.finditer(r"(?<![\w.])line\s*(?:[-+*/]?=)(?!=)", m[ob0:cb0])]
    assigns = [ob0 + a for a in assigns]
    decl = [a for a in assigns if re.search(r"let\s+mut\s+$", m[max(0, a - 12):a])]
    outside = [a for a in assigns if a not in decl and not (start <= a <= lcb)]
    reads = [ob0 + x.start() for x in re.finditer(r"\binput\s*\.\w+\(", m[ob0:cb0])]
    reads_out = [r for r in reads if not (start <= r <= lcb) and not (h.start() <= r < h.end())]
    fn = """
// R8: the head of the reader loop of process(), verbatim
pub fn splice_window(input: &mut Input, buf: &mut Buf, line: u32) -> (r: Result<u32, Error>)
    requires old(input).reads@ == line + 1, old(input).total@ < 0xffff_ffff, old(input).reads@ <= old(input).total@,
    ensures r is Ok ==> r->Ok_0 == final(input).reads@, //@ C06:line-counter-counts-every-physical-line
{
    let mut line = line;
%s
    Ok(line)
}
proof fn frame_line() { assert(%s); //@ C06:line-counter-assigned-only-at-the-head-of-the-reader-loop
}
proof fn frame_input() { assert(%s); //@ C06:input-read-only-at-the-head-of-the-reader-loop
}
""" % (c.text, "true" if not outside and len(decl) == 1 else "false", "true" if not reads_out else "false")
    # the splice loop needs an invariant: inject it (annotation only)
    fn = re.sub(r"(\n\s*)loop \{", r"\1loop\n            invariant input.reads@ == line, input.total@ < 0xffff_ffff, input.reads@ <= input.total@,\n            decreases input.total@ - input.reads@,\n        {", fn, count=1)
    u.text[None] = common.PRELUDE + common.header_comment(NAME, [c]) + "verus! {\n" + SPECS + fn + common.CANARY + "\n} // verus!\n"
    u.rewrites = common.collect_rewrites([c])
    u.dropped = ["everything of process() but the head of its reader loop"]
    return u
