"""U-shift16: generate_shift_16bits (in-memory 16-bit shifts) verified against asm()'s contract, and the dispatch block of generate_expr
that decides when it is called (R8), verified against generate_shift_16bits' own precondition (C13: only legal addressing modes; C16)."""
import re
from vf.core import Unit
from vf.rustcut import SourceFile, Undecided
from . import common, u_asm

NAME = "U-shift16"
TOOL = "verus"
PROPS = ["C13", "C01", "C16", "C17"]
RLIMIT = 150
TRUSTED = ["verus 0.2026.09.13 + z3", "asm()/sasm() contracts as proved in U-asm (same header text)", "A-isa"]

SPECS = """
// what generate_shift_16bits can handle: a 16-bit object in memory addressed directly or through X, shifted by a small constant
pub open spec fn shift16_ok(g: &GeneratorState, left: ExprType, right: ExprType) -> bool {
    &&& right is Immediate
    &&& match left {
            ExprType::Absolute(n, eb, off) => g.compiler_state.declared(n@) && !eb && g.compiler_state.var(n@).var_type == VariableType::Short && ident(n@) && -0x100_0000 <= off <= 0x100_0000 && g.compiler_state.var(n@).size < 0x100_0000,
            ExprType::AbsoluteX(n) => g.compiler_state.declared(n@) && g.compiler_state.var(n@).var_type == VariableType::ShortPtr && ident(n@) && g.compiler_state.var(n@).size < 0x100_0000,
            _ => false,
        }
}
pub open spec fn wide16(g: &GeneratorState, left: ExprType) -> bool {
    match left {
        ExprType::Absolute(n, eb, _) => !eb && g.compiler_state.var(n@).var_type == VariableType::Short,
        ExprType::AbsoluteX(n) => g.compiler_state.var(n@).var_type == VariableType::ShortPtr,
        _ => false,
    }
}
pub open spec fn same_env(a: &GeneratorState, b: &GeneratorState) -> bool { a.compiler_state == b.compiler_state && a.current_function == b.current_function && a.bankswitching_scheme == b.bankswitching_scheme }
"""


def build(repo):
    u = Unit(NAME, TOOL, PROPS,
             ["src/generate/generate_arithm.rs: GeneratorState::generate_shift_16bits", "src/generate/generate_statements.rs: generate_expr (dispatch block of the `<<=` / `>>=` arm, R8)"],
             assumptions=["asm()/sasm() are external_body stubs carrying the contract proved in U-asm; their preconditions are the obligations of this unit",
                          "the arithmetic meaning of the emitted shift sequences (C01) is not interpreted here",
                          "termination of the shift loop is not an obligation (the count is a constant < 8 at the call sites)"])
    e = u_asm.env(repo)
    ga = SourceFile(repo, "src/generate/generate_arithm.rs")
    gs = SourceFile(repo, "src/generate/generate_statements.rs")
    comp = SourceFile(repo, "src/compile.rs")
    cuts = []
    op = comp.item("enum", "Operation")
    common.r2(op, structural=True)
    cuts.append(op)
    sh = ga.fn("generate_shift_16bits", within="GeneratorState")
    cuts.append(sh)
    sh.set_header("""#[verifier::exec_allows_no_decreases_clause]
    pub(crate) fn generate_shift_16bits(&mut self, left: &ExprType, op: &Operation, right: &ExprType, pos: usize) -> (res: Result<ExprType, Error>)
        requires shift16_ok(old(self), *left, *right), //@ C13,C16:shift16-operand-is-16bit-memory
        ensures same_env(old(self), final(self)), res is Ok ==> res->Ok_0 is Nothing,
""", expect_sig="fn generate_shift_16bits(&mut self, left: &ExprType, op: &Operation, right: &ExprType, pos: usize) -> Result<ExprType, Error>")
    sh.loop_spec(1, r"^for _ in 0\.\.\*value$", """
                invariant same_env(old(self), self), shift16_ok(old(self), *left, *right), v == old(self).compiler_state.var(match *left { ExprType::Absolute(n, _, _) => n@, ExprType::AbsoluteX(n) => n@, _ => Seq::<char>::empty() }),
""", new_header="for _i in 0..*value")
    sh.body_start('        proof { reveal_strlit(""); }')
    # dispatch block
    s0, ob0, cb0 = gs.find_fn_span("generate_expr")
    m = re.search(r"Operation::Bls\(true\) \| Operation::Brs\(true\) => \{", gs.masked[s0:cb0])
    if not m:
        raise Undecided("generate_expr: `<<=` / `>>=` arm not found")
    a0 = s0 + m.end()
    m2 = re.search(r"\bif !high_byte \{", gs.masked[a0:cb0])
    if not m2:
        raise Undecided("generate_expr: dispatch `if !high_byte {` not found in the shift-assign arm")
    ifs = a0 + m2.start()
    blk = gs.cut_span(ifs, gs.if_chain_end(ifs), "generate_expr(): dispatch to generate_shift_16bits in the `<<=` / `>>=` arm (R8)")
    cuts.append(blk)
    dispatch = """
    // R8: the dispatch block, verbatim; `left`, `right`, `op`, `pos`, `high_byte` are its free variables.  A return value of Ok(Label(..))
    // after the block stands for falling through to the general path (generate_shift + generate_assign), which is not part of this unit.
    pub fn shift_assign_dispatch(&mut self, left: ExprType, right: ExprType, op: &Operation, pos: usize, high_byte: bool) -> (res: Result<ExprType, Error>)
        requires names_ok(left), (left is Absolute || left is AbsoluteX || left is AbsoluteY) ==> var_of(old(self), left).size < 0x100_0000,
            // `left` came out of generate_expr, which looked the variable up (U-subscript: variable_or_error)
            match left { ExprType::Absolute(n, _, _) => old(self).compiler_state.declared(n@), ExprType::AbsoluteX(n) => old(self).compiler_state.declared(n@), ExprType::AbsoluteY(n) => old(self).compiler_state.declared(n@), _ => true },
        ensures
            // from the property: `s <<= k` / `s >>= k` on a 16-bit object (a short, an element of an array of shorts reached through X), wherever it lives, is never handed
            // to the general path, which shifts and stores one byte (the fall-through is the Label result; generate_shift_16bits returns Nothing)
            (!high_byte && wide16(old(self), left) && right is Immediate && right->Immediate_0 < 8) ==> !(res is Ok && res->Ok_0 is Label), //@ C01,C17:shift-assign-of-a-16-bit-object-takes-the-16-bit-path
    {
%s
        Ok(ExprType::Label(String::new()))
    }
""" % blk.text
    # tag the stub's preconditions: in this unit they are obligations at the call sites
    stubs = e["stubs"]
    stubs = stubs.replace("            caller_legal(old(self), mnemonic, *operand, high_byte),", "            caller_legal(old(self), mnemonic, *operand, high_byte), //@ C13:shift16-asm-mode-exists")
    stubs = stubs.replace("            names_ok(*operand),", "            names_ok(*operand), //@ C16:shift16-asm-operand-wellformed")
    stubs = stubs.replace("            !(operand is X) && !(operand is Y),", "            !(operand is X) && !(operand is Y), //@ C16:shift16-asm-operand-not-register")
    if stubs.count("//@ C13:shift16-asm-mode-exists") != 1:
        raise Undecided("asm() stub header changed shape (caller_legal line)")
    shim = e["shim"].replace("    pub inline_label_counter: u32,\n", "    pub inline_label_counter: u32,\n    pub acc_in_use: bool,\n")
    text = common.PRELUDE + common.header_comment(NAME, cuts) + "verus! {\n" + e["types"] + "\n" + op.text + e["specs"] + e["append_impl"] + shim + SPECS + \
        "impl<'a> GeneratorState<'a> {\n" + stubs + "\n" + sh.text + "\n" + dispatch + "\n}\n" + common.CANARY + "\n} // verus!\n"
    u.text[None] = text
    u.rewrites = common.collect_rewrites(cuts)
    u.dropped = ["R6 shim environment of U-asm (+ acc_in_use)", "generate_expr outside the dispatch block"]
    return u
