"""U-subscript: the variable arm of generate_expr's `Expr::Identifier` case (R8 window: plain variables, constants, `v[X]`, `v[Y]`, `v[k]`, `v[expr]` with Y
saved in the scratch byte), verified in Verus against stubs over a ghost account of the scratch byte: the operand returned names the variable written
(with the width flag its type prescribes), a subscript on a scalar is rejected, the subscript's code is emitted once per statement (the high-byte pass
re-uses the cached operand), and the scratch byte that receives the saved Y is free when it is claimed (C01, C15, C16, C17, C18)."""
import re
from vf.core import Unit
from vf.rustcut import SourceFile, Undecided, mask, match_brace
from . import common

NAME = "U-subscript"
TOOL = "verus"
PROPS = ["C01", "C15", "C16", "C17", "C18"]
RLIMIT = 200
TRUSTED = ["verus 0.2026.09.13 + z3",
           "generate_expr (for the subscript), generate_sign_extend, dummy, asm_save_y, asm(LDY), variable_or_error are stubs over the ghost account; "
           "the `STY cctmp` that asm_save_y writes into the reserved place runs BEFORE the subscript's code (generate_asm.rs: dummy / asm_save_y)"]

SPECS = """
pub struct Error { pub e: u8 }
%(types)s
use AsmMnemonic::*;
// R6 shim of Variable: the fields the arm reads, mechanically from the real declaration
%(variable_shim)s
pub struct CompilerState { pub x: u8 }
pub uninterp spec fn var_of(cs: &CompilerState, name: Seq<char>) -> Variable;
impl CompilerState {
    #[verifier::external_body] pub fn syntax_error(&self, message: &str, loc: usize) -> Error { unimplemented!() }
    #[verifier::external_body] pub fn warning(&self, message: &str, loc: usize) { }
}
pub struct G {
    pub slot_reserved: bool,          // a place has been reserved in the code: a `STY cctmp` written there later runs BEFORE whatever is emitted from now on
    pub tmp_live: bool,               // the scratch byte holds a live value of the expression being evaluated (the generator's tmp_in_use as the callees left it)
    pub sub_evals: int,               // how many times the subscript's code has been emitted
    pub sub_result: Option<ExprType>, // the operand the subscript evaluated to (last evaluation)
    pub y_saved_at: Option<usize>,    // asm_save_y was given this place
    pub y_loaded: Option<ExprType>,   // LDY of this operand was emitted
    pub widened: bool,                // generate_sign_extend produced the result
}
pub struct GeneratorState<'a> {
    pub compiler_state: &'a CompilerState,
    pub tmp_in_use: bool, pub saved_y: bool,
    pub sub_output: Option<ExprType>,
    pub warnings: Vec<String>,
    pub gh: Ghost<G>,
}
pub open spec fn simple_sub(e: Expr) -> bool { e is Identifier || e is Integer }
#[verifier::external_body] pub fn string_from(s: &str) -> (r: String) ensures r@ == s@ { unimplemented!() }
#[verifier::external_body] pub fn exprtype_clone(e: &ExprType) -> (r: ExprType) ensures r == *e { unimplemented!() }
// R15 / R13 shim: `warnings.iter().any(|s| s == "all" || s == "perf")` (no effect on the emitted code)
#[verifier::external_body] pub fn wants_perf_warning(w: &Vec<String>) -> (r: bool) { w.iter().any(|s| s == "all" || s == "perf") }
#[verifier::external_body] pub fn option_take(o: &mut Option<ExprType>) -> (r: Option<ExprType>) ensures r == *old(o), *final(o) == None::<ExprType> { o.take() }
// the operand the subscript stands for in this visit: evaluated now, or cached by the first visit of the statement
pub open spec fn sub_operand(sub: Expr, again: bool, cached: Option<ExprType>, g: G) -> ExprType {
    if sub is Nothing { ExprType::Nothing } else if simple_sub(sub) || !again { g.sub_result->Some_0 } else { cached->Some_0 }
}
// the operand names this variable
// the operand that is sign-extended designates the element with the index the subscript produced (X, Y, or a constant)
pub open spec fn same_index(e: ExprType, sub: Option<ExprType>) -> bool {
    sub is Some ==> ((sub->Some_0 is X ==> e is AbsoluteX) && (sub->Some_0 is Y ==> e is AbsoluteY)
        && (sub->Some_0 is Immediate ==> e is Absolute && e->Absolute_2 == sub->Some_0->Immediate_0))
}
pub open spec fn names(e: ExprType, v: Seq<char>) -> bool {
    match e { ExprType::Absolute(n, _, _) => n@ == v, ExprType::AbsoluteX(n) => n@ == v, ExprType::AbsoluteY(n) => n@ == v, _ => false }
}
"""

STUBS = """
    #[verifier::external_body]
    fn variable_or_error(&self, name: &str, pos: usize) -> (r: Result<&'a Variable, Error>)
        ensures r is Ok ==> *r->Ok_0 == var_of(self.compiler_state, name@),
    { unimplemented!() }
    #[verifier::external_body]
    pub(crate) fn dummy(&mut self) -> (r: Option<usize>)
        ensures final(self).compiler_state == old(self).compiler_state, final(self).tmp_in_use == old(self).tmp_in_use, final(self).saved_y == old(self).saved_y,
            final(self).sub_output == old(self).sub_output, final(self).warnings == old(self).warnings,
            final(self).gh@ == (G { slot_reserved: r is Some, ..old(self).gh@ }),
    { unimplemented!() }
    // the subscript expression
    #[verifier::external_body]
    pub(crate) fn generate_expr(&mut self, expr: &Expr, pos: usize, high_byte: bool, second_time: bool) -> (res: Result<ExprType, Error>)
        requires
            // code emitted after the reserved place runs with Y parked in the scratch byte: the generator must know the byte is taken (a plain variable or a constant needs no scratch)
            !old(self).gh@.slot_reserved || old(self).tmp_in_use || simple_sub(*expr), //@ C01:subscript-evaluated-with-scratch-reserved
        ensures final(self).compiler_state == old(self).compiler_state, final(self).warnings == old(self).warnings,
            old(self).tmp_in_use ==> final(self).tmp_in_use,
            final(self).saved_y == old(self).saved_y || (final(self).saved_y && final(self).tmp_in_use),      // a nested element access may claim the scratch byte itself
            res is Ok ==> final(self).gh@ == (G { tmp_live: final(self).tmp_in_use, sub_evals: old(self).gh@.sub_evals + 1, sub_result: Some(res->Ok_0), ..old(self).gh@ }),
            (res is Ok && res->Ok_0 is Tmp) ==> final(self).tmp_in_use,
    { unimplemented!() }
    #[verifier::external_body]
    fn generate_sign_extend(&mut self, expr: ExprType, pos: usize) -> (res: Result<ExprType, Error>)
        requires names(expr, old(self).gh@.widening_of) && same_index(expr, old(self).gh@.sub_result), //@ C01,C17:sign-extension-of-the-element-named
        ensures final(self).compiler_state == old(self).compiler_state, final(self).warnings == old(self).warnings, final(self).sub_output == old(self).sub_output,
            final(self).saved_y == old(self).saved_y,
            res is Ok ==> final(self).gh@ == (G { widened: true, ..old(self).gh@ }),
    { unimplemented!() }
    #[verifier::external_body]
    pub(crate) fn asm_save_y(&mut self, line: usize)
        requires !old(self).gh@.tmp_live && !old(self).saved_y, //@ C01:save-y-needs-free-scratch
            old(self).gh@.slot_reserved,
        ensures final(self).compiler_state == old(self).compiler_state, final(self).tmp_in_use == old(self).tmp_in_use, final(self).saved_y == old(self).saved_y,
            final(self).sub_output == old(self).sub_output, final(self).warnings == old(self).warnings,
            final(self).gh@ == (G { y_saved_at: Some(line), ..old(self).gh@ }),
    { unimplemented!() }
    #[verifier::external_body]
    pub(crate) fn asm(&mut self, mnemonic: AsmMnemonic, operand: &ExprType, pos: usize, high_byte: bool) -> (res: Result<bool, Error>)
        requires mnemonic == LDY && !high_byte,
        ensures final(self).compiler_state == old(self).compiler_state, final(self).tmp_in_use == old(self).tmp_in_use, final(self).saved_y == old(self).saved_y,
            final(self).sub_output == old(self).sub_output, final(self).warnings == old(self).warnings,
            res is Ok ==> final(self).gh@ == (G { y_loaded: Some(*operand), ..old(self).gh@ }),
    { unimplemented!() }
"""

HEADER = """    fn arm_variable(&mut self, variable: &str, sub: &Box<Expr>, pos: usize, high_byte: bool, second_time: bool) -> (res: Result<ExprType, Error>)
        requires
            old(self).gh@.tmp_live == old(self).tmp_in_use, !old(self).gh@.slot_reserved, old(self).gh@.y_saved_at is None, old(self).gh@.y_loaded is None, !old(self).gh@.widened,
            old(self).gh@.sub_result is None, old(self).gh@.widening_of == variable@,
        ensures
            final(self).compiler_state == old(self).compiler_state,
            // what comes back denotes the variable written (or its constant value, or the sign extension of it)
            res is Ok ==> ({ let v = var_of(old(self).compiler_state, variable@);
                names(res->Ok_0, variable@) || final(self).gh@.widened || (**sub is Nothing && v.def is Value && v.def->Value_0 is Int && res->Ok_0 == ExprType::Immediate(v.def->Value_0->Int_0)) }), //@ C01,C17:operand-names-the-variable
            // width flag of a direct operand: a char is 8 bits wide; an element of an array of pointers / shorts is not
            (res is Ok && **sub is Nothing && res->Ok_0 is Absolute && !final(self).gh@.widened) ==> res->Ok_0->Absolute_1 == (var_of(old(self).compiler_state, variable@).var_type == VariableType::Char) && res->Ok_0->Absolute_2 == 0, //@ C01:plain-variable-width
            (res is Ok && !(**sub is Nothing) && res->Ok_0 is Absolute && !final(self).gh@.widened) ==> ({ let v = var_of(old(self).compiler_state, variable@);
                let so = sub_operand(**sub, high_byte || second_time, old(self).sub_output, final(self).gh@);
                so is Immediate && v.var_const && res->Ok_0->Absolute_2 == so->Immediate_0
                && res->Ok_0->Absolute_1 == (v.var_type != VariableType::CharPtrPtr && v.var_type != VariableType::ShortPtr) }), //@ C01:constant-index-operand
            // a constant index becomes an offset that asm() adds to the port and high-byte displacements (i32 arithmetic): it is kept small or rejected
            (res is Ok && !(**sub is Nothing) && res->Ok_0 is Absolute && !final(self).gh@.widened) ==> -0xffff <= res->Ok_0->Absolute_2 <= 0xffff, //@ C16:constant-index-in-range-or-rejected
            // a scalar has no elements, and a subscript has a value
            (res is Ok && !(**sub is Nothing)) ==> ({ let v = var_of(old(self).compiler_state, variable@); v.var_type != VariableType::Char && v.var_type != VariableType::Short
                && !(sub_operand(**sub, high_byte || second_time, old(self).sub_output, final(self).gh@) is Nothing) }), //@ C01,C16:subscript-on-scalar-rejected
            // indexed by a register: the register the subscript evaluated to
            (res is Ok && res->Ok_0 is AbsoluteX && !final(self).gh@.widened) ==> sub_operand(**sub, high_byte || second_time, old(self).sub_output, final(self).gh@) == ExprType::X, //@ C01,C15:index-register-x
            (res is Ok && res->Ok_0 is AbsoluteY && !final(self).gh@.widened && final(self).gh@.y_loaded is None) ==> sub_operand(**sub, high_byte || second_time, old(self).sub_output, final(self).gh@) == ExprType::Y, //@ C01,C15:index-register-y
            // indexed by a value: Y is parked in the scratch byte (claimed for the rest of the statement) and loaded with the subscript
            (res is Ok && final(self).gh@.y_loaded is Some) ==> res->Ok_0 is AbsoluteY && final(self).gh@.y_loaded == Some(sub_operand(**sub, high_byte || second_time, old(self).sub_output, final(self).gh@))
                && final(self).gh@.y_saved_at is Some && final(self).saved_y && final(self).tmp_in_use, //@ C01:index-through-saved-y
            (res is Ok && final(self).gh@.y_loaded is None) ==> final(self).gh@.y_saved_at is None, //@ C01:y-untouched-otherwise
            // the subscript's code is emitted once per statement: the second visit (high byte of a 16-bit element) re-uses the operand of the first
            (res is Ok && !(**sub is Nothing) && !simple_sub(**sub) && (high_byte || second_time)) ==> final(self).gh@.sub_evals == old(self).gh@.sub_evals && old(self).sub_output is Some, //@ C01,C18:subscript-evaluated-once
            (res is Ok && !(**sub is Nothing) && !simple_sub(**sub) && !(high_byte || second_time)) ==> final(self).gh@.sub_evals == old(self).gh@.sub_evals + 1
                && final(self).sub_output == final(self).gh@.sub_result, //@ C01,C18:subscript-operand-cached
    {
        %(arm)s
    }
"""


def candidates(f):
    """element accesses in their forms, with Y live across the statement"""
    out = []
    def prog(decl, body, sim, note="", expect=None):
        out.append({"source": "%s\nvoid main() { %s }\n" % (decl, body), "args": ["-O0"], "expect": expect or {"panic": False}, "simulate": dict(sim, stack_empty=True), "note": note})
    arr = "unsigned char a[8]; unsigned char b, c, x, ry;"
    cells = {"a+%d" % i: 10 * (i + 1) for i in range(8)}
    for b in (0, 2, 5):
        prog(arr, "Y = 7; x = a[b]; ry = Y;", {"init": {"b": b}, "init_addr": cells, "expect": {"x": 10 * (b + 1), "ry": 7}}, "a[b], b=%d: Y survives" % b)
        prog(arr, "Y = 7; x = a[b + 1]; ry = Y;", {"init": {"b": b}, "init_addr": cells, "expect": {"x": 10 * (b + 2), "ry": 7}}, "a[b + 1], b=%d: Y survives" % b)
        prog(arr, "Y = 7; x = c + a[b]; ry = Y;", {"init": {"b": b, "c": 3}, "init_addr": cells, "expect": {"x": 10 * (b + 1) + 3, "ry": 7}}, "c + a[b], b=%d" % b)
        prog(arr, "Y = 7; x = (c + 1) + a[b + 1]; ry = Y;", {"init": {"b": b, "c": 3}, "init_addr": cells, "expect": {"x": 10 * (b + 2) + 4, "ry": 7}}, "(c + 1) + a[b + 1], b=%d: accepted only if Y survives" % b)
        prog(arr, "X = b; x = a[X]; Y = b; ry = a[Y];", {"init": {"b": b}, "init_addr": cells, "expect": {"x": 10 * (b + 1), "ry": 10 * (b + 1)}}, "a[X], a[Y], b=%d" % b)
    prog(arr, "Y = 7; x = a[(b + 1) + (c + 1)]; ry = Y;", {"init": {"b": 1, "c": 2}, "init_addr": cells, "expect": {"x": 60, "ry": 7}}, "the subscript itself needs the scratch byte while Y is parked there")
    out[-1]["contract_only"] = True      # the witness of the known finding O-C01-subscript-evaluated-with-scratch-reserved: not repeated in the bounded corpus
    prog("unsigned char c, b, x;", "x = c[b];", {"expect": {}}, "a scalar subscripted by a variable must be rejected (as c[X] and c[2] are)", expect={"panic": False, "is_error": True})
    prog(arr, "x = a[3]; ry = a[0];", {"init_addr": cells, "expect": {"x": 40, "ry": 10}}, "constant index")
    prog("unsigned char c, x, n; void g() { n++; }", "c = 7; x = c[g()];", {"expect": {}}, "a scalar subscripted by a call of a void function must be rejected", expect={"panic": False, "is_error": True})
    prog("unsigned char a[4]; unsigned char x, n; void g() { n++; }", "x = a[g()];", {"expect": {}}, "an array subscripted by a call of a void function must be rejected", expect={"panic": False, "is_error": True})
    return out


def cut_arm(sf, fn_span):
    s0, ob0, cb0 = fn_span
    m = mask(sf.text)
    k = re.compile(r"^\s*variable\s*=>\s*\{", re.M).search(m, ob0, cb0)
    if not k:
        raise Undecided("generate_expr has no `variable => {` arm in its Expr::Identifier case")
    a = k.end() - 1
    b = match_brace(m, a)
    return sf.cut_span(a, b + 1, "generate_expr(): Expr::Identifier, arm `variable => { .. }` (R8)")


def build(repo):
    u = Unit(NAME, TOOL, PROPS, ["src/generate/generate_statements.rs: GeneratorState::generate_expr, case Expr::Identifier, arm `variable => { .. }` (R8)"],
             assumptions=["callees are stubs over the ghost account (TRUSTED); the operand the subscript evaluates to is arbitrary",
                          "what the returned operand is used for (loads, stores, port offsets) is the subject of U-asm / U-assign / U-arithm"])
    gs = SourceFile(repo, "src/generate/generate_statements.rs")
    gm = SourceFile(repo, "src/generate/mod.rs")
    comp = SourceFile(repo, "src/compile.rs")
    asmf = SourceFile(repo, "src/assemble.rs")
    arm = cut_arm(gs, gs.find_fn_span("generate_expr"))
    cuts, tys = [arm], []
    for sf, kind, name, structural in ((comp, "enum", "Operation", True), (asmf, "enum", "AsmMnemonic", True), (comp, "enum", "VariableType", True), (comp, "enum", "VariableValue", False),
                                       (comp, "enum", "VariableDefinition", False), (gm, "enum", "ExprType", False), (comp, "enum", "Expr", False)):
        c = sf.item(kind, name)
        common.r2(c, structural=structural)
        c.sub(r"pub\(crate\) enum", "pub enum", "R2-pub")
        if not structural:
            c.sub(r"#\[derive\(([^)]*)\)\]", "", "R2-derive (no derived impls needed)", expect=(0, 1))
        cuts.append(c)
        tys.append(c.text)
    vc = comp.item("struct", "Variable")
    cuts.append(vc)
    fields = re.findall(r"^\s*(?:pub(?:\([^)]*\))?\s+)?(\w+)\s*:\s*(bool|VariableType|VariableDefinition)\s*,", vc.text, re.M)
    names = [a for a, _ in fields]
    for need in ("var_type", "var_const", "signed", "def"):
        if need not in names:
            raise Undecided("struct Variable no longer declares the field %s" % need)
    vshim = "pub struct Variable { %s }" % ", ".join("pub %s: %s" % x for x in fields)
    arm.sub(r"\A\s*variable\s*=>\s*", "", "R8 the arm's pattern (its binding is the window's parameter)", expect=(0, 1), flags=0)
    arm.sub(r"\bif let Expr::Nothing = \*\*sub \{", "if let Expr::Nothing = &**sub {", "R3 match on a place behind a Box -> by reference", expect=(0, 2))
    arm.sub(r"\bmatch \*\*sub \{", "match &**sub {", "R3 match on a place behind a Box -> by reference", expect=(0, 2))
    arm.sub(r"\bself\.sub_output\.take\(\)", "option_take(&mut self.sub_output)", "R19 Option::take -> shim with its definition", expect=(0, 2))
    arm.sub(r"\be\.clone\(\)", "exprtype_clone(&e)", "R11 ExprType::clone -> shim", expect=(0, 2))
    arm.sub(r"\bvariable\.into\(\)", "string_from(variable)", "R11 &str -> String", expect=(1, 16))
    arm.sub(r"self\.warnings\.iter\(\)\.any\(\|s\| s == \"all\" \|\| s == \"perf\"\)", "wants_perf_warning(&self.warnings)", "R13 iterator adapter over the warning options -> shim (no effect on the code)", expect=(0, 4))
    arm.sub(r"VariableDefinition::Value\(VariableValue::Int\(val\)\) = &v\.def", "VariableDefinition::Value(VariableValue::Int(val)) = &v.def", "(unchanged)", expect=(0, 1))
    text = common.PRELUDE + common.header_comment(NAME, cuts) + "verus! {\n" + (SPECS % {"types": "\n".join(tys), "variable_shim": vshim}) + \
        "impl<'a> GeneratorState<'a> {\n" + STUBS + (HEADER % {"arm": arm.text}) + "\n}\n" + common.CANARY + "\n} // verus!\n"
    text = text.replace("pub widened: bool,                // generate_sign_extend produced the result", "pub widened: bool,                // generate_sign_extend produced the result\n    pub widening_of: Seq<char>,       // the variable whose element may be sign-extended")
    u.text[None] = text
    u.rewrites = common.collect_rewrites(cuts)
    u.dropped = ["R6 shim environment", "the other arms of generate_expr"]
    return u
