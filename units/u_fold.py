"""U-fold: constant folding of immediates in the generator (generate_arithm, generate_shift, generate_neg/not/bnot) and the operand
canonicalisation at the top of generate_arithm (R8 blocks), Kani over all i32 (C10, C16, C15)."""
import re
from vf.core import Unit
from vf.rustcut import SourceFile, Undecided, mask, match_brace

NAME = "U-fold"
TOOL = "kani"
PROPS = ["C10", "C15", "C16"]
TRUSTED = ["kani 0.68 / cbmc 6.11 (full i32 domain, loop-free: complete)"]

SHIM = """// GENERATED on every run from /repo's current working tree by /verif/check -- do not edit.
#![allow(unused, non_camel_case_types, unreachable_code, unused_parens)]
macro_rules! debug { ($($t:tt)*) => {} }
%(operation)s
#[derive(Debug, Clone, PartialEq)]
pub enum ExprType { Nothing, Immediate(i32), Tmp(bool), Absolute(u8, bool, i32), AbsoluteX(u8), AbsoluteY(u8), A(bool), X, Y, Label(u8) }     // names abstracted to ids: the blocks do not read them
#[derive(Debug, PartialEq)]
pub struct Error { pub e: u8 }
pub enum Expr { Integer(i32), Other }
pub struct CS;
impl CS { pub fn syntax_error(&self, _m: &str, _p: usize) -> Error { Error { e: 1 } } pub fn compiler_error(&self, _m: &str, _p: usize) -> Error { Error { e: 2 } } }
pub struct G { pub compiler_state: CS }
impl G {
    // R8: the immediate x immediate arm of generate_arithm (`match op { … }`), verbatim
    pub fn fold_arithm(&self, l: &i32, r: &i32, op: &Operation, pos: usize) -> Result<ExprType, Error> {
        %(fold_arithm)s
    }
    // R8: the immediate x immediate arm of generate_shift, verbatim
    pub fn fold_shift(&self, l: &i32, r: &i32, op: &Operation, pos: usize) -> Result<ExprType, Error> {
        %(fold_shift)s
    }
    // R8: operand canonicalisation at the top of generate_arithm, verbatim; returns whether the operands were exchanged
    pub fn canon(&self, l: &ExprType, op: &Operation, r: &ExprType) -> bool {
        let left;
        let right;
        %(canon)s
        std::ptr::eq(left, r) && !std::ptr::eq(l, r)
    }
    // R8: the Expr::Integer arms of generate_neg / generate_not / generate_bnot, verbatim
    pub fn fold_neg(&self, expr: &Expr) -> Option<Result<ExprType, Error>> { match expr { %(neg)s _ => None } }
    pub fn fold_not(&self, expr: &Expr) -> Option<Result<ExprType, Error>> { match expr { %(not)s _ => None } }
    pub fn fold_bnot(&self, expr: &Expr) -> Option<Result<ExprType, Error>> { match expr { %(bnot)s _ => None } }
}
fn fits(v: i64) -> bool { v >= i32::MIN as i64 && v <= i32::MAX as i64 }
fn any_operand() -> ExprType {
    let k: u8 = kani::any();
    match k %% 10 { 0 => ExprType::Nothing, 1 => ExprType::Immediate(kani::any()), 2 => ExprType::Tmp(kani::any()), 3 => ExprType::Absolute(kani::any(), kani::any(), kani::any()),
        4 => ExprType::AbsoluteX(kani::any()), 5 => ExprType::AbsoluteY(kani::any()), 6 => ExprType::A(kani::any()), 7 => ExprType::X, 8 => ExprType::Y, _ => ExprType::Label(kani::any()) }
}
#[cfg(kani)]
mod harness {
    use super::*;
%(harnesses)s
    #[kani::proof]
    fn fold_canon_never_swaps_noncommutative() {     // a - b and a / b keep their operand order, plain or compound (-=, /=)
        let (l, r) = (any_operand(), any_operand()); let flag: bool = kani::any();
        assert!(!G { compiler_state: CS }.canon(&l, &Operation::Sub(flag), &r));
        assert!(!G { compiler_state: CS }.canon(&l, &Operation::Div(flag), &r));
    }
    #[kani::proof]
    fn fold_canon_commutative_only() {               // operands are exchanged only for + & | ^ * (and only to bring an immediate or the accumulator into place)
        let (l, r) = (any_operand(), any_operand()); let flag: bool = kani::any(); let k: u8 = kani::any();
        let op = match k %% 7 { 0 => Operation::Add(flag), 1 => Operation::Sub(flag), 2 => Operation::And(flag), 3 => Operation::Or(flag), 4 => Operation::Xor(flag), 5 => Operation::Mul(flag), _ => Operation::Div(flag) };
        let swapped = G { compiler_state: CS }.canon(&l, &op, &r);
        if swapped { assert!(matches!(op, Operation::Add(_) | Operation::And(_) | Operation::Or(_) | Operation::Xor(_) | Operation::Mul(_))); }
    }
    #[kani::proof] fn canary_must_fail() { let a: u8 = kani::any(); assert!(a != 202); }
}
"""

H = """    #[kani::proof]
    fn %(name)s() {
        let a: i32 = kani::any(); let b: i32 = kani::any(); let flag: bool = kani::any();
        let r = G { compiler_state: CS }.%(fn)s(&a, &b, &Operation::%(op)s(flag), 3);
        if %(defined)s { assert!(r == Ok(ExprType::Immediate(%(value)s))); } else { assert!(r.is_err()); }
    }
"""


def arm_block(f, s0, cb0, left_pat, fname):
    """the `match op { … }` block inside `ExprType::Immediate(l) => { match right { ExprType::Immediate(r) => { match op {…} }` of a function"""
    m = re.search(r"ExprType::Immediate\(l\) => \{\s*match right \{\s*ExprType::Immediate\(r\) => \{\s*match op \{", f.masked[s0:cb0])
    if not m:
        raise Undecided("%s: immediate x immediate folding arm not found" % fname)
    ob = s0 + m.end() - 1
    cb = match_brace(f.masked, ob)
    start = f.masked.rfind("match op", s0, ob)
    return f.text[start:cb + 1]


def build(repo):
    u = Unit(NAME, TOOL, PROPS,
             ["src/generate/generate_arithm.rs: generate_arithm (immediate folding arm; operand canonicalisation, R8)", "src/generate/generate_arithm.rs: generate_shift (immediate folding arm, R8)",
              "src/generate/generate_arithm.rs: generate_neg / generate_not / generate_bnot (Expr::Integer arms, R8)"],
             assumptions=["oracle: C semantics of 32-bit int as i64 arithmetic (as in U-calc); a folded constant equals what the calculator computes for the same operator (same oracle)",
                          "the Div value oracle is the C99 defining property", "operand names are abstracted to ids (the blocks do not read them)",
                          "the run-time lowering of the same operators (non-immediate operands) is not interpreted here"])
    f = SourceFile(repo, "src/generate/generate_arithm.rs")
    comp = SourceFile(repo, "src/compile.rs")
    sa, oa, ca = f.find_fn_span("generate_arithm")
    ss, os_, cs = f.find_fn_span("generate_shift")
    fold_arithm = arm_block(f, sa, ca, None, "generate_arithm")
    fold_shift = arm_block(f, ss, cs, None, "generate_shift")
    canon = f.stmt(r"match op \{\s*Operation::Sub", sa, ca).text
    if not canon.rstrip().endswith("}"):
        # the canonicalisation `match` is a statement without trailing `;`
        m = re.search(r"match op \{\s*Operation::Sub", f.masked[sa:ca])
        ob = f.masked.find("{", sa + m.start())
        canon = f.text[sa + m.start():match_brace(f.masked, ob) + 1]
    arms = {}
    for name in ("generate_neg", "generate_not", "generate_bnot"):
        s0, ob0, cb0 = f.find_fn_span(name)
        m = re.search(r"Expr::Integer\(i\) => ", f.masked[s0:cb0])
        if not m:
            raise Undecided("%s: Expr::Integer arm not found" % name)
        a = s0 + m.end()
        # arm expression: up to the `,` that ends it at depth 0
        depth = 0
        j = a
        while j < cb0:
            ch = f.masked[j]
            if ch in "([{":
                depth += 1
            elif ch in ")]}":
                depth -= 1
            elif ch == "," and depth == 0:
                break
            j += 1
        arms[name] = "Expr::Integer(i) => Some(%s)," % f.text[a:j].strip()
    hs = []
    table = [("add", "fold_arithm", "Add", "fits(a as i64 + b as i64)", "(a as i64 + b as i64) as i32"), ("sub", "fold_arithm", "Sub", "fits(a as i64 - b as i64)", "(a as i64 - b as i64) as i32"),
             ("and", "fold_arithm", "And", "true", "a & b"), ("or", "fold_arithm", "Or", "true", "a | b"), ("xor", "fold_arithm", "Xor", "true", "a ^ b"),
             ("mul", "fold_arithm", "Mul", "fits(a as i64 * b as i64)", "(a as i64 * b as i64) as i32"),
             ("brs", "fold_shift", "Brs", "0 <= b && b < 32", "((a as i64) >> (b as u32 & 31)) as i32"),
             ("bls", "fold_shift", "Bls", "0 <= b && b < 32 && fits((a as i64) << (b as u32 & 31))", "((a as i64) << (b as u32 & 31)) as i32")]
    for nm, fn, op, dfn, val in table:
        hs.append(H % {"name": "fold_" + nm, "fn": fn, "op": op, "defined": dfn, "value": val})
        u.harnesses["fold_" + nm] = (["C10", "C16"], "fold-" + nm, "generator folding of `a %s b` on immediates: the C value where defined, an error (no panic) elsewhere, all i32" % op)
    hs.append("""    #[kani::proof]
    fn fold_div() {      // C99: q is the quotient iff a == q*b + r, |r| < |b|, r == 0 or sign(r) == sign(a); undefined for b == 0 and INT_MIN / -1
        let a: i32 = kani::any(); let b: i32 = kani::any(); let flag: bool = kani::any();
        let r = G { compiler_state: CS }.fold_arithm(&a, &b, &Operation::Div(flag), 3);
        if b != 0 && !(a == i32::MIN && b == -1) {
            match r { Ok(ExprType::Immediate(q)) => { let rem = a as i64 - (q as i64) * (b as i64); assert!(rem.abs() < (b as i64).abs()); assert!(rem == 0 || ((rem < 0) == (a < 0))); } _ => assert!(false) }
        } else { assert!(r.is_err()); }
    }
    #[kani::proof]
    fn fold_unary() {
        let a: i32 = kani::any();
        let g = G { compiler_state: CS };
        kani::assume(a != i32::MIN);          // -INT_MIN cannot be written as a literal (the literal 2147483648 does not fit)
        assert!(g.fold_neg(&Expr::Integer(a)) == Some(Ok(ExprType::Immediate(-a))));
        assert!(g.fold_not(&Expr::Integer(a)) == Some(Ok(ExprType::Immediate((a == 0) as i32))));
        assert!(g.fold_bnot(&Expr::Integer(a)) == Some(Ok(ExprType::Immediate(!a))));
    }
""")
    u.harnesses["fold_div"] = (["C10", "C16"], "fold-div", "generator folding of `a / b`: C99 quotient where defined, error for /0 and INT_MIN/-1")
    u.harnesses["fold_unary"] = (["C10"], "fold-unary", "folding of -k, !k (0/1), ~k on integer literals")
    u.harnesses["fold_canon_never_swaps_noncommutative"] = (["C15", "C01"], "canon-keeps-sub-div-order", "operand canonicalisation never exchanges the operands of - and / (plain or compound)")
    u.harnesses["fold_canon_commutative_only"] = (["C15", "C01"], "canon-swaps-commutative-only", "operands are exchanged only for + & | ^ *")
    u.harnesses["canary_must_fail"] = (["C00"], "canary", "deliberately false")
    text = SHIM % {"operation": comp.item("enum", "Operation").text, "fold_arithm": fold_arithm, "fold_shift": fold_shift, "canon": canon,
                   "neg": arms["generate_neg"], "not": arms["generate_not"], "bnot": arms["generate_bnot"], "harnesses": "".join(hs)}
    u.text[None] = text.replace("self.compiler_state", "self.compiler_state")
    u.rewrites = ["R8: folding arms and canonicalisation cut by their match heads; free variables l, r, op, pos became parameters"]
    u.dropped = ["everything else of generate_arithm / generate_shift (the run-time lowering)"]
    return u


def lift(harness, vals):
    sym = {"add": "+", "sub": "-", "and": "&", "or": "|", "xor": "^", "mul": "*", "div": "/", "brs": ">>", "bls": "<<"}
    m = re.match(r"fold_(\w+)$", harness)
    if not m or m.group(1) not in sym:
        return None
    ints = [int(v) for v in vals if re.match(r"^\s*-?\d+\s*$", v)]
    if len(ints) < 2:
        return None
    a, b = ints[0], ints[1]
    o = m.group(1)
    def lit(v):
        return "(%d)" % v if v >= 0 else ("(0 - %d)" % (-v) if v > -2**31 else "(0 - 2147483647 - 1)")
    def fits(v):
        return -2**31 <= v <= 2**31 - 1
    val = None
    if o == "div":
        if b != 0 and not (a == -2**31 and b == -1):
            q = abs(a) // abs(b); val = q if (a < 0) == (b < 0) else -q
    elif o in ("brs", "bls"):
        if 0 <= b < 32:
            val = a >> b if o == "brs" else a << b
    else:
        val = {"add": a + b, "sub": a - b, "and": a & b, "or": a | b, "xor": a ^ b, "mul": a * b}[o]
    if val is not None and not fits(val):
        val = None
    src = "short x;\nvoid main() { x = %s %s %s; }\n" % (lit(a), sym[o], lit(b))
    if val is None:
        return {"source": src, "args": ["-O0"], "expect": {"panic": False, "is_error": True}, "note": "undefined in 32-bit int: must be rejected with an error"}
    return {"source": src, "args": ["-O0"], "expect": {"panic": False}, "simulate": {"expect16": {"x": val & 0xffff}}, "note": "C value %d; the short keeps the low 16 bits" % val}
