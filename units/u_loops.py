"""U-loops: GeneratorState::generate_while, generate_do_while, generate_for_loop, generate_break, generate_continue whole, verified in Verus over a ghost
control state (pending forward jump / taken backward jump / statements run / condition evaluations consumed).  The contract of each loop is its
SINGLE-PASS behaviour, which is what defines a loop: from the loop head, with the condition's truth values given by an arbitrary oracle, the body runs
and control jumps back to the head exactly when C says another iteration follows, `continue` in the body lands on the update / condition, `break`
leaves the loop, every forward jump lands, and nothing is pending on exit.  Deferred ++/-- of the init and update expressions are flushed before the
condition is evaluated (C01, C13, C15, C16)."""
import re
from vf.core import Unit
from vf.rustcut import SourceFile, Undecided
from . import common

NAME = "U-loops"
TOOL = "verus"
PROPS = ["C01", "C13", "C15", "C16"]
RLIMIT = 300
TRUSTED = ["verus 0.2026.09.13 + z3", "A-fmt (R4)",
           "generate_condition (U-gencond / U-condtail), generate_statement, generate_expr, purge_deferred_plusplus_and_savey, label, asm(JMP) are stubs over the ghost control state; "
           "a jump to a label that is already defined is a backward jump: the pass ends there"]

SPECS = """
pub struct Error { pub e: u8 }
%(types)s
use AsmMnemonic::*;
pub struct CompilerState { pub x: u8 }
impl CompilerState { #[verifier::external_body] pub fn syntax_error(&self, message: &str, loc: usize) -> Error { unimplemented!() } }
pub enum Statement { Expression(Expr), Other(u8) }
pub struct StatementLoc { pub statement: Statement, pub id: int }
// how a body leaves: normally, by `continue`, by `break` (an arbitrary choice per execution)
pub enum Exit { Normal, Continue, Break }
pub uninterp spec fn cond_truth(k: nat) -> bool;        // truth value of the k-th evaluation of the loop condition in this pass
pub uninterp spec fn body_exit(id: int) -> Exit;         // how the statement with this id leaves
pub struct G {
    pub skip: Option<Seq<char>>,       // a forward jump is pending to this label
    pub back: Option<Seq<char>>,       // a backward jump was taken to this label: the pass is over
    pub ran: Seq<int>,                 // statements / expressions executed, in order (ids; init = -1, update = -2)
    pub defined: Set<Seq<char>>,       // labels defined so far
    pub evals: nat,                    // condition evaluations consumed
    pub deferred: bool,                // a post-increment / decrement of the last expression is still to be emitted
}
pub open spec fn live(g: G) -> bool { g.skip is None && g.back is None }
pub struct GeneratorState<'a> {
    pub compiler_state: &'a CompilerState,
    pub local_label_counter_for: u32, pub local_label_counter_while: u32,
    pub loops: Vec<(String, String, bool)>,
    pub gh: Ghost<G>,
}
// a jump to `l`: backward when l is defined already, forward otherwise
pub open spec fn jump(g: G, l: Seq<char>) -> G { if !live(g) { g } else if g.defined.contains(l) { G { back: Some(l), ..g } } else { G { skip: Some(l), ..g } } }
#[verifier::external_body] pub fn string_clone(s: &String) -> (r: String) ensures r == *s { s.clone() }
#[verifier::external_body]
pub fn vec_last(v: &Vec<(String, String, bool)>) -> (r: Option<&(String, String, bool)>) ensures v@.len() == 0 ==> r is None, v@.len() > 0 ==> r is Some && *r->Some_0 == v@[v@.len() - 1] { v.last() }
#[verifier::external_body]
pub fn str_is_empty(s: &String) -> (r: bool) ensures r == (s@.len() == 0) { s.is_empty() }
"""

STUBS = """
    #[verifier::external_body]
    pub(crate) fn generate_condition(&mut self, condition: &Expr, pos: usize, negate: bool, label: &str, immediate_special: bool) -> (res: Result<Option<bool>, Error>)
        requires !live(old(self).gh@) || !old(self).gh@.deferred, //@ C01:loops-condition-after-deferred-flushed
        ensures final(self).compiler_state == old(self).compiler_state, final(self).loops == old(self).loops,
            final(self).local_label_counter_for == old(self).local_label_counter_for, final(self).local_label_counter_while == old(self).local_label_counter_while,
            (res is Ok && !immediate_special) ==> res->Ok_0 is None,
            (res is Ok && !live(old(self).gh@)) ==> final(self).gh@ == old(self).gh@,
            (res is Ok && live(old(self).gh@)) ==> final(self).gh@ == (if cond_truth(old(self).gh@.evals) != negate { jump(G { evals: old(self).gh@.evals + 1, ..old(self).gh@ }, label@) } else { G { evals: old(self).gh@.evals + 1, ..old(self).gh@ } }),
    { unimplemented!() }
    #[verifier::external_body]
    pub fn generate_statement(&mut self, code: &StatementLoc) -> (res: Result<(), Error>)
        requires old(self).loops@.len() > 0,
        ensures final(self).compiler_state == old(self).compiler_state,
            final(self).local_label_counter_for >= old(self).local_label_counter_for, final(self).local_label_counter_while >= old(self).local_label_counter_while,
            final(self).loops@.len() == old(self).loops@.len(),
            forall|i: int| 0 <= i < old(self).loops@.len() ==> (#[trigger] final(self).loops@[i]).0 == old(self).loops@[i].0 && final(self).loops@[i].1 == old(self).loops@[i].1,
            forall|i: int| 0 <= i < old(self).loops@.len() - 1 ==> #[trigger] final(self).loops@[i] == old(self).loops@[i],
            (res is Ok && !live(old(self).gh@)) ==> final(self).gh@ == old(self).gh@ && final(self).loops == old(self).loops,
            // the statement runs (its own deferred ++/-- are flushed at its start and at its end); it may leave by `continue` (which marks the loop entry) or `break`
            (res is Ok && live(old(self).gh@)) ==> ({
                let top = old(self).loops@[old(self).loops@.len() - 1];
                let g1 = G { ran: old(self).gh@.ran.push(code.id), deferred: false, ..old(self).gh@ };
                match body_exit(code.id) {
                    Exit::Normal => final(self).gh@ == g1 && final(self).loops@[old(self).loops@.len() - 1].2 == top.2,
                    Exit::Continue => final(self).gh@ == jump(g1, top.0@) && final(self).loops@[old(self).loops@.len() - 1].2,
                    Exit::Break => final(self).gh@ == jump(g1, top.1@) && final(self).loops@[old(self).loops@.len() - 1].2 == top.2,
                } }),
    { unimplemented!() }
    #[verifier::external_body]
    pub(crate) fn generate_expr(&mut self, expr: &Expr, pos: usize, high_byte: bool, second_time: bool) -> (res: Result<ExprType, Error>)
        ensures final(self).compiler_state == old(self).compiler_state, final(self).loops == old(self).loops,
            final(self).local_label_counter_for == old(self).local_label_counter_for, final(self).local_label_counter_while == old(self).local_label_counter_while,
            (res is Ok && !live(old(self).gh@)) ==> final(self).gh@ == old(self).gh@,
            // the expression is evaluated; a post-increment / decrement in it may be left pending
            (res is Ok && live(old(self).gh@)) ==> (final(self).gh@ == (G { ran: old(self).gh@.ran.push(expr_id(*expr)), deferred: final(self).gh@.deferred, ..old(self).gh@ })),
    { unimplemented!() }
    #[verifier::external_body]
    fn purge_deferred_plusplus_and_savey(&mut self) -> (res: Result<(), Error>)
        ensures final(self).compiler_state == old(self).compiler_state, final(self).loops == old(self).loops,
            final(self).local_label_counter_for == old(self).local_label_counter_for, final(self).local_label_counter_while == old(self).local_label_counter_while,
            res is Ok ==> final(self).gh@ == (if live(old(self).gh@) { G { deferred: false, ..old(self).gh@ } } else { old(self).gh@ }),
    { unimplemented!() }
    #[verifier::external_body]
    pub(crate) fn asm(&mut self, mnemonic: AsmMnemonic, operand: &ExprType, pos: usize, high_byte: bool) -> (res: Result<bool, Error>)
        requires mnemonic == JMP && operand is Label,
        ensures final(self).compiler_state == old(self).compiler_state, final(self).loops == old(self).loops,
            final(self).local_label_counter_for == old(self).local_label_counter_for, final(self).local_label_counter_while == old(self).local_label_counter_while,
            res is Ok ==> final(self).gh@ == jump(old(self).gh@, operand->Label_0@),
    { unimplemented!() }
    #[verifier::external_body]
    pub(crate) fn label(&mut self, l: &str) -> (res: Result<(), Error>)
        requires !old(self).gh@.defined.contains(l@), //@ C13:loops-label-defined-once
        ensures final(self).compiler_state == old(self).compiler_state, final(self).loops == old(self).loops, res is Ok,
            final(self).local_label_counter_for == old(self).local_label_counter_for, final(self).local_label_counter_while == old(self).local_label_counter_while,
            final(self).gh@ == (G { skip: (if old(self).gh@.skip == Some(l@) { None::<Seq<char>> } else { old(self).gh@.skip }), defined: old(self).gh@.defined.insert(l@), ..old(self).gh@ }),
    { unimplemented!() }
"""

EXTRA = """
pub uninterp spec fn expr_id(e: Expr) -> int;
// the labels a loop with counter n mints are pairwise different texts and none of them is defined yet (label discipline: U-labels; texts: second / later characters differ)
pub open spec fn fresh(g: G, l: Seq<char>) -> bool { !g.defined.contains(l) }
"""

WHILE_H = """#[verifier::exec_allows_no_decreases_clause]
    fn generate_while(&mut self, condition: &Expr, body: &StatementLoc, pos: usize) -> (res: Result<(), Error>)
        requires
            live(old(self).gh@), !old(self).gh@.deferred, old(self).gh@.ran.len() == 0, old(self).gh@.evals == 0,
            old(self).local_label_counter_while < 0xffff_fff0,
            forall|k: int| k > old(self).local_label_counter_while ==> fresh(old(self).gh@, #[trigger] (".while"@ + dec(k))) && fresh(old(self).gh@, ".whileend"@ + dec(k)),
            forall|k: int| k > old(self).local_label_counter_while ==> fresh(old(self).gh@, #[trigger] (".dowhile"@ + dec(k))) && fresh(old(self).gh@, ".dowhilecondition"@ + dec(k)) && fresh(old(self).gh@, ".dowhileend"@ + dec(k)),
        ensures
            final(self).compiler_state == old(self).compiler_state,
            res is Ok ==> final(self).loops@ =~= old(self).loops@, //@ C01:while-loop-stack-restored
            // one pass from the loop head: the body runs and control returns to the head exactly when the condition holds; `break` or a false condition leave the loop
            (res is Ok && !(body.statement is Expression && body.statement->Expression_0 is Nothing)) ==> ({
                let c0 = cond_truth(0);
                let head = ".while"@ + dec(old(self).local_label_counter_while as int + 1);
                if !c0 { final(self).gh@.ran.len() == 0 && live(final(self).gh@) }
                else if body_exit(body.id) is Break { final(self).gh@.ran == seq![body.id] && live(final(self).gh@) }
                else { final(self).gh@.ran == seq![body.id] && final(self).gh@.back == Some(head) && final(self).gh@.skip is None }
            }), //@ C01,C15:while-single-pass
"""

DOWHILE_H = """#[verifier::exec_allows_no_decreases_clause]
    fn generate_do_while(&mut self, body: &StatementLoc, condition: &Expr, pos: usize) -> (res: Result<(), Error>)
        requires
            live(old(self).gh@), !old(self).gh@.deferred, old(self).gh@.ran.len() == 0, old(self).gh@.evals == 0,
            old(self).local_label_counter_while < 0xffff_fff0,
            forall|k: int| k > old(self).local_label_counter_while ==> fresh(old(self).gh@, #[trigger] (".dowhile"@ + dec(k))) && fresh(old(self).gh@, ".dowhilecondition"@ + dec(k)) && fresh(old(self).gh@, ".dowhileend"@ + dec(k)),
        ensures
            final(self).compiler_state == old(self).compiler_state,
            res is Ok ==> final(self).loops@ =~= old(self).loops@, //@ C01:dowhile-loop-stack-restored
            // one pass: the body runs once; unless it leaves by `break`, the condition is then evaluated (also after `continue`) and control returns to the head exactly when it holds
            res is Ok ==> ({
                let head = ".dowhile"@ + dec(old(self).local_label_counter_while as int + 1);
                final(self).gh@.ran == seq![body.id] && final(self).gh@.skip is None &&
                (if body_exit(body.id) is Break { final(self).gh@.back is None && final(self).gh@.evals == 0 }
                 else { final(self).gh@.evals == 1 && final(self).gh@.back == (if cond_truth(0) { Some(head) } else { None::<Seq<char>> }) })
            }), //@ C01,C15,C13:dowhile-single-pass
"""

FOR_H = """#[verifier::exec_allows_no_decreases_clause]
    fn generate_for_loop(&mut self, init: &Expr, condition: &Expr, update: &Expr, body: &StatementLoc, pos: usize) -> (res: Result<(), Error>)
        requires
            live(old(self).gh@), !old(self).gh@.deferred, old(self).gh@.ran.len() == 0, old(self).gh@.evals == 0,
            old(self).local_label_counter_for < 0xffff_fff0,
            forall|k: int| k > old(self).local_label_counter_for ==> fresh(old(self).gh@, #[trigger] (".for"@ + dec(k))) && fresh(old(self).gh@, ".forupdate"@ + dec(k)) && fresh(old(self).gh@, ".forend"@ + dec(k)),
        ensures
            final(self).compiler_state == old(self).compiler_state,
            res is Ok ==> final(self).loops@ =~= old(self).loops@, //@ C01:for-loop-stack-restored
            // one pass from the start: init; if the condition fails the loop is left; else body (break leaves; continue goes on with the update), update, and control returns to the
            // body's head exactly when the condition holds again
            res is Ok ==> ({
                let head = ".for"@ + dec(old(self).local_label_counter_for as int + 1);
                let i = expr_id(*init); let u = expr_id(*update);
                if !cond_truth(0) { final(self).gh@.ran == seq![i] && live(final(self).gh@) }
                else if body_exit(body.id) is Break { final(self).gh@.ran == seq![i, body.id] && live(final(self).gh@) }
                else { final(self).gh@.ran == seq![i, body.id, u] && final(self).gh@.skip is None && final(self).gh@.back == (if cond_truth(1) { Some(head) } else { None::<Seq<char>> }) }
            }), //@ C01,C15:for-single-pass
"""

BREAK_H = """fn generate_break(&mut self, pos: usize) -> (res: Result<(), Error>)
        ensures final(self).compiler_state == old(self).compiler_state, final(self).loops == old(self).loops,
            res is Ok ==> old(self).loops@.len() > 0 && final(self).gh@ == jump(old(self).gh@, old(self).loops@[old(self).loops@.len() - 1].1@), //@ C01:break-jumps-to-loop-end
"""
CONT_H = """fn generate_continue(&mut self, pos: usize) -> (res: Result<(), Error>)
        ensures final(self).compiler_state == old(self).compiler_state,
            res is Ok ==> old(self).loops@.len() > 0 && old(self).loops@[old(self).loops@.len() - 1].0@.len() > 0 && final(self).gh@ == jump(old(self).gh@, old(self).loops@[old(self).loops@.len() - 1].0@), //@ C01:continue-jumps-to-loop-continuation
            res is Ok ==> final(self).loops@.len() == old(self).loops@.len() && final(self).loops@[old(self).loops@.len() - 1].2, //@ C13:continue-marks-the-loop
            res is Ok ==> final(self).loops@[old(self).loops@.len() - 1].0 == old(self).loops@[old(self).loops@.len() - 1].0 && final(self).loops@[old(self).loops@.len() - 1].1 == old(self).loops@[old(self).loops@.len() - 1].1,
"""


def candidates(f):
    """loops in their three forms with break / continue and post-increments in the init / update clauses, on the 6502 interpreter"""
    out = []
    def prog(decl, body, sim, note=""):
        out.append({"source": "%s\nvoid main() { %s }\n" % (decl, body), "args": ["-O0"], "expect": {"panic": False}, "simulate": dict(sim, stack_empty=True), "note": note})
    for n in (0, 1, 5):
        tot = sum(range(n)) & 255
        prog("unsigned char i, n, t;", "t = 0; for (i = 0; i < n; i++) t += i;", {"init": {"n": n}, "expect": {"t": tot}}, "n=%d" % n)
        prog("unsigned char i, n, t;", "t = 0; i = 0; while (i < n) { t += i; i++; }", {"init": {"n": n}, "expect": {"t": tot}}, "n=%d" % n)
        prog("unsigned char i, n, t;", "t = 0; for (i = 0; i < n; i++) { if (i == 2) continue; t += i; }", {"init": {"n": n}, "expect": {"t": sum(x for x in range(n) if x != 2) & 255}}, "n=%d continue" % n)
        prog("unsigned char i, n, t;", "t = 0; for (i = 0; i < n; i++) { if (i == 3) break; t += i; }", {"init": {"n": n}, "expect": {"t": sum(x for x in range(min(n, 3))) & 255}}, "n=%d break" % n)
        prog("unsigned char i, n, t;", "t = 0; i = 0; while (i < n) { i++; if (i == 2) continue; t += i; }", {"init": {"n": n}, "expect": {"t": sum(x for x in range(1, n + 1) if x != 2) & 255}}, "n=%d while continue" % n)
        if n > 0:
            prog("unsigned char i, n, t;", "t = 0; i = 0; do { t += i; i++; } while (i != n);", {"init": {"n": n}, "expect": {"t": tot}}, "n=%d" % n)
            prog("unsigned char i, n, t;", "t = 0; i = 0; do { i++; if (i == 2) continue; t += i; } while (i != n);", {"init": {"n": n}, "expect": {"t": sum(x for x in range(1, n + 1) if x != 2) & 255}}, "n=%d do-while continue" % n)
            prog("unsigned char i, n, t;", "t = 0; i = 0; do { i++; if (i == 3) break; t += i; } while (i != n);", {"init": {"n": n}, "expect": {"t": sum(x for x in range(1, min(n, 2) + 1)) & 255}}, "n=%d do-while break" % n)
    for j in (0, 5, 7):
        prog("unsigned char j, k, n;", "n = 0; for (k = j++; k != 8; k++) n++;", {"init": {"j": j}, "expect": {"j": (j + 1) & 255, "n": (8 - j) & 255, "k": 8}}, "j=%d" % j)
        prog("unsigned char j, k, n;", "n = 0; for (k = 0; k != 3; j = k++) n++;", {"init": {"j": j}, "expect": {"j": 2, "n": 3, "k": 3}}, "j=%d update with post-increment" % j)
    return out


def build(repo):
    u = Unit(NAME, TOOL, PROPS, ["src/generate/generate_statements.rs: GeneratorState::generate_while / generate_do_while / generate_for_loop / generate_break / generate_continue"],
             assumptions=["callees are stubs over the ghost control state (TRUSTED); the condition's truth values and the way the body leaves are arbitrary (uninterpreted oracles): the contracts hold for all of them",
                          "the local labels a loop mints are not defined yet (label discipline: U-labels) and are pairwise different texts (proved here from their literals)",
                          "single-pass contracts: that repeating the pass gives C's loop semantics is the usual induction, not mechanised"])
    gs = SourceFile(repo, "src/generate/generate_statements.rs")
    gm = SourceFile(repo, "src/generate/mod.rs")
    comp = SourceFile(repo, "src/compile.rs")
    asmf = SourceFile(repo, "src/assemble.rs")
    cuts, tys = [], []
    for sf, kind, name, structural in ((comp, "enum", "Operation", True), (asmf, "enum", "AsmMnemonic", True), (gm, "enum", "ExprType", False), (comp, "enum", "Expr", False)):
        c = sf.item(kind, name)
        common.r2(c, structural=structural)
        c.sub(r"pub\(crate\) enum", "pub enum", "R2-pub")
        if not structural:
            c.sub(r"#\[derive\(([^)]*)\)\]", "", "R2-derive (no derived impls needed)", expect=(0, 1))
        cuts.append(c)
        tys.append(c.text)
    fm = common.Fmt({"self.local_label_counter_for": ("int", None), "self.local_label_counter_while": ("int", None)})
    parts = []
    hint = """        proof {
            reveal_strlit(".while"); reveal_strlit(".whileend"); reveal_strlit(".dowhile"); reveal_strlit(".dowhilecondition"); reveal_strlit(".dowhileend");
            reveal_strlit(".for"); reveal_strlit(".forupdate"); reveal_strlit(".forend");
            lemma_texts_differ(self.local_label_counter_while as int + 1); lemma_texts_differ(self.local_label_counter_for as int + 1);
        }"""
    for name, hdr, sig in (("generate_for_loop", FOR_H, "fn generate_for_loop( &mut self, init: &'a Expr, condition: &Expr, update: &'a Expr, body: &'a StatementLoc<'a>, pos: usize, ) -> Result<(), Error>"),
                           ("generate_while", WHILE_H, "fn generate_while( &mut self, condition: &Expr, body: &'a StatementLoc<'a>, pos: usize, ) -> Result<(), Error>"),
                           ("generate_do_while", DOWHILE_H, "fn generate_do_while( &mut self, body: &'a StatementLoc<'a>, condition: &Expr, pos: usize, ) -> Result<(), Error>"),
                           ("generate_break", BREAK_H, "fn generate_break(&mut self, pos: usize) -> Result<(), Error>"),
                           ("generate_continue", CONT_H, "fn generate_continue(&mut self, pos: usize) -> Result<(), Error>")):
        f = gs.fn(name, within="GeneratorState")
        cuts.append(f)
        f.sub(r"\b(\w+_label|bl|cl)\.clone\(\)", r"string_clone(&\1)", "R11 String::clone -> shim", expect=(0, 8))
        f.sub(r"string_clone\(&(bl|cl)\)", r"string_clone(\1)", "R11 (already a reference)", expect=(0, 4))
        f.sub(r"self\.loops\.last_mut\(\)\.unwrap\(\)\.2 = true;", "{ let __e = self.loops.pop().unwrap(); self.loops.push((__e.0, __e.1, true)); }", "R18 last_mut().unwrap().2 = true -> pop / push of the same entry with the mark set", expect=(0, 2))
        f.sub(r"self\.loops\.last\(\)\.unwrap\(\)\.2", "vec_last(&self.loops).unwrap().2", "R18 Vec::last -> shim", expect=(0, 2))
        f.sub(r"match self\.loops\.last\(\) \{", "match vec_last(&self.loops) {", "R18 Vec::last -> shim", expect=(0, 4))
        f.sub(r"\bcl\.is_empty\(\)", "str_is_empty(cl)", "R15 String::is_empty -> shim", expect=(0, 2))
        f.sub(r"if let Statement::Expression\(Expr::Nothing\) = body\.statement \{", "if (match &body.statement { Statement::Expression(Expr::Nothing) => true, _ => false }) {", "R3 if-let on a non-Copy place -> match by reference", expect=(0, 1))
        fm.apply(f)
        f.set_header(hdr, expect_sig=sig)
        if name.startswith("generate_for") or name.endswith("while"):
            f.body_start(hint)
        parts.append(f.text)
    lemma = """
pub proof fn lemma_texts_differ(n: int)
    ensures ".while"@ + dec(n) != ".whileend"@ + dec(n),
        ".dowhile"@ + dec(n) != ".dowhilecondition"@ + dec(n), ".dowhile"@ + dec(n) != ".dowhileend"@ + dec(n), ".dowhilecondition"@ + dec(n) != ".dowhileend"@ + dec(n),
        ".for"@ + dec(n) != ".forupdate"@ + dec(n), ".for"@ + dec(n) != ".forend"@ + dec(n), ".forupdate"@ + dec(n) != ".forend"@ + dec(n),
{
    reveal_strlit(".while"); reveal_strlit(".whileend"); reveal_strlit(".dowhile"); reveal_strlit(".dowhilecondition"); reveal_strlit(".dowhileend");
    reveal_strlit(".for"); reveal_strlit(".forupdate"); reveal_strlit(".forend");
    dec_nat_digits(if n < 0 { (-n) as nat } else { n as nat });
    let d = dec(n);
    assert(d.len() >= 1);
    // the character right after the shorter literal is a digit or '-' in one text and a letter in the other
    assert((".while"@ + d)[6] == d[0]); assert((".whileend"@ + d)[6] == 'e');
    assert((".dowhile"@ + d)[8] == d[0]); assert((".dowhilecondition"@ + d)[8] == 'c'); assert((".dowhileend"@ + d)[8] == 'e');
    assert((".for"@ + d)[4] == d[0]); assert((".forupdate"@ + d)[4] == 'u'); assert((".forend"@ + d)[4] == 'e');
    assert(d[0] == '-' || is_digit(d[0]));
}
"""
    text = common.PRELUDE + common.header_comment(NAME, cuts) + "verus! {\n" + common.DEC_SPECS + (SPECS % {"types": "\n".join(tys)}) + EXTRA + lemma + fm.text() + \
        "impl<'a> GeneratorState<'a> {\n" + STUBS + "\n" + "\n".join(parts) + "\n}\n" + common.CANARY + "\n} // verus!\n"
    u.text[None] = text
    u.rewrites = common.collect_rewrites(cuts)
    u.dropped = ["R6 shim environment (statement tree reduced to what the functions inspect)"]
    return u
