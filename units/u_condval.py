"""U-condval: GeneratorState::generate_expr_cond and GeneratorState::generate_not whole (a condition used as a value: 0 or 1), verified in Verus against
stubs that execute the emitted lines on a ghost 6502 with a pending jump: generate_condition jumps to its label exactly when the condition holds
(its own contract), `JMP l` / a taken jump skip every line up to the definition of `l`.  Postcondition, for both truth values of the condition: the
result is 1 or 0 as C says, the stack is balanced, a live accumulator is back in A, generate_condition is never entered with a live accumulator
(it would save it a second time) (C01, C13, C16)."""
import re
from vf.core import Unit
from vf.rustcut import SourceFile, Undecided
from . import common

NAME = "U-condval"
TOOL = "verus"
PROPS = ["C01", "C13", "C16", "C10"]
RLIMIT = 150
TRUSTED = ["verus 0.2026.09.13 + z3", "A-isa: LDA #imm, STA cctmp, PHA, PLA, JMP", "A-fmt (R4)",
           "generate_condition's contract (it jumps to the label exactly when `condition` holds, negated if asked, and otherwise falls through; it leaves the stack alone when the accumulator "
           "is not marked live) is assumed here: U-condex / U-cond16 / U-branch establish it for its comparison leaves"]

SPECS = """
pub struct Error { pub e: u8 }
%(types)s
use AsmMnemonic::*;
pub struct CompilerState { pub x: u8 }
impl CompilerState { #[verifier::external_body] pub fn syntax_error(&self, message: &str, loc: usize) -> Error { unimplemented!() } }
// ---- ghost 6502 with a pending jump; `truth` is the (arbitrary) truth value of the condition being lowered ------------------------------
pub struct M { pub a: int, pub tmp: int, pub stack: Seq<int>, pub skip: Option<Seq<char>>, pub truth: bool }
pub uninterp spec fn imm(v: i32) -> int;
pub uninterp spec fn sem(e: Expr) -> int;           // the value an expression denotes
pub uninterp spec fn of(e: ExprType) -> int;          // the value a memory operand / constant / index register denotes
pub open spec fn val(g: M, e: ExprType) -> int { match e { ExprType::A(_) => g.a, ExprType::Tmp(_) => g.tmp, _ => of(e) } }  // the value an evaluated operand denotes in a machine state
#[verifier::external_body] pub fn exprtype_ne(a: &ExprType, b: &ExprType) -> (r: bool) { unimplemented!() }      // R3: derived PartialEq on ExprType (result not used by the contract)
#[verifier::external_body] pub proof fn axiom_imm01() ensures imm(0) == 0, imm(1) == 1 {}
pub open spec fn exec(g: M, m: AsmMnemonic, e: ExprType) -> M {
    if m == LDA && e is Immediate { M { a: imm(e->Immediate_0), ..g } }
    else if m == STA && e is Tmp { M { tmp: g.a, ..g } }
    else if m == PHA { M { stack: g.stack.push(g.a), ..g } }
    else if m == PLA { M { a: g.stack.last(), stack: g.stack.drop_last(), ..g } }
    else if m == JMP && e is Label { M { skip: Some(e->Label_0@), ..g } }
    else { g }
}
pub open spec fn step(g: M, m: AsmMnemonic, e: ExprType) -> M { if g.skip is Some { g } else { exec(g, m, e) } }
// the two local labels of one expansion are different texts (second character)
pub proof fn lemma_labels_differ(n: int) ensures ".else"@ + dec(n) != ".ifend"@ + dec(n)
{
    reveal_strlit(".else"); reveal_strlit(".ifend");
    assert((".else"@ + dec(n))[1] == 'e');
    assert((".ifend"@ + dec(n))[1] == 'i');
}
pub struct GeneratorState<'a> {
    pub compiler_state: &'a CompilerState,
    pub acc_in_use: bool, pub tmp_in_use: bool, pub local_label_counter_if: u32,
    pub gh: Ghost<M>,
}
pub open spec fn plain_same(a: &GeneratorState, b: &GeneratorState) -> bool {
    a.compiler_state == b.compiler_state && a.acc_in_use == b.acc_in_use && a.tmp_in_use == b.tmp_in_use && a.local_label_counter_if == b.local_label_counter_if
}
"""

STUBS = """
    #[verifier::external_body]
    pub(crate) fn asm(&mut self, mnemonic: AsmMnemonic, operand: &ExprType, pos: usize, high_byte: bool) -> (res: Result<bool, Error>)
        requires (mnemonic == LDA && operand is Immediate) || (mnemonic == STA && operand is Tmp) || (mnemonic == JMP && operand is Label), //@ C01:condval-only-known-instructions
        ensures plain_same(old(self), final(self)), res is Ok ==> final(self).gh@ == step(old(self).gh@, mnemonic, *operand),
    { unimplemented!() }
    #[verifier::external_body]
    pub(crate) fn sasm(&mut self, mnemonic: AsmMnemonic) -> (res: Result<bool, Error>)
        requires mnemonic == PHA || mnemonic == PLA,
            (mnemonic == PLA && old(self).gh@.skip is None) ==> old(self).gh@.stack.len() > 0, //@ C01:condval-pla-has-pha
        ensures plain_same(old(self), final(self)), res is Ok, final(self).gh@ == step(old(self).gh@, mnemonic, ExprType::Nothing),
    { unimplemented!() }
    #[verifier::external_body]
    pub(crate) fn label(&mut self, l: &str) -> (res: Result<(), Error>)
        ensures plain_same(old(self), final(self)), res is Ok,
            final(self).gh@ == (if old(self).gh@.skip == Some(l@) { M { skip: None, ..old(self).gh@ } } else { old(self).gh@ }),
    { unimplemented!() }
    // an expression is evaluated: the operand returned denotes its value (nothing happens while a jump is pending)
    #[verifier::external_body]
    pub(crate) fn generate_expr(&mut self, expr: &Expr, pos: usize, high_byte: bool, second_time: bool) -> (res: Result<ExprType, Error>)
        ensures final(self).compiler_state == old(self).compiler_state, final(self).local_label_counter_if >= old(self).local_label_counter_if, final(self).tmp_in_use == old(self).tmp_in_use,
            res is Ok ==> final(self).gh@.skip == old(self).gh@.skip && final(self).gh@.stack == old(self).gh@.stack && final(self).gh@.truth == old(self).gh@.truth && final(self).gh@.tmp == old(self).gh@.tmp,
            (res is Ok && old(self).gh@.skip is Some) ==> final(self).gh@ == old(self).gh@,
            (res is Ok && old(self).gh@.skip is None) ==> val(final(self).gh@, res->Ok_0) == sem(*expr),
            res is Ok ==> final(self).acc_in_use == (old(self).acc_in_use || res->Ok_0 is A),
    { unimplemented!() }
    // assignment to the accumulator (the only destination the ternary uses)
    #[verifier::external_body]
    pub(crate) fn generate_assign(&mut self, left: &ExprType, right: &ExprType, pos: usize, high_byte: bool) -> (res: Result<ExprType, Error>)
        requires left is A, !old(self).acc_in_use || right is A, //@ C01:condval-assign-to-free-accumulator
        ensures final(self).compiler_state == old(self).compiler_state, final(self).local_label_counter_if == old(self).local_label_counter_if, final(self).tmp_in_use == old(self).tmp_in_use,
            res is Ok ==> res->Ok_0 is A && final(self).acc_in_use,
            res is Ok ==> final(self).gh@ == (if old(self).gh@.skip is Some { old(self).gh@ } else { M { a: val(old(self).gh@, *right), ..old(self).gh@ } }),
    { unimplemented!() }
    // the condition is lowered to jumps: control goes to `label` exactly when it holds (negated if asked); a constant condition may be reported instead
    #[verifier::external_body]
    pub(crate) fn generate_condition(&mut self, condition: &Expr, pos: usize, negate: bool, label: &str, immediate_special: bool) -> (res: Result<Option<bool>, Error>)
        requires
            !old(self).acc_in_use, //@ C01:condval-condition-not-entered-with-live-accumulator
            old(self).gh@.skip is None,
        ensures final(self).compiler_state == old(self).compiler_state, final(self).local_label_counter_if >= old(self).local_label_counter_if,
            !final(self).acc_in_use, final(self).tmp_in_use == old(self).tmp_in_use,
            res is Ok ==> final(self).gh@.stack == old(self).gh@.stack && final(self).gh@.truth == old(self).gh@.truth && final(self).gh@.tmp == old(self).gh@.tmp,
            (res is Ok && res->Ok_0 is None) ==> final(self).gh@.skip == (if old(self).gh@.truth != negate { Some(label@) } else { None::<Seq<char>> }),
            (res is Ok && res->Ok_0 is Some) ==> (immediate_special && final(self).gh@ == old(self).gh@ && res->Ok_0->Some_0 == (old(self).gh@.truth != negate)),
            (res is Ok && !immediate_special) ==> res->Ok_0 is None,
    { unimplemented!() }
"""


def _header(name, params, want):
    return """#[verifier::exec_allows_no_decreases_clause]
    pub(crate) fn %(name)s(&mut self, %(params)s) -> (res: Result<ExprType, Error>)
        requires
            old(self).gh@.skip is None,
            old(self).local_label_counter_if < 0xffff_fff0,
            // the truth value of a literal operand is its being non-zero
            (expr is Integer) ==> old(self).gh@.truth == (expr->Integer_0 != 0),
        ensures
            final(self).compiler_state == old(self).compiler_state,
            res is Ok ==> final(self).gh@.skip is None, //@ C01,C13:condval-jumps-land
            // the value: %(doc)s
            (res is Ok && res->Ok_0 is A) ==> final(self).gh@.a == (if %(want)s { 1int } else { 0int }), //@ C01:condval-value-in-a
            (res is Ok && res->Ok_0 is Tmp) ==> final(self).gh@.tmp == (if %(want)s { 1int } else { 0int }), //@ C01:condval-value-in-cctmp
            // a value parked in the scratch byte is marked: nothing else may be parked there until it is used
            (res is Ok && res->Ok_0 is Tmp) ==> final(self).tmp_in_use, //@ C01:condval-value-in-cctmp-marks-the-scratch-byte
            (res is Ok && res->Ok_0 is Immediate) ==> res->Ok_0->Immediate_0 == (if %(want)s { 1i32 } else { 0i32 }), //@ C01,C10:condval-value-constant
            res is Ok ==> (res->Ok_0 is A || res->Ok_0 is Tmp || res->Ok_0 is Immediate),
            res is Ok ==> final(self).gh@.stack == old(self).gh@.stack, //@ C01:condval-stack-balanced
            (res is Ok && old(self).acc_in_use) ==> (final(self).gh@.a == old(self).gh@.a && final(self).acc_in_use && !(res->Ok_0 is A)), //@ C01:condval-live-accumulator-kept
            (res is Ok && res->Ok_0 is A) ==> final(self).acc_in_use,
""" % {"name": name, "params": params, "want": want, "doc": "1 when the condition holds, 0 otherwise" if "!" not in want else "logical not: 0 when the operand is true, 1 otherwise"}


def candidates(f):
    out = []
    for a in (0, 1):
        for e in (0, 2):
            for expr, val in (("!a", int(not a)), ("(a && e)", int(bool(a and e))), ("(a || e)", int(bool(a or e))), ("(a < e)", int(a < e)), ("!(a == e)", int(a != e)), ("!e", int(not e))):
                out.append({"source": "unsigned char a, b, c, e;\nvoid main() { c = (b + 1) + %s; }\n" % expr, "args": ["-O0"], "expect": {"panic": False},
                            "simulate": {"init": {"a": a, "e": e, "b": 10}, "expect": {"c": 11 + val}, "stack_empty": True}, "note": "a=%d e=%d live accumulator" % (a, e)})
                out.append({"source": "unsigned char a, b, c, e;\nvoid main() { c = %s; }\n" % expr, "args": ["-O0"], "expect": {"panic": False},
                            "simulate": {"init": {"a": a, "e": e}, "expect": {"c": val}, "stack_empty": True}, "note": "a=%d e=%d" % (a, e)})
            out.append({"source": "unsigned char a, b, c, e;\nvoid main() { c = a ? e : 4; }\n", "args": ["-O0"], "expect": {"panic": False},
                        "simulate": {"init": {"a": a, "e": e}, "expect": {"c": e if a else 4}, "stack_empty": True}, "note": "ternary a=%d e=%d" % (a, e)})
            out.append({"source": "unsigned char a, b, c, e;\nvoid main() { c = (b + 1) + (a ? e : 4); }\n", "args": ["-O0"], "expect": {"panic": False},
                        "simulate": {"init": {"a": a, "e": e, "b": 10}, "expect": {"c": 11 + (e if a else 4)}, "stack_empty": True}, "note": "ternary, live accumulator a=%d e=%d" % (a, e)})
    out.append({"source": "unsigned char a, b, c, d, r;\nvoid main() { r = (a+b) + (!c + (d<<1)); }\n", "args": ["-O0"], "expect": {"panic": False},
                "simulate": {"init": {"a": 1, "b": 2, "c": 0, "d": 3}, "expect": {"r": 10}, "stack_empty": True}, "note": "!c parked in the scratch byte, then a shift that wants the scratch byte too (an error is fine, 15 is not)"})
    return out


def build(repo):
    u = Unit(NAME, TOOL, PROPS, ["src/generate/generate_conditions.rs: GeneratorState::generate_expr_cond", "src/generate/generate_arithm.rs: GeneratorState::generate_not", "src/generate/generate_conditions.rs: GeneratorState::generate_ternary"],
             assumptions=["generate_condition is a stub carrying the contract stated in TRUSTED; its precondition `accumulator not marked live` is an obligation of this unit",
                          "the truth value of the condition is an arbitrary boolean fixed for the run (ghost), i.e. the postconditions hold for both",
                          "generate_expr / generate_assign are stubs for generate_ternary: an evaluated operand denotes the expression's value; an assignment to the free accumulator puts the value there"])
    gc = SourceFile(repo, "src/generate/generate_conditions.rs")
    ga = SourceFile(repo, "src/generate/generate_arithm.rs")
    gm = SourceFile(repo, "src/generate/mod.rs")
    comp = SourceFile(repo, "src/compile.rs")
    asmf = SourceFile(repo, "src/assemble.rs")
    cuts, tys = [], []
    for sf, kind, name, structural in ((comp, "enum", "Operation", True), (asmf, "enum", "AsmMnemonic", True), (gm, "enum", "ExprType", False), (comp, "enum", "Expr", False)):
        c = sf.item(kind, name)
        common.r2(c, structural=structural)
        c.sub(r"pub\(crate\) enum", "pub enum", "R2-pub")
        if not structural:
            c.sub(r"#\[derive\(([^)]*)\)\]", "", "R2-derive (no derived impls needed)", expect=(0, 1))
        cuts.append(c)
        tys.append(c.text)
    parts = []
    fm = common.Fmt({"self.local_label_counter_if": ("int", None)})
    for sf, name, params, want, sig in ((gc, "generate_expr_cond", "expr: &Expr, pos: usize", "old(self).gh@.truth", "fn generate_expr_cond( &mut self, expr: &Expr, pos: usize, ) -> Result<ExprType, Error>"),
                                        (ga, "generate_not", "expr: &Expr, pos: usize", "!old(self).gh@.truth", "fn generate_not(&mut self, expr: &Expr, pos: usize) -> Result<ExprType, Error>")):
        f = sf.fn(name, within="GeneratorState")
        cuts.append(f)
        f.sub(r"(\w+_label)\.clone\(\)", r"string_clone(&\1)", "R11 String::clone -> shim", expect=(0, 8))
        fm.apply(f)
        f.set_header(_header(name, params, want), expect_sig=sig)
        f.body_start("        proof { axiom_imm01(); lemma_labels_differ(self.local_label_counter_if as int + 1); }")
        parts.append(f.text)
    # ---- generate_ternary
    t = gc.fn("generate_ternary", within="GeneratorState")
    cuts.append(t)
    t.sub(r"(\w+_label)\.clone\(\)", r"string_clone(&\1)", "R11 String::clone -> shim", expect=(0, 8))
    t.sub(r"\bla != ra\b", "exprtype_ne(&la, &ra)", "R3 derived PartialEq on ExprType -> shim (the result only selects an error)", expect=(0, 4))
    t.sub(r"if \*op == Operation::TernaryCond2 \{", "if (match *op { Operation::TernaryCond2 => true, _ => false }) {", "R3 `*op == V` -> match", expect=(0, 1))
    fm.apply(t)
    tbase = t.text
    for suffix, case in (("", "true"),):
        t.text = tbase
        t.set_header("""#[verifier::exec_allows_no_decreases_clause]
    pub(crate) fn generate_ternary%s(&mut self, condition: &Expr, alternatives: &Expr, pos: usize) -> (res: Result<ExprType, Error>)
        requires
            %s,
            old(self).gh@.skip is None,
            old(self).local_label_counter_if < 0xffff_fff0,
        ensures
            final(self).compiler_state == old(self).compiler_state,
            res is Ok ==> alternatives is BinOp,
            res is Ok ==> final(self).gh@.skip is None, //@ C01,C13:ternary-jumps-land
            // the value of `c ? x : y`
            res is Ok ==> val(final(self).gh@, res->Ok_0) == (if old(self).gh@.truth { sem(*alternatives->BinOp_lhs) } else { sem(*alternatives->BinOp_rhs) }), //@ C01,C10:ternary-value
            res is Ok ==> final(self).gh@.stack == old(self).gh@.stack, //@ C01:ternary-stack-balanced
            (res is Ok && old(self).acc_in_use) ==> (final(self).gh@.a == old(self).gh@.a && final(self).acc_in_use && res->Ok_0 is Tmp), //@ C01:ternary-live-accumulator-kept
""" % (suffix, case), expect_sig="fn generate_ternary( &mut self, condition: &Expr, alternatives: &Expr, pos: usize, ) -> Result<ExprType, Error>")
        t.body_start("        proof { lemma_labels_differ(self.local_label_counter_if as int + 1); }")
        parts.append(t.text)
    # generate_not folds a literal operand: `Expr::Integer(i) => if *i != 0 {0} else {1}`: the truth value of a literal is its being non-zero
    text = common.PRELUDE + common.header_comment(NAME, cuts) + "verus! {\n" + common.DEC_SPECS + (SPECS % {"types": "\n".join(tys)}) + common.STR_PREFIX_SHIM + fm.text() + \
        "impl<'a> GeneratorState<'a> {\n" + STUBS + "\n" + "\n".join(parts) + "\n}\n" + common.CANARY + "\n} // verus!\n"
    u.text[None] = text
    u.rewrites = common.collect_rewrites(cuts)
    u.dropped = ["R6 shim environment"]
    return u
