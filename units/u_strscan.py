"""U-strscan: the decision that ends a string literal in the scanner of cpp::process -- `ends_with_escape`, whole, verified in Verus against a spec written
from the property: a quote is escaped exactly when an odd number of backslashes stands before it (`\\\\"` ends the literal, `\\\\\\"` does not) (C09).
A required-pattern scan (emitted as literal asserts) ties the end-of-literal loop of process() to that function: the loop has one test on the text before a
quote and it is `ends_with_escape(left)`.  The loop itself (split_once, byte cursors) is not under contract: bounded group literal-extent of U-errs."""
import re
from vf.core import Unit
from vf.rustcut import SourceFile, while_let_to_loop, Undecided, mask
from . import common

NAME = "U-strscan"
TOOL = "verus"
PROPS = ["C09", "C16"]
RLIMIT = 50
TRUSTED = ["verus 0.2026.09.13 + z3", "A-vstd (str::chars / Chars::next prophetic iterator spec)"]

SPECS = """
// number of backslashes s ends with
pub open spec fn trailing_bs(s: Seq<char>) -> nat decreases s.len() {
    if s.len() == 0 || s.last() != '\\\\' { 0 } else { 1 + trailing_bs(s.drop_last()) }
}
// the property's reading of a literal's text: what follows s is escaped when the backslashes before it do not pair up
pub open spec fn escapes_next(s: Seq<char>) -> bool { trailing_bs(s) % 2 == 1 }
"""


def candidates(f):
    def lit(text, size, bytes_, note):
        return {"source": 'const char t[] = "%s"\n;\nvoid main() { X = t[0]; }\n' % text, "args": ["-O0"],
                "expect": {"panic": False, "must_compile": True, "stdout_contains": "ARRAY t size=%d = %s " % (size, " ".join(str(b) for b in bytes_))}, "note": note}
    return [lit('\\\\\\"//', 5, [92, 34, 47, 47, 0], "escaped backslash, escaped quote, comment marker"),
            lit('a\\\\\\"b', 5, [97, 92, 34, 98, 0], "escaped backslash then escaped quote"),
            lit('a\\\\', 3, [97, 92, 0], "escaped backslash ends the literal"),
            lit('a\\\\\\\\', 4, [97, 92, 92, 0], "two escaped backslashes end the literal"),
            lit('a\\"', 3, [97, 34, 0], "escaped quote"),
            lit('\\\\\\\\\\"/*', 6, [92, 92, 34, 47, 42, 0], "two escaped backslashes, escaped quote, comment start")]


def build(repo):
    u = Unit(NAME, TOOL, PROPS, ["src/cpp.rs: ends_with_escape", "src/cpp.rs: process() (end-of-literal loop: required-pattern scan)"],
             assumptions=["A-vstd: prophetic iterator specification of str::chars()", "termination of the loop over the characters is not proved (R9)",
                          "the end-of-literal loop of process() (split_once, byte cursors) is tied to ends_with_escape by a scan of its text only"])
    cpp = SourceFile(repo, "src/cpp.rs")
    q = cpp.fn("ends_with_escape")
    while_let_to_loop(q, 1, r"^while let Some\(c\) = i\.next\(\)$")
    q.set_header("""#[verifier::exec_allows_no_decreases_clause]
fn ends_with_escape(s: &str) -> (r: bool)
    ensures r == escapes_next(s@), //@ C09:quote-escaped-iff-odd-number-of-backslashes
""", expect_sig="fn ends_with_escape(s: &str) -> bool")
    q.after_stmt(r"let mut i = s\.chars\(\)", "    let ghost mut seen: Seq<char> = Seq::empty();", nth=1)
    q.loop_spec(1, r"^loop /\*@R10\*/$", """
        invariant_except_break seen + i.remaining() =~= s@, escape == escapes_next(seen), //@ C09:escape-state-tracks-the-backslash-run
            i.obeys_prophetic_iter_laws(),
        ensures escape == escapes_next(s@),
""")
    q.sub(r"\{ let __o = i\.next\(\);", "{\n        let ghost r0 = i.remaining();\n        let __o = i.next();", "hint-placement (ghost only)", expect=1)
    q.sub(r"Some\(c\) => \{", """Some(c) => {
            proof {
                assert(r0.subrange(1, r0.len() as int) =~= i.remaining());
                assert(seen.push(c).drop_last() =~= seen);
                assert(seen.push(c) + i.remaining() =~= s@);
                seen = seen.push(c);
            }""", "hint-placement (ghost only)", expect=1)
    q.sub(r"None => \{ break; \}", "None => { proof { assert(r0.len() == 0); assert(seen =~= s@); } break; }", "hint-placement (ghost only)", expect=1)
    # required-pattern scan of the end-of-literal loop of process()
    ps, pob, pcb = cpp.find_fn_span("process")
    m = mask(cpp.text)
    lp = re.compile(r"while !done \{").search(m, pob, pcb)
    if not lp:
        raise Undecided("process(): end-of-literal loop `while !done` not found")
    from vf.rustcut import match_brace
    le = match_brace(m, lp.end() - 1)
    loop_txt = cpp.text[lp.start():le + 1]
    loop_m = m[lp.start():le + 1]
    tests = re.findall(r"\bif\s+([^{]*?)\s*\{", loop_m)
    tests_on_left = [t for t in tests if re.search(r"\bleft\b", t) and "split_once" not in t]
    other_left_preds = len(re.findall(r"left\.(ends_with|starts_with|contains|trim\w*|strip\w*|chars|bytes)\b", loop_m))
    scan = """
// required-pattern scan of process()'s end-of-literal loop (lines %d..%d of src/cpp.rs): tests on the text before a quote: %r
proof fn scan_end_of_literal_loop() {
    assert(%s); //@ C09:end-of-literal-decided-by-ends-with-escape-alone
    assert(%s); //@ C09:end-of-literal-found-only-when-not-escaped
}
""" % (cpp.text.count("\n", 0, lp.start()) + 1, cpp.text.count("\n", 0, le) + 1, tests_on_left,
       "true" if (tests_on_left == ["!ends_with_escape(left)"] and other_left_preds == 0) else "false",
       "true" if re.search(r"if !ends_with_escape\(left\) \{\s*found = true;\s*done = true;\s*cursor \+= left\.len\(\);\s*\} else \{\s*(?://[^\n]*\n\s*)*cursor \+= left\.len\(\) \+ 1;\s*\}", loop_txt) and len(re.findall(r"found = true", loop_m)) == 1 else "false")
    u.text[None] = common.PRELUDE + common.header_comment(NAME, [q]) + "verus! {\n" + SPECS + q.text + "\n" + scan + common.CANARY + "\n} // verus!\n"
    u.rewrites = common.collect_rewrites([q])
    u.dropped = ["R10: while-let desugared to loop/match (Rust reference definition)", "process() itself: only the text of its end-of-literal loop is scanned"]
    return u
