"""U-compoundarm: the compound-assignment arm of generate_expr (`+= -= &= |= ^= *= /=`, R8 window), verified in Verus against stubs that record the byte passes:
the operation and the store are made once on the byte asked for and, when the destination is 16 bits wide (a short, a pointer, an element of an array of
shorts or of pointers, whatever designates it: constant index, X or Y), once more on the high byte, both sides being revisited as `second_time` (C01, C15)."""
import re
from vf.core import Unit
from vf.rustcut import SourceFile, Undecided, mask, match_brace
from . import common

NAME = "U-compoundarm"
TOOL = "verus"
PROPS = ["C01", "C15", "C16"]
RLIMIT = 200
TRUSTED = ["verus 0.2026.09.13 + z3", "generate_expr, generate_arithm, generate_assign, get_variable are stubs that record the byte passes (their own texts: U-arithm, U-assign, U-subscript)"]

SPECS = """
pub struct Error { pub e: u8 }
%(types)s
%(variable_shim)s
pub struct CompilerState { pub x: u8 }
pub uninterp spec fn var_of(cs: &CompilerState, name: Seq<char>) -> Variable;
impl CompilerState {
    #[verifier::external_body] pub fn syntax_error(&self, message: &str, loc: usize) -> Error { unimplemented!() }
    #[verifier::external_body] pub fn get_variable(&self, name: &str) -> (r: &Variable) ensures *r == var_of(self, name@) { unimplemented!() }
}
pub struct Visit { pub e: Expr, pub high: bool, pub second_time: bool }
pub struct G {
    pub ops: Seq<(ExprType, ExprType, bool)>,      // generate_arithm calls: (left, right, high byte)
    pub stores: Seq<(ExprType, bool)>,             // generate_assign calls: (destination, high byte)
    pub visits: Seq<Visit>,                        // generate_expr calls
}
pub uninterp spec fn operand_of(e: Expr, high: bool) -> ExprType;
pub struct GeneratorState<'a> { pub compiler_state: &'a CompilerState, pub gh: Ghost<G> }
// a destination of 16 bits (same notion as U-assignarm)
pub open spec fn wide(cs: &CompilerState, left: ExprType) -> bool {
    match left {
        ExprType::Absolute(_, eight_bits, _) => !eight_bits,
        ExprType::AbsoluteX(v) => var_of(cs, v@).var_type == VariableType::ShortPtr || var_of(cs, v@).var_type == VariableType::CharPtrPtr,
        ExprType::AbsoluteY(v) => var_of(cs, v@).var_type == VariableType::ShortPtr || var_of(cs, v@).var_type == VariableType::CharPtrPtr,
        _ => false,
    }
}
// what the element-access arm of generate_expr returns (U-subscript: plain-variable-width, constant-index-operand): a direct operand is flagged 8 bits wide exactly for a
// char variable and for an element of an array of chars
pub open spec fn width_flag_sound(cs: &CompilerState, left: ExprType) -> bool {
    match left {
        ExprType::Absolute(v, eight_bits, _) => (var_of(cs, v@).var_type == VariableType::Char ==> eight_bits)
            && ((var_of(cs, v@).var_type == VariableType::Short || var_of(cs, v@).var_type == VariableType::ShortPtr || var_of(cs, v@).var_type == VariableType::CharPtrPtr) ==> !eight_bits),
        _ => true,
    }
}
"""

STUBS = """
    #[verifier::external_body]
    pub(crate) fn generate_expr(&mut self, expr: &Expr, pos: usize, high_byte: bool, second_time: bool) -> (res: Result<ExprType, Error>)
        ensures final(self).compiler_state == old(self).compiler_state,
            res is Ok ==> res->Ok_0 == operand_of(*expr, high_byte),
            res is Ok ==> final(self).gh@ == (G { visits: old(self).gh@.visits.push(Visit { e: *expr, high: high_byte, second_time }), ..old(self).gh@ }),
    { unimplemented!() }
    #[verifier::external_body]
    pub(crate) fn generate_arithm(&mut self, l: &ExprType, op: &Operation, r: &ExprType, pos: usize, high_byte: bool) -> (res: Result<ExprType, Error>)
        ensures final(self).compiler_state == old(self).compiler_state,
            res is Ok ==> final(self).gh@ == (G { ops: old(self).gh@.ops.push((*l, *r, high_byte)), ..old(self).gh@ }),
    { unimplemented!() }
    #[verifier::external_body]
    pub(crate) fn generate_assign(&mut self, left: &ExprType, right: &ExprType, pos: usize, high_byte: bool) -> (res: Result<ExprType, Error>)
        ensures final(self).compiler_state == old(self).compiler_state,
            final(self).gh@ == (G { stores: old(self).gh@.stores.push((*left, high_byte)), ..old(self).gh@ }),
    { unimplemented!() }
"""

HEADER = """    fn arm_compound(&mut self, lhs: &Box<Expr>, op: &Operation, rhs: &Box<Expr>, pos: usize, high_byte: bool) -> (res: Result<ExprType, Error>)
        requires
            old(self).gh@.ops.len() == 0, old(self).gh@.stores.len() == 0, old(self).gh@.visits.len() == 0,
            width_flag_sound(old(self).compiler_state, operand_of(**lhs, high_byte)),
        ensures
            final(self).compiler_state == old(self).compiler_state,
            // every byte of the destination is operated on and stored once: the byte asked for, then the high byte when the destination is 16 bits wide
            res is Ok ==> ({ let l0 = operand_of(**lhs, high_byte); let cs = old(self).compiler_state;
                if !high_byte && wide(cs, l0) {
                    final(self).gh@.stores =~= seq![(l0, false), (operand_of(**lhs, true), true)]
                    && final(self).gh@.ops =~= seq![(l0, operand_of(**rhs, false), false), (operand_of(**lhs, true), operand_of(**rhs, true), true)]
                } else {
                    final(self).gh@.stores =~= seq![(l0, high_byte)] && final(self).gh@.ops =~= seq![(l0, operand_of(**rhs, high_byte), high_byte)]
                } }), //@ C01,C15:compound-updates-every-byte-of-the-destination-once
            res is Ok ==> forall|i: int| 2 <= i < final(self).gh@.visits.len() ==> (#[trigger] final(self).gh@.visits[i]).second_time && final(self).gh@.visits[i].high, //@ C01,C15,C18:compound-second-visit-is-second-time
    {
        %(arm)s
    }
"""


def candidates(f):
    """compound assignments on 16-bit destinations in their designations"""
    out = []
    def prog(decl, body, sim, note=""):
        out.append({"source": "%s\nvoid main() { %s }\n" % (decl, body), "args": ["-O0"], "expect": {"panic": False}, "simulate": dict(sim, stack_empty=True), "note": note})
    for idx, pre in (("1", ""), ("X", "X = 1; "), ("Y", "Y = 1; ")):
        prog("char *pp[2];", pre + "pp[%s] += 1;" % idx, {"init_addr": {"pp+1": 0xff, "pp+3": 0x10}, "expect": {"pp+1": 0, "pp+3": 0x11}}, "array of pointers, index %s" % idx)
        prog("short t[2];", pre + "t[%s] += 1;" % idx, {"init_addr": {"t+1": 0xff, "t+3": 0x10}, "expect": {"t+1": 0, "t+3": 0x11}}, "array of shorts, index %s" % idx)
        prog("short t[2];", pre + "t[%s] -= 1;" % idx, {"init_addr": {"t+1": 0x00, "t+3": 0x10}, "expect": {"t+1": 0xff, "t+3": 0x0f}}, "array of shorts, -=, index %s" % idx)
        prog("unsigned char c[2];", pre + "c[%s] += 1;" % idx, {"init_addr": {"c+1": 0xff}, "expect": {"c+1": 0, "c+0": 0}}, "array of chars, index %s" % idx)
    prog("short s;", "s += 1;", {"init16": {"s": 0x10ff}, "expect16": {"s": 0x1100}}, "short")
    prog("char *p;", "p += 1;", {"init16": {"p": 0x10ff}, "expect16": {"p": 0x1100}}, "pointer")
    return out


def cut_arm(sf, fn_span):
    s0, ob0, cb0 = fn_span
    m = mask(sf.text)
    k = re.compile(r"Operation::Add\(true\)(?:\s*\|\s*Operation::\w+\(true\))+\s*=>\s*\{").search(m, ob0, cb0)
    if not k:
        raise Undecided("generate_expr has no `Operation::Add(true) | ... => {` arm")
    pat = sf.text[k.start():k.end()]
    for need in ("Sub(true)", "And(true)", "Or(true)", "Xor(true)"):
        if need not in pat:
            raise Undecided("the compound-assignment arm of generate_expr no longer lists Operation::%s" % need)
    a = k.end() - 1
    b = match_brace(m, a)
    return sf.cut_span(a, b + 1, "generate_expr(): Expr::BinOp, arm `Operation::Add(true) | .. => { .. }` (R8)")


def build(repo):
    u = Unit(NAME, TOOL, PROPS, ["src/generate/generate_statements.rs: GeneratorState::generate_expr, case Expr::BinOp, compound-assignment arm (R8)"],
             assumptions=["callees are stubs (TRUSTED)", "the width flag of a direct operand is what U-subscript proves about the arm that produces it (precondition width_flag_sound)",
                          "that the high-byte operation continues the low-byte one through the carry is U-arithm's subject; the composition of the two passes (a constant folded in the high pass) is the known finding add16-register-constant"])
    gs = SourceFile(repo, "src/generate/generate_statements.rs")
    gm = SourceFile(repo, "src/generate/mod.rs")
    comp = SourceFile(repo, "src/compile.rs")
    arm = cut_arm(gs, gs.find_fn_span("generate_expr"))
    cuts, tys = [arm], []
    for sf, kind, name, structural in ((comp, "enum", "Operation", True), (comp, "enum", "VariableType", True), (gm, "enum", "ExprType", False), (comp, "enum", "Expr", False)):
        c = sf.item(kind, name)
        common.r2(c, structural=structural)
        c.sub(r"pub\(crate\) enum", "pub enum", "R2-pub")
        if not structural:
            c.sub(r"#\[derive\(([^)]*)\)\]", "", "R2-derive (no derived impls needed)", expect=(0, 1))
        cuts.append(c)
        tys.append(c.text)
    vc = comp.item("struct", "Variable")
    cuts.append(vc)
    fields = re.findall(r"^\s*(?:pub(?:\([^)]*\))?\s+)?(\w+)\s*:\s*(bool|VariableType)\s*,", vc.text, re.M)
    if "var_type" not in [a for a, _ in fields]:
        raise Undecided("struct Variable no longer declares var_type")
    vshim = "pub struct Variable { %s }" % ", ".join("pub %s: %s" % x for x in fields)
    arm.sub(r"\A[^{]*=>\s*(?=\{)", "", "R8 the arm's pattern (last line of it)", expect=(0, 1), flags=0)
    arm.sub(r"get_variable\(&variable\)", "get_variable(variable.as_str())", "R3 explicit &String -> &str", expect=(0, 4))
    text = common.PRELUDE + common.header_comment(NAME, cuts) + "verus! {\n" + (SPECS % {"types": "\n".join(tys), "variable_shim": vshim}) + \
        "impl<'a> GeneratorState<'a> {\n" + STUBS + (HEADER % {"arm": arm.text}) + "\n}\n" + common.CANARY + "\n} // verus!\n"
    u.text[None] = text
    u.rewrites = common.collect_rewrites(cuts)
    u.dropped = ["R6 shim environment", "the other arms of generate_expr"]
    return u
