"""Deterministic program generator for the bounded corpus (U-sim): small C programs over chars, the X / Y registers, an array of chars, an array of shorts, shorts,
calls, ternaries, switches and loops, together with an evaluator of cc6502's arithmetic model (8-bit operations on chars wrap at 8 bits; an operation with a short
operand is 16-bit; constant-only sub-expressions are not generated because the compiler folds them with 32-bit int arithmetic, as C does).  Fixed seeds: the corpus
is the same on every run.  Patterns covered by known findings (comparisons with the constant 0, two Y-dependent operands, deferred ++ in conditions, 16-bit shifts)
are not generated."""
import random

# AST: expressions are tuples; every expression has a width (8 or 16) following cc6502's model: chars are 8-bit, an operation involving a short is 16-bit
C8 = ["a", "b", "c", "d"]
R8 = ["X", "Y"]
S16 = ["s", "t"]
ARR = "m"      # unsigned char m[4]
K8 = [1, 2, 3, 7, 8, 15, 16, 100, 127, 128, 200, 255]
K16 = [256, 300, 1000, 0x1234, 0x7fff, 0x8000, 0xff00]

class Gen:
    def __init__(self, rnd, feats):
        self.r = rnd; self.f = feats
    def has_var(self, e):
        if e[0] in ("var", "var16", "idx", "call"): return True
        return any(self.has_var(x) for x in e[1:] if isinstance(x, tuple))
    def e8(self, d):
        # constant-only sub-expressions are folded by the compiler with 32-bit int arithmetic (as C does): they are not generated, the evaluator models 8-bit run-time arithmetic
        for _ in range(20):
            e = self.e8x(d)
            if d == 0 or self.all_ops_have_var(e): return e
        return ("var", self.r.choice(C8))
    def all_ops_have_var(self, e):
        if e[0] in ("un", "sh"): return self.has_var(e[2]) and self.all_ops_have_var(e[2])
        if e[0] in ("bin", "bin16"): return (self.has_var(e[2]) or self.has_var(e[3])) and self.all_ops_have_var(e[2]) and self.all_ops_have_var(e[3]) and not (e[2][0] in ("k", "k16") and e[3][0] in ("k", "k16"))
        if e[0] == "tern": return self.all_ops_have_var(e[2]) and self.all_ops_have_var(e[3])
        if e[0] == "call": return self.all_ops_have_var(e[2])
        return True
    def e8x(self, d):
        r = self.r
        if d == 0 or r.random() < 0.3:
            x = r.random()
            if x < 0.5: return ("var", r.choice(C8))
            if x < 0.65: return ("var", r.choice(R8))
            if x < 0.75 and "arr" in self.f: return ("idx", ARR, r.choice([("k", r.randint(0, 3)), ("var", "X"), ("var", "Y")] + ([("bin", "&", ("var", r.choice(C8)), ("k", 3)), ("bin", "&", ("bin", "+", ("var", r.choice(C8)), ("k", 1)), ("k", 3))] if "idxexpr" in self.f else [])))
            return ("k", r.choice(K8))
        x = r.random()
        if x < 0.1 and "call" in self.f: return ("call", r.choice(["f1", "f2"]), self.e8(d - 1))
        if x < 0.18 and "tern" in self.f: return ("tern", self.cond(), self.e8(d - 1), self.e8(d - 1))
        if x < 0.25: return ("un", r.choice(["~", "-"]), self.e8(d - 1))
        op = r.choice(["+", "-", "&", "|", "^", "<<", ">>"])
        if op in ("<<", ">>"): return ("sh", op, self.e8(d - 1), r.choice([1, 2, 3, 7]))
        return ("bin", op, self.e8(d - 1), self.e8(d - 1))
    def e16(self, d):
        r = self.r
        if d == 0 or r.random() < 0.35:
            x = r.random()
            if x < 0.6: return ("var16", r.choice(S16))
            return ("k16", r.choice(K16))
        op = r.choice(["+", "-", "&", "|", "^"])
        l = self.e16(d - 1)
        rgt = self.e16(d - 1) if r.random() < 0.5 else (("var", r.choice(C8)) if r.random() < 0.5 else ("k", r.choice(K8)))
        return ("bin16", op, l, rgt)
    def cond(self):
        r = self.r
        op = r.choice(["==", "!=", "<", "<=", ">", ">="])
        left = ("var", r.choice(C8 + R8))
        right = ("var", r.choice(C8 + R8)) if r.random() < 0.5 else ("k", r.choice(K8))
        c = ("cmp", op, left, right)
        x = r.random()
        if x < 0.15: return ("land", c, ("cmp", r.choice(["==", "!="]), ("var", r.choice(C8)), ("k", r.choice(K8))))
        if x < 0.3: return ("lor", c, ("cmp", r.choice(["==", "!="]), ("var", r.choice(C8)), ("k", r.choice(K8))))
        if x < 0.4: return ("not", c)
        if x < 0.5 and "s16" in self.f: return ("cmp16", r.choice(["==", "!="]), ("var16", r.choice(S16)), ("k16", r.choice(K16)))
        return c
    def stmt(self, d, loopvar=None):
        r = self.r
        x = r.random()
        if x < 0.3: return ("asg", r.choice(C8 + R8), self.e8(2))
        if x < 0.4: return ("casg", r.choice(C8 + R8), r.choice(["+", "-", "&", "|", "^"]), self.e8(1))
        if x < 0.47: return ("inc", r.choice(C8 + R8), r.choice(["++", "--"]))
        if x < 0.50 and "arr2" in self.f:
            ix = r.choice([("k", r.randint(0, 3)), ("var", "X"), ("var", "Y"), ("bin", "&", ("var", r.choice(C8)), ("k", 3))])
            return r.choice([("casgidx", ARR, ix, r.choice(["+", "-", "&", "|", "^"]), self.e8(1)), ("incidx", ARR, ix, r.choice(["++", "--"]))])
        if x < 0.53 and "w16" in self.f:
            ix = r.choice([("k", r.randint(0, 1)), ("var", "X")])
            return r.choice([("asgw", ix, self.e16(1)), ("incw", ix, r.choice(["++", "--"])), ("casgw", ix, r.choice(["+", "-"]), self.e16(0)), ("asg16", r.choice(S16), ("idxw", ix))])
        if x < 0.55 and "arr" in self.f: return ("asgidx", ARR, r.choice([("k", r.randint(0, 3)), ("var", "X")] + ([("bin", "&", ("var", r.choice(C8)), ("k", 3)), ("var", "Y")] if "idxexpr" in self.f else [])), self.e8(1))
        if x < 0.65 and "s16" in self.f: return ("asg16", r.choice(S16), self.e16(2))
        if x < 0.7 and "s16" in self.f: return ("casg16", r.choice(S16), r.choice(["+", "-"]), self.e16(0) if r.random() < 0.5 else ("k", r.choice(K8)))
        if x < 0.73 and "s16" in self.f: return ("inc16", r.choice(S16), r.choice(["++", "--"]))
        if d > 0 and x < 0.85: return ("if", self.cond(), self.block(d - 1), self.block(d - 1) if r.random() < 0.5 else None)
        if d > 0 and x < 0.92: return ("for", "i" if d == 2 else "j", r.choice([1, 2, 3]), self.block(d - 1))
        if d > 0 and x < 0.945 and "loops" in self.f:
            k = "i" if d == 2 else "j"
            n = r.choice([1, 2, 3])
            return r.choice([("while", k, n, self.block(d - 1)), ("dowhile", k, n, self.block(d - 1))])
        if d > 0 and x < 0.97 and "sw" in self.f:
            ks = r.sample([1, 2, 3, 7, 100, 255], 2)
            return ("switch", ("var", r.choice(C8)), [(ks[0], self.block(0), r.random() < 0.7), (ks[1], self.block(0), True)], self.block(0) if r.random() < 0.5 else None)
        return ("asg", r.choice(C8), self.e8(1))
    def block(self, d):
        return [self.stmt(d) for _ in range(self.r.randint(1, 3))]

def show_e(e):
    k = e[0]
    if k in ("var", "var16"): return e[1]
    if k in ("k", "k16"): return str(e[1])
    if k == "idx": return "%s[%s]" % (e[1], show_e(e[2]))
    if k == "idxw": return "w[%s]" % show_e(e[1])
    if k == "call": return "%s(%s)" % (e[1], show_e(e[2]))
    if k == "tern": return "(%s ? %s : %s)" % (show_c(e[1]), show_e(e[2]), show_e(e[3]))
    if k == "un": return "(%s%s)" % (e[1], show_e(e[2]))
    if k == "sh": return "(%s %s %d)" % (show_e(e[2]), e[1], e[3])
    if k in ("bin", "bin16"): return "(%s %s %s)" % (show_e(e[2]), e[1], show_e(e[3]))
def show_c(c):
    k = c[0]
    if k in ("cmp", "cmp16"): return "%s %s %s" % (show_e(c[2]), c[1], show_e(c[3]))
    if k == "land": return "(%s) && (%s)" % (show_c(c[1]), show_c(c[2]))
    if k == "lor": return "(%s) || (%s)" % (show_c(c[1]), show_c(c[2]))
    if k == "not": return "!(%s)" % show_c(c[1])
def show_s(s):
    k = s[0]
    if k in ("asg", "asg16"): return "%s = %s;" % (s[1], show_e(s[2]))
    if k in ("casg", "casg16"): return "%s %s= %s;" % (s[1], s[2], show_e(s[3]))
    if k in ("inc", "inc16"): return "%s%s;" % (s[1], s[2])
    if k == "asgidx": return "%s[%s] = %s;" % (s[1], show_e(s[2]), show_e(s[3]))
    if k == "casgidx": return "%s[%s] %s= %s;" % (s[1], show_e(s[2]), s[3], show_e(s[4]))
    if k == "incidx": return "%s[%s]%s;" % (s[1], show_e(s[2]), s[3])
    if k == "asgw": return "w[%s] = %s;" % (show_e(s[1]), show_e(s[2]))
    if k == "incw": return "w[%s]%s;" % (show_e(s[1]), s[2])
    if k == "casgw": return "w[%s] %s= %s;" % (show_e(s[1]), s[2], show_e(s[3]))
    if k == "while": return "%s = 0; while (%s < %d) { %s %s++; }" % (s[1], s[1], s[2], show_b(s[3]), s[1])
    if k == "dowhile": return "%s = 0; do { %s %s++; } while (%s != %d);" % (s[1], show_b(s[3]), s[1], s[1], s[2])
    if k == "if": return "if (%s) { %s }%s" % (show_c(s[1]), show_b(s[2]), (" else { %s }" % show_b(s[3])) if s[3] is not None else "")
    if k == "for": return "for (%s = 0; %s != %d; %s++) { %s }" % (s[1], s[1], s[2], s[1], show_b(s[3]))
    if k == "switch":
        t = "switch (%s) { " % show_e(s[1])
        for kv, blk, brk in s[2]:
            t += "case %d: %s %s" % (kv, show_b(blk), "break; " if brk else "")
        if s[3] is not None: t += "default: %s " % show_b(s[3])
        return t + "}"
def show_b(b): return " ".join(show_s(x) for x in b)

# ---- evaluator: cc6502's arithmetic model -- 8-bit operations on chars wrap at 8 bits, an operation with a short operand is 16-bit (chars zero-extended)
class Ev:
    def __init__(self, env): self.v = dict(env)
    def e(self, e):
        k = e[0]
        if k == "var": return self.v[e[1]] & 255
        if k == "k": return e[1] & 255
        if k == "var16": return self.v[e[1]] & 0xffff
        if k == "k16": return e[1] & 0xffff
        if k == "idxw":
            i = self.e(e[1])
            if i >= 2: raise IndexError
            return self.v["w"][i]
        if k == "idx": return self.v["m"][self.e(e[2]) & 3] if (self.e(e[2]) < 4) else None
        if k == "call":
            a = self.e(e[2])
            return ((a + 1) & 255) if e[1] == "f1" else ((a ^ 0x55) & 255)
        if k == "tern": return self.e(e[2]) if self.c(e[1]) else self.e(e[3])
        if k == "un":
            x = self.e(e[2]); return ((~x) if e[1] == "~" else (-x)) & 255
        if k == "sh":
            x = self.e(e[2]); return ((x << e[3]) if e[1] == "<<" else (x >> e[3])) & 255
        if k == "bin":
            a, b = self.e(e[2]), self.e(e[3]); return self.op(e[1], a, b) & 255
        if k == "bin16":
            a, b = self.e(e[2]), self.e(e[3]); return self.op(e[1], a, b) & 0xffff
    def op(self, o, a, b):
        return {"+": a + b, "-": a - b, "&": a & b, "|": a | b, "^": a ^ b}[o]
    def c(self, c):
        k = c[0]
        if k in ("cmp", "cmp16"):
            a, b = self.e(c[2]), self.e(c[3])
            return {"==": a == b, "!=": a != b, "<": a < b, "<=": a <= b, ">": a > b, ">=": a >= b}[c[1]]
        if k == "land": return self.c(c[1]) and self.c(c[2])
        if k == "lor": return self.c(c[1]) or self.c(c[2])
        if k == "not": return not self.c(c[1])
    def s(self, s):
        k = s[0]; v = self.v
        if k == "asg": v[s[1]] = self.e(s[2]) & 255
        elif k == "asg16": v[s[1]] = self.e(s[2]) & 0xffff
        elif k == "casg": v[s[1]] = self.op(s[2], v[s[1]], self.e(s[3])) & 255
        elif k == "casg16": v[s[1]] = self.op(s[2], v[s[1]], self.e(s[3])) & 0xffff
        elif k == "inc": v[s[1]] = (v[s[1]] + (1 if s[2] == "++" else -1)) & 255
        elif k == "inc16": v[s[1]] = (v[s[1]] + (1 if s[2] == "++" else -1)) & 0xffff
        elif k == "asgidx":
            i = self.e(s[2])
            if i >= 4: raise IndexError
            v["m"][i] = self.e(s[3]) & 255
        elif k == "casgidx":
            i = self.e(s[2])
            if i >= 4: raise IndexError
            v["m"][i] = self.op(s[3], v["m"][i], self.e(s[4])) & 255
        elif k == "incidx":
            i = self.e(s[2])
            if i >= 4: raise IndexError
            v["m"][i] = (v["m"][i] + (1 if s[3] == "++" else -1)) & 255
        elif k in ("asgw", "incw", "casgw"):
            i = self.e(s[1])
            if i >= 2: raise IndexError
            if k == "asgw": v["w"][i] = self.e(s[2]) & 0xffff
            elif k == "incw": v["w"][i] = (v["w"][i] + (1 if s[2] == "++" else -1)) & 0xffff
            else: v["w"][i] = self.op(s[2], v["w"][i], self.e(s[3])) & 0xffff
        elif k in ("while", "dowhile"):
            v[s[1]] = 0; n = 0
            while True:
                if k == "while" and not (v[s[1]] < s[2]): break
                self.b(s[3]); v[s[1]] = (v[s[1]] + 1) & 255
                n += 1
                if n > 300: raise RuntimeError("loop")
                if k == "dowhile" and not (v[s[1]] != s[2]): break
        elif k == "if":
            if self.c(s[1]): self.b(s[2])
            elif s[3] is not None: self.b(s[3])
        elif k == "for":
            v[s[1]] = 0
            n = 0
            while v[s[1]] != s[2]:
                self.b(s[3]); v[s[1]] = (v[s[1]] + 1) & 255
                n += 1
                if n > 300: raise RuntimeError("loop")
        elif k == "switch":
            x = self.e(s[1]); run = False; done = False
            for kv, blk, brk in s[2]:
                if run or x == kv:
                    run = True; self.b(blk)
                    if brk: done = True; break
            if not done and (run or not any(x == kv for kv, _, _ in s[2])) and s[3] is not None:
                self.b(s[3])
    def b(self, b):
        for x in b: self.s(x)



DECL = ("unsigned char a, b, c, d, i, j, rx, ry; unsigned char m[4]; short s, t; short w[2];\n"
        "unsigned char f1(unsigned char p) { return p + 1; }\nunsigned char f2(unsigned char p) { return p ^ 0x55; }")


def programs(seed0, n, feats):
    """[(source, simulate dict, note)] for the seeds seed0 .. seed0+n-1 whose evaluation is defined (no out-of-range index, no runaway loop)"""
    out = []
    for seed in range(seed0, seed0 + n):
        rnd = random.Random(seed)
        g = Gen(rnd, feats)
        body = g.block(2)
        env = {"a": rnd.choice([0, 1, 5, 127, 128, 200, 255]), "b": rnd.choice([0, 1, 3, 100, 255]), "c": rnd.choice([0, 2, 128]), "d": rnd.choice([0, 7, 250]),
               "X": rnd.choice([0, 1, 2, 3]), "Y": rnd.choice([0, 1, 2, 3]), "i": 0, "j": 0, "s": rnd.choice([0, 255, 256, 0x12ff, 0xffff]), "t": rnd.choice([1, 0x00ff, 0x8000]),
               "m": [rnd.randint(0, 255) for _ in range(4)], "w": [rnd.choice([0, 0x00ff, 0x12ff, 0xffff, 0x8000]) for _ in range(2)]}
        ev = Ev({k: (list(v) if isinstance(v, list) else v) for k, v in env.items()})
        try:
            ev.b(body)
        except (IndexError, RuntimeError, TypeError):
            continue
        want = ev.v
        exp = {k: want[k] for k in ("a", "b", "c", "d")}
        exp["rx"] = want["X"]; exp["ry"] = want["Y"]
        for q in range(4):
            exp["m+%d" % q] = want["m"][q]
        for q in range(2):
            exp["w+%d" % q] = want["w"][q] & 255; exp["w+%d" % (q + 2)] = want["w"][q] >> 8
        init_addr = dict([("m+%d" % q, env["m"][q]) for q in range(4)] + [("w+%d" % q, env["w"][q] & 255) for q in range(2)] + [("w+%d" % (q + 2), env["w"][q] >> 8) for q in range(2)])
        sim = {"init": {k: env[k] for k in ("a", "b", "c", "d")}, "init16": {"s": env["s"], "t": env["t"]}, "init_addr": init_addr, "x": env["X"], "y": env["Y"],
               "expect": exp, "expect16": {"s": want["s"], "t": want["t"]}}
        out.append((DECL, show_b(body) + " rx = X; ry = Y;", sim, "generated program, seed %d" % seed))
    return out
