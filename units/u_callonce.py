"""U-callonce: the `Expr::FunctionCall` arm of generate_expr (R8 window), verified in Verus against a counting stub of generate_function_call: an
expression that calls a function emits the call exactly once per evaluation -- in the low-byte pass -- and never again when the same expression is
visited for the high byte of a 16-bit context (`short s = f();`, `s += f();`); there the value contributed is the high byte of a char result, 0,
and a signed result (whose high byte would need the value again) is rejected (C01, C18: a strobe / load / store inside the callee executes once)."""
import re
from vf.core import Unit
from vf.rustcut import SourceFile, Undecided, mask, match_brace
from . import common

NAME = "U-callonce"
TOOL = "verus"
PROPS = ["C01", "C18", "C16"]
RLIMIT = 100
TRUSTED = ["verus 0.2026.09.13 + z3", "A-vstd (HashMap get)", "A-spec-hash-str (String as hash key)",
           "generate_function_call is a counting stub (its own text: U-call for the call-tree block; parameter passing and return-value handling are not under contract)"]

SPECS = """
use vstd::std_specs::hash::*;
use std::collections::HashMap;
#[verifier::external_body]
pub proof fn axiom_string_key_model() ensures obeys_key_model::<String>() {}
pub struct Error { pub e: u8 }
%(types)s
// R6 shim of Function: the fields of plain type and the return type, mechanically from the real declaration
%(function_shim)s
pub struct CompilerState { pub functions: HashMap<String, Function> }
impl CompilerState { #[verifier::external_body] pub fn syntax_error(&self, message: &str, loc: usize) -> Error { unimplemented!() } }
pub struct GeneratorState<'a> {
    pub compiler_state: &'a CompilerState,
    pub calls: Ghost<int>,       // number of calls emitted so far
}
// the callee named by a call expression, when it is a declared function
pub open spec fn callee(cs: &CompilerState, e: Expr) -> Option<Function> {
    match e { Expr::Identifier(var, sub) => if cs.functions@.contains_key(var) { Some(cs.functions@[var]) } else { None }, _ => None }
}
"""

STUBS = """
    #[verifier::external_body]
    fn generate_function_call(&mut self, expr: &Expr, params: &Expr, pos: usize) -> (res: Result<ExprType, Error>)
        ensures final(self).compiler_state == old(self).compiler_state,
            res is Ok ==> final(self).calls@ == old(self).calls@ + 1,
    { unimplemented!() }
"""

HEADER = """    fn arm_function_call(&mut self, expr: &Box<Expr>, params: &Box<Expr>, pos: usize, high_byte: bool) -> (res: Result<ExprType, Error>)
        ensures final(self).compiler_state == old(self).compiler_state,
            (res is Ok && !high_byte) ==> final(self).calls@ == old(self).calls@ + 1, //@ C01,C18:call-emitted-in-the-low-byte-pass
            (res is Ok && high_byte) ==> final(self).calls@ == old(self).calls@, //@ C01,C18:call-not-repeated-for-the-high-byte
            // the high byte of a char result: zero; a signed result cannot be widened without the value and is rejected
            (res is Ok && high_byte) ==> res->Ok_0 == ExprType::Immediate(0) && ({ let f = callee(old(self).compiler_state, **expr);
                f is Some && f->Some_0.return_type is Some ==> !f->Some_0.return_signed }), //@ C01:high-byte-of-a-char-result-is-zero-or-rejected
    {
        proof { axiom_string_key_model(); }
        %(arm)s
    }
"""


def candidates(f):
    """a function result in 16-bit contexts: the callee counts its calls"""
    out = []
    def prog(decl, body, sim, note="", expect=None):
        out.append({"source": "%s\nvoid main() { %s }\n" % (decl, body), "args": ["-O0"], "expect": expect or {"panic": False}, "simulate": dict(sim, stack_empty=True), "note": note})
    fdecl = "unsigned char n; short s; unsigned char f() { n++; return %d; }"
    for v in (5, 200):
        prog(fdecl % v, "n = 0; s = f();", {"expect": {"n": 1}, "expect16": {"s": v}}, "s = f() returns %d" % v)
        prog(fdecl % v, "n = 0; s = 1000; s += f();", {"expect": {"n": 1}, "expect16": {"s": 1000 + v}}, "s += f() returns %d" % v)
        prog(fdecl % v + " unsigned char c;", "n = 0; c = f();", {"expect": {"n": 1, "c": v}}, "c = f() returns %d" % v)
        prog(fdecl % v + " short t[2];", "n = 0; X = 1; t[X] = f();", {"expect": {"n": 1, "t+1": v, "t+3": 0}}, "t[X] = f() returns %d (an array of shorts keeps its low bytes first, then its high bytes)" % v)
    return out


def cut_arm(sf, fn_span):
    """the text of the `Expr::FunctionCall(expr, params) => ...` arm of generate_expr: a block, or an expression up to the arm's comma"""
    s0, ob0, cb0 = fn_span
    m = mask(sf.text)
    k = re.compile(r"Expr::FunctionCall\(expr, params\)\s*=>\s*").search(m, ob0, cb0)
    if not k:
        raise Undecided("generate_expr has no `Expr::FunctionCall(expr, params) =>` arm")
    if re.compile(r"Expr::FunctionCall\(").search(m, k.end(), cb0):
        raise Undecided("generate_expr has more than one arm for Expr::FunctionCall")
    a = k.end()
    if m[a] == "{":
        b = match_brace(m, a) + 1
    else:
        depth, b = 0, a
        while b < cb0:
            ch = m[b]
            if ch in "([{":
                depth += 1
            elif ch in ")]}":
                depth -= 1
            elif ch == "," and depth == 0:
                break
            b += 1
    return sf.cut_span(a, b, "generate_expr(): the Expr::FunctionCall arm (R8)")


def build(repo):
    u = Unit(NAME, TOOL, PROPS, ["src/generate/generate_statements.rs: GeneratorState::generate_expr, arm Expr::FunctionCall (R8)"],
             assumptions=["generate_function_call is a counting stub; that it is reached from this arm only is a grep-level fact checked by the extraction",
                          "A-vstd, A-spec-hash-str"])
    gs = SourceFile(repo, "src/generate/generate_statements.rs")
    gm = SourceFile(repo, "src/generate/mod.rs")
    comp = SourceFile(repo, "src/compile.rs")
    # the only callers of generate_function_call
    callers = [x for x in re.finditer(r"self\.generate_function_call\(", mask(gs.text))]
    arm = cut_arm(gs, gs.find_fn_span("generate_expr"))
    n_in_arm = len(re.findall(r"self\.generate_function_call\(", arm.text))
    others = 0
    for rel in ("src/generate/generate_arithm.rs", "src/generate/generate_assign.rs", "src/generate/generate_conditions.rs", "src/generate/generate_asm.rs", "src/generate/mod.rs"):
        others += len(re.findall(r"\bgenerate_function_call\(", mask(SourceFile(repo, rel).text)))
    if len(callers) != n_in_arm or others:
        raise Undecided("generate_function_call is called from outside the Expr::FunctionCall arm of generate_expr (%d call sites, %d in the arm, %d in other files)" % (len(callers), n_in_arm, others))
    cuts, tys = [arm], []
    for sf, kind, name, structural in ((comp, "enum", "Operation", True), (comp, "enum", "VariableType", True), (gm, "enum", "ExprType", False), (comp, "enum", "Expr", False)):
        c = sf.item(kind, name)
        common.r2(c, structural=structural)
        c.sub(r"pub\(crate\) enum", "pub enum", "R2-pub")
        if not structural:
            c.sub(r"#\[derive\(([^)]*)\)\]", "", "R2-derive (no derived impls needed)", expect=(0, 1))
        cuts.append(c)
        tys.append(c.text)
    fc = comp.item("struct", "Function")
    cuts.append(fc)
    fields = re.findall(r"^\s*(?:pub(?:\([^)]*\))?\s+)?(\w+)\s*:\s*(bool|u8|u16|u32|u64|usize|i8|i16|i32|i64|isize|Option<VariableType>)\s*,", fc.text, re.M)
    names = [a for a, _ in fields]
    if "return_signed" not in names or "return_type" not in names:
        raise Undecided("struct Function no longer declares return_signed: bool / return_type: Option<VariableType>")
    fshim = "pub struct Function { %s }" % ", ".join("pub %s: %s" % x for x in fields)
    arm.sub(r"\A\s*Expr::FunctionCall\(expr, params\)\s*=>\s*", "", "R8 the arm's pattern (its bindings are the window's parameters)", expect=1, flags=0)
    arm.sub(r"\bexpr\.as_ref\(\)", "&**expr", "R3 Box::as_ref -> explicit deref", expect=(0, 2))
    text = common.PRELUDE + common.header_comment(NAME, cuts) + "verus! {\n" + (SPECS % {"types": "\n".join(tys), "function_shim": fshim}) + \
        "impl<'a> GeneratorState<'a> {\n" + STUBS + (HEADER % {"arm": arm.text}) + "\n}\n" + common.CANARY + "\n} // verus!\n"
    u.text[None] = text
    u.rewrites = common.collect_rewrites(cuts)
    u.dropped = ["R6 shim environment", "the other arms of generate_expr"]
    return u
