"""U-arithm: GeneratorState::generate_arithm whole (8-bit ALU lowering of + - & | ^, one byte of a wider operation at a time), verified in
Verus against stubs of asm()/sasm() that execute each emitted instruction on a ghost 6502 (A, X, Y, cctmp, carry, stack; datasheet semantics).
Postcondition: the returned expression denotes `l op r` for the byte being computed (with the incoming carry for the high byte), X / Y / the
stack are as on entry, a live accumulator is preserved, constant operands are folded to the C value (C01, C10, C15, C16)."""
import re
from vf.core import Unit
from vf.rustcut import SourceFile, Undecided, mask, match_brace
from . import common

NAME = "U-arithm"
TOOL = "verus"
PROPS = ["C01", "C15", "C10", "C16"]
RLIMIT = 400
TRUSTED = ["verus 0.2026.09.13 + z3 (bit_vector mode for the ALU identities)", "A-isa: ADC/SBC/AND/ORA/EOR/LDA/TXA/TYA/PHA/PLA/CLC/SEC/STA/STX/STY semantics on bytes and carry (MOS datasheet; decimal mode off)",
           "A-vstd (checked_add / checked_sub / checked_mul / checked_div specifications)", "asm()'s own contract (operand text, sizes, ports) is U-asm's subject"]

SPECS = """
pub struct Error { pub e: u8 }
%(types)s
use AsmMnemonic::*;
pub struct Variable { pub var_type: VariableType, pub signed: bool, pub var_const: bool }
pub struct CompilerState { pub x: u8 }
impl CompilerState {
    pub uninterp spec fn var(&self, name: Seq<char>) -> Variable;
    pub uninterp spec fn declared(&self, name: Seq<char>) -> bool;
    // the real get_variable unwraps the table lookup: it may only be called with a name known to be declared
    #[verifier::external_body] pub fn get_variable(&self, name: &str) -> (r: &Variable)
        requires self.declared(name@), //@ C16:arithm-operand-variable-looked-up-without-panic
        ensures *r == self.var(name@) { unimplemented!() }
    #[verifier::external_body] pub fn syntax_error(&self, message: &str, loc: usize) -> Error { unimplemented!() }
    #[verifier::external_body] pub fn compiler_error(&self, message: &str, loc: usize) -> Error { unimplemented!() }
}
// ---- ghost 6502 ------------------------------------------------------------------------------------------------------------------
pub struct M { pub a: int, pub x: int, pub y: int, pub tmp: int, pub c: int, pub stack: Seq<int> }
pub open spec fn byte(v: int) -> bool { 0 <= v <= 255 }
pub open spec fn wf(m: M) -> bool { byte(m.a) && byte(m.x) && byte(m.y) && byte(m.tmp) && (m.c == 0 || m.c == 1) && forall|i: int| 0 <= i < m.stack.len() ==> byte(#[trigger] m.stack[i]) }
// the byte a memory operand designates (low or high byte of the cell); this function stores only to cctmp, so it is constant here
pub uninterp spec fn mem(e: ExprType, hb: bool) -> int;
#[verifier::external_body] pub proof fn axiom_mem_byte(e: ExprType, hb: bool) ensures byte(mem(e, hb)) {}
pub open spec fn imm_byte(v: i32, hb: bool) -> int { if hb { ((v >> 8) & 0xff) as int } else { (v & 0xff) as int } }
pub open spec fn bv(m: M, e: ExprType, hb: bool) -> int {
    match e { ExprType::Immediate(v) => imm_byte(v, hb), ExprType::A(_) => m.a, ExprType::Tmp(_) => m.tmp, ExprType::X => m.x, ExprType::Y => m.y, _ => mem(e, hb) }
}
#[verifier::opaque] pub open spec fn band(a: int, b: int) -> int { ((a as u8) & (b as u8)) as int }
#[verifier::opaque] pub open spec fn bor(a: int, b: int) -> int { ((a as u8) | (b as u8)) as int }
#[verifier::opaque] pub open spec fn bxor(a: int, b: int) -> int { ((a as u8) ^ (b as u8)) as int }
// A-isa: result byte and carry out
pub open spec fn alu(m: AsmMnemonic, a: int, b: int, c: int) -> (int, int) {
    if m == ADC { let t = a + b + c; (if t >= 256 { t - 256 } else { t }, if t >= 256 { 1int } else { 0int }) }
    else if m == SBC { let t = a - b - (1 - c); (if t < 0 { t + 256 } else { t }, if t < 0 { 0int } else { 1int }) }
    else if m == AND { (band(a, b), c) } else if m == ORA { (bor(a, b), c) } else if m == EOR { (bxor(a, b), c) } else { (a, c) }
}
pub open spec fn step(g: M, m: AsmMnemonic, e: ExprType, hb: bool) -> M {
    if m == LDA { M { a: bv(g, e, hb), ..g } }
    else if m == ADC || m == SBC || m == AND || m == ORA || m == EOR { M { a: alu(m, g.a, bv(g, e, hb), g.c).0, c: alu(m, g.a, bv(g, e, hb), g.c).1, ..g } }
    else if m == STA && e is Tmp { M { tmp: g.a, ..g } }
    else if m == STX && e is Tmp { M { tmp: g.x, ..g } }
    else if m == STY && e is Tmp { M { tmp: g.y, ..g } }
    else if m == TXA { M { a: g.x, ..g } }
    else if m == TYA { M { a: g.y, ..g } }
    else if m == CLC { M { c: 0, ..g } }
    else if m == SEC { M { c: 1, ..g } }
    else if m == PHA { M { stack: g.stack.push(g.a), ..g } }
    else if m == PLA { M { a: g.stack.last(), stack: g.stack.drop_last(), ..g } }
    else { g }
}
pub struct GeneratorState<'a> {
    pub compiler_state: &'a CompilerState,
    pub flags: FlagsState, pub acc_in_use: bool, pub tmp_in_use: bool, pub carry_flag_ok: bool, pub carry_propagation_error: bool,
    pub gh: Ghost<M>,
}
pub open spec fn plain_same(a: &GeneratorState, b: &GeneratorState) -> bool {
    a.compiler_state == b.compiler_state && a.flags == b.flags && a.acc_in_use == b.acc_in_use && a.tmp_in_use == b.tmp_in_use && a.carry_flag_ok == b.carry_flag_ok
    && a.carry_propagation_error == b.carry_propagation_error
}
// ---- oracle: what `l op r` is for the byte being computed --------------------------------------------------------------------------
pub open spec fn mn_of(op: Operation) -> AsmMnemonic {
    match op { Operation::Add(_) => ADC, Operation::Sub(_) => SBC, Operation::And(_) => AND, Operation::Or(_) => ORA, Operation::Xor(_) => EOR, _ => NOP }
}
// carry entering the byte: the low byte of an addition starts without carry, of a subtraction without borrow; the high byte takes what the low byte left
pub open spec fn cin(op: Operation, hb: bool, c: int) -> int { if hb { c } else { match op { Operation::Sub(_) => 1, _ => 0 } } }
pub open spec fn expect(g: M, l: ExprType, op: Operation, r: ExprType, hb: bool) -> (int, int) { alu(mn_of(op), bv(g, l, hb), bv(g, r, hb), cin(op, hb, g.c)) }
pub proof fn lemma_bits()
    ensures
        forall|a: int| byte(a) ==> #[trigger] band(a, 255) == a, forall|a: int| byte(a) ==> #[trigger] bor(a, 0) == a, forall|a: int| byte(a) ==> #[trigger] bxor(a, 0) == a,
        forall|a: int, b: int| #[trigger] band(a, b) == band(b, a), forall|a: int, b: int| #[trigger] bor(a, b) == bor(b, a), forall|a: int, b: int| #[trigger] bxor(a, b) == bxor(b, a),
        forall|a: int, b: int| byte(#[trigger] band(a, b)), forall|a: int, b: int| byte(#[trigger] bor(a, b)), forall|a: int, b: int| byte(#[trigger] bxor(a, b)),
        forall|v: i32| (v & 0xff00) == 0 ==> #[trigger] ((v >> 8) & 0xff) == 0,
        forall|v: i32| 0 <= #[trigger] (v & 0xff) <= 255, forall|v: i32| 0 <= #[trigger] ((v >> 8) & 0xff) <= 255,
        (0i32 & 0xff) == 0,
{
    assert((0i32 & 0xff) == 0) by (bit_vector);
    reveal(band); reveal(bor); reveal(bxor);
    assert forall|a: int| byte(a) implies #[trigger] band(a, 255) == a by { let x = a as u8; assert((x & 255u8) == x) by (bit_vector); }
    assert forall|a: int| byte(a) implies #[trigger] bor(a, 0) == a by { let x = a as u8; assert((x | 0u8) == x) by (bit_vector); }
    assert forall|a: int| byte(a) implies #[trigger] bxor(a, 0) == a by { let x = a as u8; assert((x ^ 0u8) == x) by (bit_vector); }
    assert forall|a: int, b: int| #[trigger] band(a, b) == band(b, a) by { let x = a as u8; let y = b as u8; assert((x & y) == (y & x)) by (bit_vector); }
    assert forall|a: int, b: int| #[trigger] bor(a, b) == bor(b, a) by { let x = a as u8; let y = b as u8; assert((x | y) == (y | x)) by (bit_vector); }
    assert forall|a: int, b: int| #[trigger] bxor(a, b) == bxor(b, a) by { let x = a as u8; let y = b as u8; assert((x ^ y) == (y ^ x)) by (bit_vector); }
    assert forall|v: i32| (v & 0xff00) == 0 implies #[trigger] ((v >> 8) & 0xff) == 0 by { assert((v & 0xff00) == 0 ==> ((v >> 8) & 0xff) == 0) by (bit_vector); }
    assert forall|v: i32| 0 <= #[trigger] (v & 0xff) <= 255 by { assert(0 <= (v & 0xff) <= 255) by (bit_vector); }
    assert forall|v: i32| 0 <= #[trigger] ((v >> 8) & 0xff) <= 255 by { assert(0 <= ((v >> 8) & 0xff) <= 255) by (bit_vector); }
}
"""

STUBS = """
    // the total lookup (generate_statements.rs): an error for a name that is not a variable
    #[verifier::external_body]
    pub(crate) fn variable_or_error(&self, name: &str, pos: usize) -> (r: Result<&'a Variable, Error>)
        ensures (r is Ok) == self.compiler_state.declared(name@), r is Ok ==> *r->Ok_0 == self.compiler_state.var(name@),
    { unimplemented!() }
    // ---- stubs: every emitted instruction is executed on the ghost machine -----------------------------------------------------------
    #[verifier::external_body]
    pub(crate) fn asm(&mut self, mnemonic: AsmMnemonic, operand: &ExprType, pos: usize, high_byte: bool) -> (res: Result<bool, Error>)
        requires
            mnemonic == LDA || mnemonic == ADC || mnemonic == SBC || mnemonic == AND || mnemonic == ORA || mnemonic == EOR
                || ((mnemonic == STA || mnemonic == STX || mnemonic == STY) && operand is Tmp), //@ C01:arithm-only-alu-and-cctmp
            !(operand is X) && !(operand is Y) && !(operand is Nothing) && !(operand is Label), //@ C16:arithm-asm-operand-kind
            mnemonic == LDA || !(operand is A), //@ C16:arithm-asm-no-alu-on-a
        ensures plain_same(old(self), final(self)),
            res is Ok ==> final(self).gh@ == step(old(self).gh@, mnemonic, *operand, high_byte),
    { unimplemented!() }
    #[verifier::external_body]
    pub(crate) fn sasm(&mut self, mnemonic: AsmMnemonic) -> (res: Result<bool, Error>)
        requires
            mnemonic == PHA || mnemonic == PLA || mnemonic == CLC || mnemonic == SEC || mnemonic == TXA || mnemonic == TYA, //@ C01:arithm-only-known-implied
            mnemonic == PLA ==> old(self).gh@.stack.len() > 0, //@ C01:arithm-pla-has-pha
        ensures plain_same(old(self), final(self)), res is Ok, final(self).gh@ == step(old(self).gh@, mnemonic, ExprType::Nothing, false),
    { unimplemented!() }
"""

HEADER = """pub(crate) fn generate_arithm%(suffix)s(&mut self, l: &ExprType, op: &Operation, r: &ExprType,  pos: usize, high_byte: bool) -> (res: Result<ExprType, Error>)
        requires
            %(case)s,      // one of the cases of lemma cases_cover (the same text is verified once per case: smaller queries)
            wf(old(self).gh@),
            // operands are well formed: an operand in the accumulator means the accumulator is marked live, both operands are not the same scratch location
            (l is A || r is A) ==> old(self).acc_in_use,
            !(l is A && r is A), !(l is Tmp && r is Tmp),
            (l is Tmp || r is Tmp) ==> old(self).tmp_in_use,
            (l is Absolute ==> -0x100_0000 <= l->Absolute_2 <= 0x100_0000),
        ensures
            final(self).compiler_state == old(self).compiler_state,
            res is Ok ==> wf(final(self).gh@),
            // the value: the returned expression denotes `l op r` for this byte; for + and - the carry is the one the next byte needs
            (res is Ok && (res->Ok_0 is A || res->Ok_0 is Tmp || res->Ok_0 is X || res->Ok_0 is Y)) ==> bv(final(self).gh@, res->Ok_0, high_byte) == expect(old(self).gh@, *l, *op, *r, high_byte).0, //@ C01,C15:arithm-value
            (res is Ok && (res->Ok_0 is A || res->Ok_0 is Tmp) && (*op is Add || *op is Sub)) ==> final(self).gh@.c == expect(old(self).gh@, *l, *op, *r, high_byte).1, //@ C01:arithm-carry-out
            // the low-byte pass of a 16-bit expression runs completely before the high-byte pass: a second + / - of the high-byte pass would consume a carry
            // the low-byte pass has overwritten, and is rejected (carry_propagation_error is the generator's record of "a high-byte + / - has been emitted")
            (res is Ok && (*op is Add || *op is Sub) && (res->Ok_0 is A || res->Ok_0 is Tmp)) ==> !(old(self).carry_propagation_error && high_byte) && final(self).carry_propagation_error == high_byte, //@ C01:arithm-chained-high-byte-carry-rejected
            // (the folded value of two constants is U-fold's subject)
            (res is Ok && res->Ok_0 is Immediate) ==> final(self).gh@ == old(self).gh@,
            // nothing else is disturbed: index registers, the stack, and a live accumulator that is not an operand
            res is Ok ==> final(self).gh@.x == old(self).gh@.x && final(self).gh@.y == old(self).gh@.y, //@ C01:arithm-index-registers-kept
            res is Ok ==> final(self).gh@.stack == old(self).gh@.stack, //@ C01:arithm-stack-balanced
            (res is Ok && old(self).acc_in_use && !(l is A) && !(r is A)) ==> (final(self).gh@.a == old(self).gh@.a && !(res->Ok_0 is A)), //@ C01:arithm-live-accumulator-kept
            (res is Ok && !(res->Ok_0 is Tmp) && old(self).tmp_in_use && !(l is Tmp) && !(r is Tmp)) ==> final(self).gh@.tmp == old(self).gh@.tmp, //@ C01:arithm-live-cctmp-kept
            // bookkeeping the callers rely on
            (res is Ok && res->Ok_0 is A) ==> final(self).acc_in_use, //@ C01:arithm-result-a-marked-live
            (res is Ok && res->Ok_0 is Tmp) ==> final(self).tmp_in_use, //@ C01:arithm-result-tmp-marked-live
"""


def candidates(f):
    """Programs that drive generate_arithm through its operand shapes; the emitted code is executed on the 6502 interpreter and compared with C
    (unsigned 8-bit and 16-bit results), and the stack must be balanced at the end."""
    out = []
    def prog(decl, stmt, sim, note):
        sim = dict(sim, stack_empty=True)
        out.append({"source": "%s\nvoid main() { %s }\n" % (decl, stmt), "args": ["-O0"], "expect": {"panic": False}, "simulate": sim, "note": note})
    ops = [("+", lambda a, b: a + b), ("-", lambda a, b: a - b), ("&", lambda a, b: a & b), ("|", lambda a, b: a | b), ("^", lambda a, b: a ^ b)]
    vals = [(200, 100), (3, 5), (255, 1), (0, 0), (0x5a, 0xa5)]
    for sym, fn in ops:
        for a, b in vals:
            w8 = fn(a, b) & 0xff
            prog("unsigned char a, b, c;", "c = a %s b;" % sym, {"init": {"a": a, "b": b}, "expect": {"c": w8}}, "a=%d b=%d" % (a, b))
            prog("unsigned char a, c;", "c = a %s %d;" % (sym, b), {"init": {"a": a}, "expect": {"c": w8}}, "a=%d" % a)
            prog("unsigned char a, c;", "c = %d %s a;" % (a, sym), {"init": {"a": b}, "expect": {"c": w8}}, "a=%d" % b)
            prog("unsigned char a, c;", "c = a %s X;" % sym, {"init": {"a": a}, "x": b, "expect": {"c": w8}}, "a=%d X=%d" % (a, b))
            prog("unsigned char a, c;", "c = Y %s a;" % sym, {"init": {"a": b}, "y": a, "expect": {"c": w8}}, "Y=%d a=%d" % (a, b))
            prog("unsigned char a, b, c;", "c = (a + 1) %s (b ^ 3);" % sym, {"init": {"a": a, "b": b}, "expect": {"c": fn((a + 1) & 0xff, b ^ 3) & 0xff}}, "a=%d b=%d" % (a, b))
            prog("unsigned char a, c;", "c = (a + 1) %s (X | 0);" % sym, {"init": {"a": a}, "x": b, "expect": {"c": fn((a + 1) & 0xff, b) & 0xff}}, "a=%d X=%d" % (a, b))
    for sym, fn in ops:
        for a, b in [(1000, 300), (255, 1), (0x1234, 0x0ff0), (300, 1000), (0xff00, 0x0100)]:
            w16 = fn(a, b) & 0xffff
            prog("short s, t, u;", "u = s %s t;" % sym, {"init16": {"s": a, "t": b}, "expect16": {"u": w16}}, "s=%d t=%d" % (a, b))
            prog("short s, u;", "u = s %s %d;" % (sym, b), {"init16": {"s": a}, "expect16": {"u": w16}}, "s=%d" % a)
    for a, t in [(200, 1000), (255, 255), (1, 0xff)]:
        prog("short t, u; unsigned char c;", "u = c + t;", {"init": {"c": a}, "init16": {"t": t}, "expect16": {"u": (a + t) & 0xffff}}, "c=%d t=%d" % (a, t))
    return out


def r22_checked_map(cut):
    """R22: X.map(ExprType::Immediate).ok_or_else(|| E) -> match X { Some(__v) => Ok(ExprType::Immediate(__v)), None => Err(E) }
    (definitions of Option::map with a constructor and Option::ok_or_else)."""
    n = 0
    while True:
        m = re.search(r"(\w+\.checked_\w+\(\*?\w+\))\s*\.map\(ExprType::Immediate\)\s*\.ok_or_else\(\s*\|\|\s*", cut.text)
        if not m:
            break
        mk = mask(cut.text)
        op = cut.text.find("ok_or_else(", m.start()) + len("ok_or_else")
        cp = match_brace(mk, op, "(", ")")
        body = cut.text[m.end():cp].strip()
        cut.text = cut.text[:m.start()] + "(match %s { Some(__v) => Ok(ExprType::Immediate(__v)), None => Err(%s) })" % (m.group(1), body) + cut.text[cp + 1:]
        n += 1
        if n > 12:
            break
    if n:
        cut.log.append("R22 x%d Option::map(Ctor).ok_or_else(|| e) -> match" % n)
    return n


def build(repo):
    u = Unit(NAME, TOOL, PROPS, ["src/generate/generate_arithm.rs: GeneratorState::generate_arithm"],
             assumptions=["asm()/sasm() are stubs that execute the instruction on a ghost 6502 (A-isa); their requires clauses are obligations of this unit",
                          "memory operands are not written by this function (it stores to cctmp only: obligation arithm-only-alu-and-cctmp), so mem(e, hb) is a constant",
                          "an operand in A / cctmp on entry is marked live (acc_in_use / tmp_in_use): caller obligation, assumed",
                          "the high byte of an operand that only has 8 bits is what the CALLER passes for it (generate_expr passes Immediate(0) for X / Y): the composition of the two "
                          "byte passes of a 16-bit operation is not under contract (see the recorded finding on `s = X + 1000`)",
                          "the address-constant results (array address +/- constant) carry no value claim; signedness (`signed`) is not part of the contract"])
    ga = SourceFile(repo, "src/generate/generate_arithm.rs")
    gm = SourceFile(repo, "src/generate/mod.rs")
    comp = SourceFile(repo, "src/compile.rs")
    asmf = SourceFile(repo, "src/assemble.rs")
    cuts, tys = [], []
    for sf, kind, name, structural in ((comp, "enum", "Operation", True), (comp, "enum", "VariableType", True), (asmf, "enum", "AsmMnemonic", True),
                                       (gm, "enum", "ExprType", False), (gm, "enum", "FlagsState", False)):
        c = sf.item(kind, name)
        common.r2(c, structural=structural)
        c.sub(r"pub\(crate\) enum", "pub enum", "R2-pub")
        if not structural:
            c.sub(r"#\[derive\(([^)]*)\)\]", lambda m: "#[derive(%s)]" % ", ".join(x for x in [y.strip() for y in m.group(1).split(",")] if x not in ("PartialEq", "Eq", "Debug")), "R2-derive-noeq")
        cuts.append(c)
        tys.append(c.text)
    f = ga.fn("generate_arithm", within="GeneratorState")
    cuts.append(f)
    r22_checked_map(f)
    f.sub(r"return Ok\(ExprType::Immediate\(l (&|\||\^) r\)\)", r"return Ok(ExprType::Immediate(*l \1 *r))", "R3-deref", expect=(0, 3))
    f.sub(r"\(v & 0xff\) == 0", "(*v & 0xff) == 0", "R3-deref", expect=(0, 2))
    f.sub(r"\(v & 0xff00\) == 0", "(*v & 0xff00) == 0", "R3-deref", expect=(0, 2))
    # The same extracted text is verified once per (operator, byte) case: each copy differs only in its name and in one extra precondition;
    # lemma cases_cover shows the cases are exhaustive.  (One query over all cases exceeds any reasonable resource limit.)
    cases = []
    for opn in ("Add", "Sub", "And", "Or", "Xor"):
        for hb in (False, True):
            cases.append(("_%s_%s" % (opn.lower(), "hi" if hb else "lo"), "*op is %s && %shigh_byte" % (opn, "" if hb else "!")))
    cases.append(("_other", "!(*op is Add) && !(*op is Sub) && !(*op is And) && !(*op is Or) && !(*op is Xor)"))
    base = f.text
    copies = []
    for suffix, cond in cases:
        f.text = base
        f.set_header(HEADER % {"suffix": suffix, "case": cond}, expect_sig="fn generate_arithm(&mut self, l: &ExprType, op: &Operation, r: &ExprType, pos: usize, high_byte: bool) -> Result<ExprType, Error>")
        f.body_start("""        proof { lemma_bits(); axiom_mem_byte(*l, high_byte); axiom_mem_byte(*r, high_byte); }
        let ghost g0 = self.gh@;""")
        copies.append(f.text)
    cover = "proof fn cases_cover(op: &Operation, high_byte: bool) ensures " + " || ".join("(%s)" % c for _, c in cases) + " //@ C01:arithm-cases-exhaustive\n{}\n"
    text = common.PRELUDE + common.header_comment(NAME, cuts) + "verus! {\n" + (SPECS % {"types": "\n".join(tys)}) + \
        "impl<'a> GeneratorState<'a> {\n" + STUBS + "\n" + "\n".join(copies) + "\n}\n" + cover + common.CANARY + "\n} // verus!\n"
    u.text[None] = text
    u.rewrites = common.collect_rewrites(cuts)
    u.rewrites.append("case split: the function text appears %d times under the names generate_arithm_<op>_<lo|hi>, each with one extra precondition; lemma cases_cover proves exhaustiveness" % len(cases))
    u.dropped = ["R6 shim environment (GeneratorState fields other than flags / acc_in_use / tmp_in_use / carry_flag_ok / carry_propagation_error, CompilerState)"]
    return u
