"""U-purge: purge_deferred_plusplus_and_savey whole -- the flush of the post-increments / post-decrements deferred during an expression and of the Y parked
for an element access -- verified in Verus against a logging stub of generate_plusplus (whose own text is U-plusplus): every deferred effect is applied
exactly once, in the order the expression met them, the list is empty afterwards, a parked Y is given back once, and the accumulator stays marked as it
was -- each increment is generated knowing whether the accumulator is live (C01; C17: on split-port memory the increment goes through the accumulator and
saves it only when it is marked live; C18)."""
import re
from vf.core import Unit
from vf.rustcut import SourceFile, Undecided
from . import common

NAME = "U-purge"
TOOL = "verus"
PROPS = ["C01", "C17", "C18", "C16"]
RLIMIT = 100
TRUSTED = ["verus 0.2026.09.13 + z3", "generate_plusplus and asm_restore_y are logging stubs (U-plusplus proves the former against a 6502 model, under the accumulator marking it is given)"]

SPECS = """
pub struct Error { pub e: u8 }
%(types)s
pub enum Ev { PlusPlus(ExprType, usize, bool, bool), RestoreY }      // (operand, position, ++ or --, accumulator marked live at that moment)
pub struct GeneratorState<'a> {
    pub x: &'a u8,
    pub deferred_plusplus: Vec<(ExprType, usize, bool)>,
    pub saved_y: bool, pub tmp_in_use: bool, pub acc_in_use: bool, pub carry_flag_ok: bool,
    pub flags: FlagsState,
    pub log: Ghost<Seq<Ev>>,
}
#[verifier::external_body] pub fn clone_list(v: &Vec<(ExprType, usize, bool)>) -> (r: Vec<(ExprType, usize, bool)>) ensures r@ == v@ { unimplemented!() }
pub open spec fn effects(d: Seq<(ExprType, usize, bool)>, n: int, live: bool) -> Seq<Ev> decreases n
{ if n <= 0 { Seq::<Ev>::empty() } else { effects(d, n - 1, live).push(Ev::PlusPlus(d[n - 1].0, d[n - 1].1, d[n - 1].2, live)) } }
"""

STUBS = """
    #[verifier::external_body]
    pub(crate) fn generate_plusplus(&mut self, expr: &ExprType, pos: usize, plusplus: bool) -> (res: Result<ExprType, Error>)
        ensures res is Ok ==> final(self).log@ == old(self).log@.push(Ev::PlusPlus(*expr, pos, plusplus, old(self).acc_in_use)),
            final(self).deferred_plusplus == old(self).deferred_plusplus, final(self).saved_y == old(self).saved_y, final(self).acc_in_use == old(self).acc_in_use,
    { unimplemented!() }
    #[verifier::external_body]
    pub(crate) fn asm_restore_y(&mut self)
        ensures final(self).log@ == old(self).log@.push(Ev::RestoreY), final(self).deferred_plusplus == old(self).deferred_plusplus, final(self).acc_in_use == old(self).acc_in_use,
            final(self).saved_y == old(self).saved_y,
    { unimplemented!() }
"""


def build(repo):
    u = Unit(NAME, TOOL, PROPS, ["src/generate/generate_statements.rs: GeneratorState::purge_deferred_plusplus_and_savey"],
             assumptions=["callees are logging stubs; Vec::clone of the deferred list is a stub returning the same sequence"])
    gs = SourceFile(repo, "src/generate/generate_statements.rs")
    gm = SourceFile(repo, "src/generate/mod.rs")
    f = gs.fn("purge_deferred_plusplus_and_savey", within="GeneratorState")
    cuts, tys = [f], []
    for sf, kind, name, structural in ((gm, "enum", "ExprType", False), (gm, "enum", "FlagsState", False)):
        c = sf.item(kind, name)
        common.r2(c, structural=structural)
        c.sub(r"pub\(crate\) enum", "pub enum", "R2-pub")
        c.sub(r"#\[derive\(([^)]*)\)\]", "", "R2-derive (no derived impls needed)", expect=(0, 1))
        cuts.append(c)
        tys.append(c.text)
    f.sub(r"self\.deferred_plusplus\.clone\(\)", "clone_list(&self.deferred_plusplus)", "R13 Vec::clone -> stub returning the same sequence", expect=1)
    f.sub(r"for (\w+) in def \{", r"for __k in 0..def.len() {\n            let \1 = &def[__k];", "R26 for-in-Vec -> index loop", expect=1)
    f.sub(r"self\.generate_plusplus\(&d\.0, d\.1, d\.2\)\?", "self.generate_plusplus(&d.0, d.1, d.2)?", "(unchanged)", expect=1)
    f.set_header("""fn purge_deferred_plusplus_and_savey(&mut self) -> (res: Result<(), Error>)
        ensures
            // every deferred effect once, in order, each generated under the accumulator marking the purge was entered with; then the parked Y, if any
            res is Ok ==> final(self).log@ =~= old(self).log@ + effects(old(self).deferred_plusplus@, old(self).deferred_plusplus@.len() as int, old(self).acc_in_use)
                + (if old(self).saved_y { seq![Ev::RestoreY] } else { Seq::<Ev>::empty() }), //@ C01,C18:purge-applies-every-deferred-effect-once-in-order
            res is Ok ==> final(self).deferred_plusplus@.len() == 0 && !final(self).saved_y, //@ C01:purge-leaves-nothing-pending
            final(self).acc_in_use == old(self).acc_in_use, //@ C01,C17:purge-leaves-the-accumulator-marked-as-it-was
""", expect_sig="fn purge_deferred_plusplus_and_savey(&mut self) -> Result<(), Error>")
    f.body_start("        let ghost log0 = self.log@; let ghost d0 = self.deferred_plusplus@; let ghost live0 = self.acc_in_use;")
    f.loop_spec(1, r"^for __k in 0\.\.def\.len\(\)$", """            invariant def@ == d0, live0 == old(self).acc_in_use, log0 == old(self).log@, d0 == old(self).deferred_plusplus@,
                self.saved_y == old(self).saved_y, self.deferred_plusplus@.len() == 0,
                self.acc_in_use == live0, //@ C01,C17,C18:purge-generates-each-effect-under-the-entry-marking
                self.log@ =~= log0 + effects(d0, __k as int, live0),""")
    text = common.PRELUDE + common.header_comment(NAME, cuts) + "verus! {\n" + (SPECS % {"types": "\n".join(tys)}) + \
        "impl<'a> GeneratorState<'a> {\n" + STUBS + f.text + "\n}\n" + common.CANARY + "\n} // verus!\n"
    u.text[None] = text
    u.rewrites = common.collect_rewrites(cuts)
    u.dropped = ["R6 shim environment"]
    return u
