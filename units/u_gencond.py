"""U-gencond: the structural part of GeneratorState::generate_condition (&& / || / ! and the delegation of comparisons), verified in Verus as a RECURSIVE
contract: the emitted jump network transfers control to `label` exactly when the condition holds (negated if asked) and falls through otherwise, for
every truth assignment of its leaves; local `.ifstart<N>` labels are minted fresh and resolved inside the call; a condition folded at compile time
reports the same truth value.  The leaves are contracted stubs: a comparison is generate_condition_ex's business (U-condex, U-branch), a bare value
(`if (x)`) is the tail of this function (cut off, R8) (C01, C13, C15, C16)."""
import re
from vf.core import Unit
from vf.rustcut import SourceFile, Undecided
from . import common

NAME = "U-gencond"
TOOL = "verus"
PROPS = ["C01", "C13", "C15", "C16"]
RLIMIT = 300
TRUSTED = ["verus 0.2026.09.13 + z3", "A-fmt (R4)",
           "leaf contracts: generate_condition_ex jumps to the label exactly when `l op r` holds (negated if asked) -- established by U-condex / U-branch / U-cond16; "
           "the value tail of generate_condition (`if (x)`) jumps exactly when the value is non-zero -- not under contract",
           "A-stable-values: the value an operand expression denotes does not change between its evaluation by generate_expr and the comparison that follows"]

DEC_INJ = """
pub proof fn lemma_dec_len(n: nat) ensures dec_nat(n).len() >= 1, n >= 10 ==> dec_nat(n).len() >= 2 decreases n
{ if n >= 10 { lemma_dec_len(n / 10); } }
pub proof fn lemma_digit_inj(a: int, b: int) requires 0 <= a < 10, 0 <= b < 10, digit(a) == digit(b) ensures a == b
{ assert(((48 + a) as u8) as int == 48 + a); assert(((48 + b) as u8) as int == 48 + b); assert(digit(a) as int == 48 + a); assert(digit(b) as int == 48 + b); }
pub proof fn lemma_dec_nat_inj(a: nat, b: nat) requires dec_nat(a) == dec_nat(b) ensures a == b decreases a
{
    lemma_dec_len(a); lemma_dec_len(b);
    if a < 10 {
        if b >= 10 { assert(false); }
        assert(dec_nat(a) =~= seq![digit(a as int)]);
        assert(dec_nat(b) =~= seq![digit(b as int)]);
        assert(dec_nat(a)[0] == digit(a as int));
        assert(dec_nat(b)[0] == digit(b as int));
        lemma_digit_inj(a as int, b as int);
    } else {
        if b < 10 { assert(false); }
        assert(dec_nat(a).last() == digit((a % 10) as int));
        assert(dec_nat(b).last() == digit((b % 10) as int));
        lemma_digit_inj((a % 10) as int, (b % 10) as int);
        assert(dec_nat(a).drop_last() =~= dec_nat(a / 10));
        assert(dec_nat(b).drop_last() =~= dec_nat(b / 10));
        lemma_dec_nat_inj(a / 10, b / 10);
    }
}
pub proof fn lemma_prefix_inj(p: Seq<char>, a: nat, b: nat) requires p + dec_nat(a) == p + dec_nat(b) ensures a == b
{
    let x = p + dec_nat(a); let y = p + dec_nat(b);
    assert(dec_nat(a) =~= x.subrange(p.len() as int, x.len() as int));
    assert(dec_nat(b) =~= y.subrange(p.len() as int, y.len() as int));
    lemma_dec_nat_inj(a, b);
}
"""

SPECS = """
pub struct Error { pub e: u8 }
%(types)s
pub struct CompilerState { pub x: u8 }
// ---- meaning of a condition ------------------------------------------------------------------------------------------------------------
pub uninterp spec fn sem(e: Expr) -> int;             // the value an expression denotes (fixed for the run: A-stable-values)
pub uninterp spec fn val(e: ExprType) -> int;         // the value an evaluated operand denotes
pub open spec fn cmp(a: int, o: Operation, b: int) -> bool {
    match o { Operation::Eq => a == b, Operation::Neq => a != b, Operation::Lt => a < b, Operation::Lte => a <= b, Operation::Gt => a > b, Operation::Gte => a >= b, _ => false }
}
pub open spec fn is_cmp(o: Operation) -> bool { o == Operation::Eq || o == Operation::Neq || o == Operation::Lt || o == Operation::Lte || o == Operation::Gt || o == Operation::Gte }
pub open spec fn truth(e: Expr) -> bool decreases e {
    match e {
        Expr::BinOp { lhs, op, rhs } => if op == Operation::Land { truth(*lhs) && truth(*rhs) } else if op == Operation::Lor { truth(*lhs) || truth(*rhs) }
                                        else if is_cmp(op) { cmp(sem(*lhs), op, sem(*rhs)) } else { sem(e) != 0 },
        Expr::Not(x) => !truth(*x),
        _ => sem(e) != 0,
    }
}
// size of a condition: each && / || mints at most one label
pub open spec fn nodes(e: Expr) -> nat decreases e {
    match e {
        Expr::BinOp { lhs, op, rhs } => if op == Operation::Land || op == Operation::Lor { 1 + nodes(*lhs) + nodes(*rhs) } else { 1 },
        Expr::Not(x) => 1 + nodes(*x),
        _ => 1,
    }
}
// a label text this call (local-label counter >= c) may still mint
pub open spec fn mintable(l: Seq<char>, c: int) -> bool { exists|k: int| k >= c && k >= 0 && l == ".ifstart"@ + dec(k) }
pub struct GeneratorState<'a> {
    pub compiler_state: &'a CompilerState,
    pub local_label_counter_if: u32,
    pub skip: Ghost<Option<Seq<char>>>,        // a jump is pending to this label: every line up to its definition is skipped
}
// what a lowering of condition `t` (already combined with negate) does to the pending jump
pub open spec fn after(skip0: Option<Seq<char>>, jumps: bool, label: Seq<char>) -> Option<Seq<char>> {
    if skip0 is Some { skip0 } else if jumps { Some(label) } else { None }
}
pub open spec fn pending_ok(g: &GeneratorState) -> bool { g.skip@ is Some ==> !mintable(g.skip@->Some_0, g.local_label_counter_if as int) }
"""

STUBS = """
    #[verifier::external_body]
    pub(crate) fn generate_expr(&mut self, expr: &Expr, pos: usize, high_byte: bool, second_time: bool) -> (res: Result<ExprType, Error>)
        ensures final(self).compiler_state == old(self).compiler_state, final(self).local_label_counter_if == old(self).local_label_counter_if, final(self).skip@ == old(self).skip@,
            res is Ok ==> val(res->Ok_0) == sem(*expr),
            (res is Ok && res->Ok_0 is Immediate) ==> res->Ok_0->Immediate_0 as int == sem(*expr),
    { unimplemented!() }
    #[verifier::external_body]
    fn generate_condition_ex(&mut self, l: &ExprType, op: &Operation, r: &ExprType, pos: usize, negate: bool, label: &str) -> (res: Result<(), Error>)
        requires is_cmp(*op),
        ensures final(self).compiler_state == old(self).compiler_state, final(self).local_label_counter_if == old(self).local_label_counter_if,
            res is Ok ==> final(self).skip@ == after(old(self).skip@, cmp(val(*l), *op, val(*r)) != negate, label@),
    { unimplemented!() }
    #[verifier::external_body]
    pub(crate) fn label(&mut self, l: &str) -> (res: Result<(), Error>)
        ensures final(self).compiler_state == old(self).compiler_state, final(self).local_label_counter_if == old(self).local_label_counter_if, res is Ok,
            final(self).skip@ == (if old(self).skip@ == Some(l@) { None::<Seq<char>> } else { old(self).skip@ }),
    { unimplemented!() }
    // R8: the tail of generate_condition (a bare value used as a condition), cut off and contracted
    #[verifier::external_body]
    fn condition_value_tail(&mut self, condition: &Expr, pos: usize, negate: bool, label: &str, immediate_special: bool) -> (res: Result<Option<bool>, Error>)
        ensures final(self).compiler_state == old(self).compiler_state, final(self).local_label_counter_if == old(self).local_label_counter_if,
            (res is Ok && res->Ok_0 is None) ==> final(self).skip@ == after(old(self).skip@, (sem(*condition) != 0) != negate, label@),
            (res is Ok && res->Ok_0 is Some) ==> final(self).skip@ == old(self).skip@ && res->Ok_0->Some_0 == ((sem(*condition) != 0) != negate),
            (res is Ok && !immediate_special) ==> res->Ok_0 is None,
    { unimplemented!() }
"""

HEADER = """#[verifier::exec_allows_no_decreases_clause]
    pub(crate) fn generate_condition(
        &mut self,
        condition: &Expr,
        pos: usize,
        negate: bool,
        label: &str,
        immediate_special: bool,
    ) -> (res: Result<Option<bool>, Error>)
        requires
            old(self).local_label_counter_if + nodes(*condition) < 0xffff_ffff, //@ C16:gencond-counter-bound
            // the target, and a jump that is already pending, are not labels this call may still mint
            !mintable(label@, old(self).local_label_counter_if as int),
            pending_ok(old(self)),
        ensures
            final(self).compiler_state == old(self).compiler_state,
            final(self).local_label_counter_if >= old(self).local_label_counter_if, //@ C13:gencond-counter-monotone
            final(self).local_label_counter_if <= old(self).local_label_counter_if + nodes(*condition),
            // control reaches `label` exactly when the condition holds (negated if asked); otherwise it falls through; a jump pending on entry stays pending
            (res is Ok && res->Ok_0 is None) ==> final(self).skip@ == after(old(self).skip@, truth(*condition) != negate, label@), //@ C01,C15:gencond-jumps-iff-condition
            // a condition decided at compile time emits no jump and reports whether control would have reached `label`
            (res is Ok && res->Ok_0 is Some) ==> (final(self).skip@ == old(self).skip@ && res->Ok_0->Some_0 == (truth(*condition) != negate)), //@ C01,C10,C13,C16:gencond-constant-condition
            (res is Ok && !immediate_special) ==> res->Ok_0 is None, //@ C01,C13:gencond-constant-only-when-asked
"""


def candidates(f):
    """conditions built from && || ! over comparisons, bare values and constants, for every truth assignment of three variables, on the 6502 interpreter"""
    out = []
    shapes = ["a && b", "a || b", "!a", "!(a && b)", "!(a || b)", "a && b && c", "a || b || c", "a && (b || c)", "(a && b) || c", "!(a && b) || c", "a && !b", "!a || !b",
              "(a == 1) && (b != 0)", "(a < 2) || (b > 0)", "!(a == 1 && b == 1)", "1 && a", "0 || a", "a && 1", "a || 0", "0 && a", "1 || a", "!(1 && a) || b", "(a || b) && (b || c)"]
    for sh in shapes:
        for a in (0, 1):
            for b in (0, 1):
                for c in (0, 1):
                    want = 1 if eval(sh.replace("&&", " and ").replace("||", " or ").replace("!=", " <> ").replace("!", " not ").replace(" <> ", "!=")) else 2
                    out.append({"source": "unsigned char a, b, c, z;\nvoid main() { if (%s) z = 1; else z = 2; }\n" % sh, "args": ["-O0"], "expect": {"panic": False},
                                "simulate": {"init": {"a": a, "b": b, "c": c}, "expect": {"z": want}, "stack_empty": True}, "note": "a=%d b=%d c=%d" % (a, b, c)})
    return out


def build(repo):
    u = Unit(NAME, TOOL, PROPS, ["src/generate/generate_conditions.rs: GeneratorState::generate_condition (everything before the value tail `let expr = self.generate_expr(condition, ..)`, R8)"],
             assumptions=["leaf contracts (TRUSTED): generate_condition_ex and the value tail are stubs; A-stable-values",
                          "the target label and a pending jump are not `.ifstart<k>` labels with k >= the current counter (caller obligation; the recursion proves it for its own calls "
                          "through injectivity of decimal rendering, which is proved here)",
                          "termination of the recursion (R9) is not an obligation (it follows the structure of the expression)"])
    gc = SourceFile(repo, "src/generate/generate_conditions.rs")
    comp = SourceFile(repo, "src/compile.rs")
    gm = SourceFile(repo, "src/generate/mod.rs")
    cuts, tys = [], []
    for sf, kind, name, structural in ((comp, "enum", "Operation", True), (gm, "enum", "ExprType", False), (comp, "enum", "Expr", False)):
        c = sf.item(kind, name)
        common.r2(c, structural=structural)
        c.sub(r"pub\(crate\) enum", "pub enum", "R2-pub")
        if not structural:
            c.sub(r"#\[derive\(([^)]*)\)\]", "", "R2-derive (no derived impls needed)", expect=(0, 1))
        cuts.append(c)
        tys.append(c.text)
    f = gc.fn("generate_condition", within="GeneratorState")
    cuts.append(f)
    # R8: cut the value tail
    m = re.search(r"\n[ \t]*let expr = self\.generate_expr\(condition, pos, false, false\)\?;", f.text)
    if not m:
        raise Undecided("generate_condition: the value tail `let expr = self.generate_expr(condition, pos, false, false)?;` was not found")
    from vf.rustcut import mask, match_brace
    mk = mask(f.text)
    ob = mk.index("{", mk.index("fn generate_condition"))
    cb = match_brace(mk, ob, "{", "}")
    f.text = f.text[:m.start()] + "\n        self.condition_value_tail(condition, pos, negate, label, immediate_special)\n    " + f.text[cb:]
    f.log.append("R8: the value tail of generate_condition (from `let expr = self.generate_expr(condition, ..)` to the end) replaced by a call to the contracted stub condition_value_tail")
    fm = common.Fmt({"self.local_label_counter_if": ("int", None)})
    fm.apply(f)
    nh = f.sub(r"(let ifstart_label = fmt_\w+\([^;]*\);)", r"\1 proof { assert(mintable(ifstart_label@, self.local_label_counter_if as int)); }", "hint (ghost): the label just built is `.ifstart<counter>`", expect=(0, 4))
    f.set_header(HEADER, expect_sig="fn generate_condition( &mut self, condition: &Expr, pos: usize, negate: bool, label: &str, immediate_special: bool, ) -> Result<Option<bool>, Error>")
    f.body_start("""        proof {
            reveal_strlit(".ifstart");
            // a label minted at the current counter is not mintable any more once the counter has moved past it (decimal rendering is injective)
            assert forall|c: int, k: int| 0 <= c < k implies ".ifstart"@ + dec(c) != ".ifstart"@ + dec(k) by {
                if ".ifstart"@ + dec(c) == ".ifstart"@ + dec(k) { lemma_prefix_inj(".ifstart"@, c as nat, k as nat); }
            }
            assert forall|l: Seq<char>, c: int, c2: int| c <= c2 && !mintable(l, c) implies !mintable(l, c2) by { }
        }""")
    text = common.PRELUDE + common.header_comment(NAME, cuts) + "verus! {\n" + common.DEC_SPECS + DEC_INJ + (SPECS % {"types": "\n".join(tys)}) + fm.text() + \
        "impl<'a> GeneratorState<'a> {\n" + STUBS + "\n" + f.text + "\n}\n" + common.CANARY + "\n} // verus!\n"
    u.text[None] = text
    u.rewrites = common.collect_rewrites(cuts)
    u.dropped = ["the value tail of generate_condition (R8)", "R6 shim environment"]
    return u
