"""U-ifexpr: the evaluator of `#if` / `#elif` expressions in cpp.rs -- Context::eval_unary, eval_eq and evaluate, whole -- verified in Verus against a reference
semantics written from C: any number of `!` in front of a term negate it that many times, `a == b == c` is evaluated from left to right, anything left over
is an error, and an error in an operand is the error of the whole.  The term evaluator (eval_term: a name replaced by its value, `1` is true) and
skip_whitespace are stubs; the text is a sequence of characters (C07)."""
import re
from vf.core import Unit
from vf.rustcut import SourceFile, Undecided
from . import common

NAME = "U-ifexpr"
TOOL = "verus"
PROPS = ["C07", "C16"]
RLIMIT = 100
TRUSTED = ["verus 0.2026.09.13 + z3", "R15: str::starts_with(char / \"==\"), `&s[n..]` after an ASCII prefix of n characters, str::is_empty, str::trim_start have the specifications of the shims (characters = bytes for `!` and `=`)",
           "eval_term consumes a prefix of the text (axiom_term_rest): its own contract is not proved"]

SPECS = """
pub struct Error { pub e: u8 }
pub open spec fn is_ws(c: char) -> bool { c == ' ' || c == '\\t' || c == '\\n' || c == '\\r' }
pub open spec fn tail(s: Seq<char>, n: int) -> Seq<char> { s.subrange(n, s.len() as int) }
pub open spec fn skip_ws(s: Seq<char>) -> Seq<char> decreases s.len() { if s.len() > 0 && is_ws(s[0]) { skip_ws(tail(s, 1)) } else { s } }
pub proof fn lemma_skip_ws(s: Seq<char>) ensures skip_ws(s).len() <= s.len(), skip_ws(skip_ws(s)) == skip_ws(s), skip_ws(s).len() > 0 ==> !is_ws(skip_ws(s)[0]) decreases s.len()
{ if s.len() > 0 && is_ws(s[0]) { lemma_skip_ws(tail(s, 1)); } }
#[verifier::external_body] pub fn starts_with_char(s: &str, c: char) -> (r: bool) ensures r == (s@.len() > 0 && s@[0] == c) { s.starts_with(c) }
pub open spec fn sw2(s: Seq<char>) -> bool { s.len() >= 2 && s[0] == '=' && s[1] == '=' }
#[verifier::external_body] pub fn starts_with_eqeq(s: &str) -> (r: bool) ensures r == sw2(s@) { s.starts_with("==") }
#[verifier::external_body] pub fn str_from<'a>(s: &'a str, n: usize) -> (r: &'a str) requires s@.len() >= n ensures r@ == tail(s@, n as int) { &s[n..] }
#[verifier::external_body] pub fn str_is_empty(s: &str) -> (r: bool) ensures r == (s@.len() == 0) { s.is_empty() }
pub struct Context { pub k: u8 }
// the term evaluator (eval_term): what it accepts, yields and leaves
pub uninterp spec fn term_ok(s: Seq<char>) -> bool;
pub uninterp spec fn term_val(s: Seq<char>) -> bool;
pub uninterp spec fn term_rest(s: Seq<char>) -> Seq<char>;
#[verifier::external_body] pub broadcast proof fn axiom_term_rest(s: Seq<char>) ensures #[trigger] term_rest(s).len() <= s.len() {}
// ---- reference semantics (from C): `! ! term` ---------------------------------------------------------------------------
pub open spec fn unary_ok(s: Seq<char>) -> bool decreases s.len() { let t = skip_ws(s); if t.len() > 0 && t[0] == '!' && t.len() <= s.len() { unary_ok(tail(t, 1)) } else { term_ok(t) } }
pub open spec fn unary_val(s: Seq<char>) -> bool decreases s.len() { let t = skip_ws(s); if t.len() > 0 && t[0] == '!' && t.len() <= s.len() { !unary_val(tail(t, 1)) } else { term_val(t) } }
pub open spec fn unary_rest(s: Seq<char>) -> Seq<char> decreases s.len() { let t = skip_ws(s); if t.len() > 0 && t[0] == '!' && t.len() <= s.len() { unary_rest(tail(t, 1)) } else { term_rest(t) } }
pub proof fn lemma_unary_rest(s: Seq<char>) ensures unary_rest(s).len() <= s.len() decreases s.len()
{ broadcast use axiom_term_rest; lemma_skip_ws(s); let t = skip_ws(s); if t.len() > 0 && t[0] == '!' { lemma_unary_rest(tail(t, 1)); } }
pub proof fn lemma_unary_skip(s: Seq<char>) ensures unary_ok(s) == unary_ok(skip_ws(s)), unary_val(s) == unary_val(skip_ws(s)), unary_rest(s) == unary_rest(skip_ws(s))
{ lemma_skip_ws(s); }
// ---- `u == u == u`, left to right, given the value of the first operand ----------------------------------------------------
pub open spec fn eqt_go(s: Seq<char>) -> bool { let t = skip_ws(s); sw2(t) && unary_rest(tail(t, 2)).len() < s.len() }
pub open spec fn eqt_ok(s: Seq<char>) -> bool decreases s.len() { let t = skip_ws(s); if eqt_go(s) { unary_ok(tail(t, 2)) && eqt_ok(unary_rest(tail(t, 2))) } else { true } }
pub open spec fn eqt_val(acc: bool, s: Seq<char>) -> bool decreases s.len() { let t = skip_ws(s); if eqt_go(s) { eqt_val(acc == unary_val(tail(t, 2)), unary_rest(tail(t, 2))) } else { acc } }
pub open spec fn eqt_rest(s: Seq<char>) -> Seq<char> decreases s.len() { let t = skip_ws(s); if eqt_go(s) { eqt_rest(unary_rest(tail(t, 2))) } else { t } }
pub proof fn lemma_eqt_go(s: Seq<char>) ensures eqt_go(s) == sw2(skip_ws(s))
{ lemma_skip_ws(s); let t = skip_ws(s); if sw2(t) { lemma_unary_rest(tail(t, 2)); } }
pub proof fn lemma_eqt_rest_skipped(s: Seq<char>) ensures skip_ws(eqt_rest(s)) == eqt_rest(s) decreases s.len()
{ lemma_skip_ws(s); let t = skip_ws(s); if eqt_go(s) { lemma_eqt_rest_skipped(unary_rest(tail(t, 2))); } }
pub open spec fn eq_ok(s: Seq<char>) -> bool { unary_ok(s) && eqt_ok(unary_rest(s)) }
pub open spec fn eq_val(s: Seq<char>) -> bool { eqt_val(unary_val(s), unary_rest(s)) }
pub open spec fn eq_rest(s: Seq<char>) -> Seq<char> { eqt_rest(unary_rest(s)) }
"""

STUBS = """
    #[verifier::external_body] fn skip_whitespace(&self, expr: &mut &str) ensures (*final(expr))@ == skip_ws((*old(expr))@) { unimplemented!() }
    #[verifier::external_body] fn eval_term(&self, expr: &mut &str, line: u32) -> (r: Result<bool, Error>)
        ensures (r is Ok) == term_ok(skip_ws((*old(expr))@)), r is Ok ==> r->Ok_0 == term_val(skip_ws((*old(expr))@)) && (*final(expr))@ == term_rest(skip_ws((*old(expr))@)) { unimplemented!() }
"""


def candidates(f):
    """even and odd numbers of `!`, chains of `==`: the selected branch is the one C selects"""
    out = []
    for cond, defs, want, note in (("!!FOO", "#define FOO 1\n", True, "double negation of 1"), ("!!FOO", "#define FOO 0\n", False, "double negation of 0"), ("! ! !FOO", "#define FOO 0\n", True, "triple negation of 0"),
                                   ("!NOT_FOO", "#define FOO 1\n#define NOT_FOO !FOO\n", True, "negation of a macro that negates"), ("FOO == BAR == 0", "#define FOO 1\n#define BAR 0\n", True, "(1 == 0) == 0"),
                                   ("! !FOO == 0", "#define FOO 0\n", True, "!!0 == 0")):
        out.append({"source": "%sunsigned char r;\nvoid main() {\n#if %s\n r = 1;\n#else\n r = 2;\n#endif\n}\n" % (defs, cond), "args": ["-O0"], "expect": {"panic": False},
                    "simulate": {"init": {}, "expect": {"r": 1 if want else 2}, "stack_empty": True}, "contract_only": True, "note": "#if %s with %s: %s" % (cond, defs.replace("\n", "; "), note)})
    return out


def build(repo):
    u = Unit(NAME, TOOL, PROPS, ["src/cpp.rs: Context::eval_unary", "src/cpp.rs: Context::eval_eq", "src/cpp.rs: Context::evaluate"],
             assumptions=["eval_term and skip_whitespace are stubs: a term's value is a parameter of the proof; the text is a sequence of characters (byte offsets 1 and 2 after `!` and `==` are character offsets)",
                          "the error value built by evaluate() is U-includedin's subject; here it is any error"])
    f = SourceFile(repo, "src/cpp.rs")
    eu = f.fn("eval_unary", within="Context")
    ee = f.fn("eval_eq", within="Context")
    ev = f.fn("evaluate", within="Context")
    cuts = [eu, ee, ev]
    for c in cuts:
        c.sub(r"\bexpr\.starts_with\('!'\)", "starts_with_char(*expr, '!')", "R15 starts_with(char)", expect=(0, 2))
        c.sub(r"\bexpr\.starts_with\(\"==\"\)", "starts_with_eqeq(*expr)", "R15 starts_with(\"==\")", expect=(0, 2))
        c.sub(r"&expr\[(\d+)\.\.\]", r"str_from(*expr, \1)", "R15 &s[n..] (n ASCII characters were just matched)", expect=(0, 2))
    # ---- eval_unary
    eu.set_header("""fn eval_unary(&self, expr: &mut &str, line: u32) -> (r: Result<bool, Error>)
        ensures (r is Ok) == unary_ok((*old(expr))@), //@ C07,C16:if-expression-unary-error-is-the-terms
            r is Ok ==> r->Ok_0 == unary_val((*old(expr))@), //@ C07:if-expression-not-negates-each-time
            r is Ok ==> (*final(expr))@ == unary_rest((*old(expr))@), //@ C07:if-expression-unary-consumes-its-operand
""", expect_sig="fn eval_unary(&self, expr: &mut &str, line: u32) -> Result<bool, Error>")
    eu.after_stmt(r"self\.skip_whitespace\(expr\)", "        proof { lemma_skip_ws((*old(expr))@); lemma_unary_skip((*old(expr))@); }", nth=1)
    eu.loop_spec(1, r"while starts_with_char\(\*expr, ", """            invariant (*expr)@ == skip_ws((*expr)@), unary_ok((*old(expr))@) == unary_ok((*expr)@), unary_val((*old(expr))@) == (negate != unary_val((*expr)@)), unary_rest((*old(expr))@) == unary_rest((*expr)@),
            decreases (*expr)@.len()""")
    eu.at_block_start(r"while starts_with_char\(\*expr, ", "            let ghost e0 = (*expr)@;")
    eu.at_block_end(r"while starts_with_char\(\*expr, ", "            proof { lemma_skip_ws(tail(e0, 1)); lemma_skip_ws(e0); lemma_unary_skip(tail(e0, 1)); }")
    eu.after_block(r"while starts_with_char\(\*expr, ", "proof { lemma_skip_ws((*expr)@); }")
    # ---- eval_eq
    ee.set_header("""fn eval_eq(&self, expr: &mut &str, line: u32) -> (r: Result<bool, Error>)
        ensures (r is Ok) == eq_ok((*old(expr))@), //@ C07,C16:if-expression-eq-error-is-an-operands
            r is Ok ==> r->Ok_0 == eq_val((*old(expr))@), //@ C07:if-expression-eq-left-to-right
            r is Ok ==> (*final(expr))@ == eq_rest((*old(expr))@), //@ C07:if-expression-eq-consumes-its-operands
""", expect_sig="fn eval_eq(&self, expr: &mut &str, line: u32) -> Result<bool, Error>")
    ee.after_stmt(r"self\.skip_whitespace\(expr\)", """        let ghost s1 = unary_rest((*old(expr))@);
        proof { lemma_skip_ws(s1); lemma_eqt_go(s1); }
        let ghost mut cur = s1;""", nth=1)
    ee.loop_spec(1, r"while starts_with_eqeq\(\*expr\)", """            invariant s1 == unary_rest((*old(expr))@), (*expr)@ == skip_ws(cur), eqt_ok(s1) == eqt_ok(cur), eqt_val(unary_val((*old(expr))@), s1) == eqt_val(result, cur), eqt_rest(s1) == eqt_rest(cur), unary_ok((*old(expr))@),
            decreases cur.len()""")
    ee.at_block_start(r"while starts_with_eqeq\(\*expr\)", """            let ghost e0 = (*expr)@;
            proof { lemma_eqt_go(cur); lemma_skip_ws(cur); lemma_unary_rest(tail(e0, 2)); assert(eqt_ok(cur) == (unary_ok(tail(e0, 2)) && eqt_ok(unary_rest(tail(e0, 2))))); }""")
    ee.at_block_end(r"while starts_with_eqeq\(\*expr\)", "            proof { cur = unary_rest(tail(e0, 2)); lemma_skip_ws(cur); lemma_eqt_go(cur); }")
    ee.after_block(r"while starts_with_eqeq\(\*expr\)", "proof { lemma_eqt_go(cur); }")
    # ---- evaluate
    ev.sub(r"!expr\.is_empty\(\)", "!str_is_empty(expr)", "R15 str::is_empty", expect=1)
    ev.sub(r"let filename = self\.current_filename\.clone\(\);\s*let included_in = self\.includes_stack\.last\(\)\.cloned\(\);\s*return Err\(Error::Syntax \{[^}]*\}\);",
           "return Err(Error { e: 0 });", "R1 the error value (file, includer, line, message: U-includedin) -> any error", expect=1)
    ev.set_header("""fn evaluate(&self, mut expr: &str, line: u32) -> (r: Result<bool, Error>)
        ensures (r is Ok) == (eq_ok(expr@) && eq_rest(expr@).len() == 0), //@ C07,C16:if-expression-leftover-is-an-error
            r is Ok ==> r->Ok_0 == eq_val(expr@), //@ C07:if-expression-value
""", expect_sig="fn evaluate(&self, mut expr: &str, line: u32) -> Result<bool, Error>")
    ev.body_start("        let ghost e0 = expr@;")
    ev.after_stmt(r"self\.skip_whitespace\(&mut expr\)", "        proof { lemma_skip_ws(eq_rest(e0)); lemma_eqt_rest_skipped(unary_rest(e0)); }")
    u.text[None] = common.PRELUDE + common.header_comment(NAME, cuts) + "verus! {\n" + SPECS + "impl Context {\n" + STUBS + eu.text + "\n" + ee.text + "\n" + ev.text + "\n}\n" + common.CANARY + "\n} // verus!\n"
    u.rewrites = common.collect_rewrites(cuts)
    u.dropped = ["nothing of the three functions but the error value of evaluate()"]
    return u
