"""U-prec: the three operator tables handed to pest's PrattParser in compile(), run verbatim against a recording shim (C10, C01)."""
import re
from vf.core import Unit
from vf.rustcut import SourceFile, Undecided

NAME = "U-prec"
TOOL = "kani"
PROPS = ["C10", "C01"]
TRUSTED = ["kani 0.68 / cbmc 6.11 (concrete data: complete)", "A-pratt: pest's PrattParser gives each .op() call a strictly higher binding power than the previous one, `|` puts operators on one level, and parses accordingly"]

SHIM = """// GENERATED on every run from /repo's current working tree by /verif/check -- do not edit.
#![allow(unused, non_camel_case_types)]
#[derive(Debug, Copy, Clone, PartialEq)]
pub enum Rule { %(rules)s }
#[derive(Debug, Copy, Clone, PartialEq)]
pub enum Assoc { Left, Right }
#[derive(Debug, Copy, Clone, PartialEq)]
pub enum Kind { Infix, Prefix, Postfix }
const R: usize = %(nall)d;
// R7 shim of pest::pratt_parser::{Op, PrattParser}: records what the builder calls define (tables indexed by rule)
#[derive(Copy, Clone)]
pub struct Op { items: [Option<(Rule, Kind, Assoc)>; 12], n: usize }
impl Op {
    fn one(r: Rule, k: Kind, a: Assoc) -> Op { let mut items = [None; 12]; items[0] = Some((r, k, a)); Op { items, n: 1 } }
    pub fn infix(r: Rule, a: Assoc) -> Op { Op::one(r, Kind::Infix, a) }
    pub fn prefix(r: Rule) -> Op { Op::one(r, Kind::Prefix, Assoc::Right) }
    pub fn postfix(r: Rule) -> Op { Op::one(r, Kind::Postfix, Assoc::Left) }
}
impl std::ops::BitOr for Op {
    type Output = Op;
    fn bitor(self, rhs: Op) -> Op { let mut o = self; let mut k = 0; while k < rhs.n { o.items[o.n] = rhs.items[k]; o.n += 1; k += 1; } o }
}
#[derive(Copy, Clone)]
pub struct PrattParser { lvl: [u32; R], kind: [Kind; R], assoc: [Assoc; R], cnt: [u8; R], level: u32 }
impl PrattParser {
    pub fn new() -> PrattParser { PrattParser { lvl: [0; R], kind: [Kind::Infix; R], assoc: [Assoc::Left; R], cnt: [0; R], level: 0 } }
    pub fn op(mut self, op: Op) -> PrattParser {
        self.level += 1;
        let mut k = 0;
        while k < op.n {
            if let Some((r, kd, a)) = op.items[k] { let i = r as usize; self.lvl[i] = self.level; self.kind[i] = kd; self.assoc[i] = a; self.cnt[i] += 1; }
            k += 1;
        }
        self
    }
    pub fn get(&self, r: Rule) -> Option<(Kind, Assoc, u32)> { let i = r as usize; if self.cnt[i] > 0 { Some((self.kind[i], self.assoc[i], self.lvl[i])) } else { None } }
    pub fn count(&self, r: Rule) -> usize { self.cnt[r as usize] as usize }
}
// ---- oracle: ISO C 6.5 operator levels (low to high), restricted to the operators of the grammar ----
fn c_level(r: Rule) -> u32 {
    match r {
        Rule::comma => 1,
        Rule::assign | Rule::mass | Rule::pass | Rule::mulass | Rule::divass | Rule::andass | Rule::orass | Rule::xorass | Rule::blsass | Rule::brsass => 2,
        Rule::ternary_cond1 | Rule::ternary_cond2 => 3,
        Rule::lor => 4, Rule::land => 5, Rule::or => 6, Rule::xor => 7, Rule::and => 8,
        Rule::eq | Rule::neq => 9,
        Rule::gt | Rule::gte | Rule::lt | Rule::lte => 10,
        Rule::brs | Rule::bls => 11,
        Rule::add | Rule::sub => 12,
        Rule::mul | Rule::div => 13,
        Rule::neg | Rule::not | Rule::bnot | Rule::mmp | Rule::ppp | Rule::deref | Rule::addr | Rule::sizeof => 14,
        Rule::call | Rule::mm | Rule::pp => 15,
        _ => 0,
    }
}
fn c_assoc(r: Rule) -> Assoc { match c_level(r) { 2 | 3 | 14 => Assoc::Right, _ => Assoc::Left } }
const ALL: [Rule; %(nall)d] = [%(all)s];
fn is_ternary(r: Rule) -> bool { r == Rule::ternary_cond1 || r == Rule::ternary_cond2 }

fn table_pratt() -> PrattParser { %(pratt)s pratt }
fn table_init() -> PrattParser { %(init)s pratt_init_value }
fn table_calc() -> PrattParser { %(calc)s calculator }

fn order_ok(t: &PrattParser) -> bool {
    // same C level <=> same binding level, lower C level <=> binds looser, for every two operators of the table:
    // (1) all operators of one C class share one binding level; (2) the classes' levels are strictly increasing.
    // The two ternary tokens form one C class but two adjacent binding levels (checked by prec-ternary-order).
    let mut class_lvl = [0u32; 17];       // class 3 = `?`, class 16 = `:`
    let mut i = 0;
    while i < ALL.len() {
        if let Some((_, _, l)) = t.get(ALL[i]) {
            let c = if ALL[i] == Rule::ternary_cond2 { 16 } else { c_level(ALL[i]) as usize };
            if c == 0 { return false; }
            if class_lvl[c] == 0 { class_lvl[c] = l; } else if class_lvl[c] != l { return false; }
        }
        i += 1;
    }
    let mut prev = 0u32;
    let mut c = 1;
    while c <= 15 {
        if c == 3 {
            // both ternary tokens sit strictly between assignment and ||, next to each other
            let (q, k) = (class_lvl[3], class_lvl[16]);
            if (q != 0) != (k != 0) { return false; }
            if q != 0 {
                let (lo, hi) = if q < k { (q, k) } else { (k, q) };
                if lo <= prev || hi != lo + 1 { return false; }
                prev = hi;
            }
        } else if class_lvl[c] != 0 {
            if class_lvl[c] <= prev { return false; }
            prev = class_lvl[c];
        }
        c += 1;
    }
    true
}
fn assoc_ok(t: &PrattParser) -> bool {
    let mut i = 0;
    while i < ALL.len() {
        if let Some((k, a, _)) = t.get(ALL[i]) {
            // the comma operator's associativity is not observable (left operand evaluated first, value of the right one)
            if k == Kind::Infix && ALL[i] != Rule::comma && a != c_assoc(ALL[i]) { return false; }
            let expect_kind = match c_level(ALL[i]) { 14 => Kind::Prefix, 15 => Kind::Postfix, _ => Kind::Infix };
            if k != expect_kind { return false; }
            if t.count(ALL[i]) != 1 { return false; }
        }
        i += 1;
    }
    true
}
#[cfg(kani)]
mod harness {
    use super::*;
    #[kani::proof] #[kani::unwind(45)] fn prec_pratt_order() { assert!(order_ok(&table_pratt())); }
    #[kani::proof] #[kani::unwind(45)] fn prec_pratt_assoc() { assert!(assoc_ok(&table_pratt())); }
    #[kani::proof] #[kani::unwind(45)] fn prec_init_order() { assert!(order_ok(&table_init())); }
    #[kani::proof] #[kani::unwind(45)] fn prec_init_assoc() { assert!(assoc_ok(&table_init())); }
    #[kani::proof] #[kani::unwind(45)] fn prec_calc_order() { assert!(order_ok(&table_calc())); }
    #[kani::proof] #[kani::unwind(45)] fn prec_calc_assoc() { assert!(assoc_ok(&table_calc())); }
    #[kani::proof] #[kani::unwind(45)]
    fn prec_init_is_pratt_without_comma() {
        let (p, q) = (table_pratt(), table_init());
        let mut i = 0;
        while i < ALL.len() {
            let r = ALL[i];
            if r == Rule::comma { assert!(q.get(r).is_none() && p.get(r).is_some()); }
            else { assert!(p.get(r).is_some() == q.get(r).is_some()); }
            i += 1;
        }
    }
    #[kani::proof] #[kani::unwind(45)]
    fn prec_calc_ternary_order() {
        // the calculator's closures compute cond2(cond1(a, b), c): `?` must bind tighter than `:` there
        let t = table_calc();
        match (t.get(Rule::ternary_cond1), t.get(Rule::ternary_cond2)) { (Some((_, _, l1)), Some((_, _, l2))) => assert!(l1 > l2), _ => assert!(false) }
        // the expression parsers build Ternary from cond1(a, cond2(b, c)): `:` binds tighter than `?`
        let p = table_pratt();
        match (p.get(Rule::ternary_cond1), p.get(Rule::ternary_cond2)) { (Some((_, _, l1)), Some((_, _, l2))) => assert!(l1 < l2), _ => assert!(false) }
    }
    #[kani::proof] fn canary_must_fail() { let a: u8 = kani::any(); assert!(a != 77); }
}
"""


def build(repo):
    u = Unit(NAME, TOOL, PROPS, ["src/compile.rs: compile() -- `let pratt = PrattParser::new()…`, `let pratt_init_value = …`, `let calculator = …`"],
             assumptions=["A-pratt: pest PrattParser semantics (later .op() binds tighter; `|` = same level)", "oracle: ISO C 6.5 precedence/associativity restricted to the grammar's operators",
                          "comma associativity is not constrained (not observable)", "which grammar rule feeds which table (cc6502.pest) is not under contract"],
             bounded=["loops over the rule-indexed recording tables are unrolled with #[kani::unwind(45)] and unwinding assertions on: complete for these concrete tables"])
    f = SourceFile(repo, "src/compile.rs")
    s, ob, cb = f.find_fn_span("compile")
    cuts = {}
    for name in ("pratt", "pratt_init_value", "calculator"):
        cuts[name] = f.stmt(r"let %s = PrattParser::new\(\)" % name, s, cb, desc="compile(): let %s = PrattParser::new()…;" % name)
    rules = sorted(set(re.findall(r"\bRule::(\w+)", "".join(c.text for c in cuts.values()))))
    fixed = ["comma", "assign", "mass", "pass", "mulass", "divass", "andass", "orass", "xorass", "blsass", "brsass", "ternary_cond1", "ternary_cond2", "lor", "land", "or", "xor", "and", "eq", "neq",
             "gt", "gte", "lt", "lte", "brs", "bls", "add", "sub", "mul", "div", "neg", "not", "bnot", "mmp", "ppp", "deref", "addr", "sizeof", "call", "mm", "pp"]
    allr = fixed + [r for r in rules if r not in fixed]
    text = SHIM % {"rules": ", ".join(allr), "nall": len(allr), "all": ", ".join("Rule::" + r for r in allr),
                   "pratt": cuts["pratt"].text, "init": cuts["pratt_init_value"].text, "calc": cuts["calculator"].text}
    u.text[None] = text
    for h, nm, note in (("prec_pratt_order", "prec-expr-order", "expression table: binding order equals the C order for every pair of operators"),
                        ("prec_pratt_assoc", "prec-expr-assoc", "expression table: associativity/kind as in C, each operator defined once"),
                        ("prec_init_order", "prec-init-order", "initialiser table: binding order equals the C order"),
                        ("prec_init_assoc", "prec-init-assoc", "initialiser table: associativity/kind as in C"),
                        ("prec_calc_order", "prec-calc-order", "constant calculator table: binding order equals the C order"),
                        ("prec_calc_assoc", "prec-calc-assoc", "constant calculator table: associativity/kind as in C"),
                        ("prec_init_is_pratt_without_comma", "prec-init-is-expr-minus-comma", "the initialiser table has exactly the operators of the expression table except comma"),
                        ("prec_calc_ternary_order", "prec-ternary-order", "relative order of ? and : is the one each consumer's ternary encoding needs")):
        u.harnesses[h] = (["C10", "C01"], nm, note)
    u.harnesses["canary_must_fail"] = (["C00"], "canary", "deliberately false")
    u.rewrites = ["R7: the three builder statements are run verbatim against a recording shim of pest::pratt_parser::{Op, PrattParser, Assoc}"]
    u.dropped = ["everything else in compile()"]
    return u
