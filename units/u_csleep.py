"""U-csleep: the timing / hardware-access statement generators, verified against the contracts of asm() proved in U-asm (C18, C01 flags)."""
import re
from vf.core import Unit
from vf.rustcut import SourceFile, Undecided
from . import common, u_asm

NAME = "U-csleep"
TOOL = "verus"
PROPS = ["C18", "C01", "C16"]
RLIMIT = 150
TRUSTED = ["verus 0.2026.09.13 + z3", "A-isa: 6502 cycle counts NOP 2, PHA 3, PLA 4, STA zp 3 / abs 4, DEC zp 5 / abs 6 (MOS datasheet)",
           "contracts of asm / sasm_protected / inline as proved by U-asm (the same header text is spliced in both units)"]

SPECS = """
// ---- C18 vocabulary ---------------------------------------------------------------------------------------------
pub open spec fn added(a: Seq<AsmLine>, b: Seq<AsmLine>) -> Seq<AsmLine> { b.subrange(a.len() as int, b.len() as int) }
pub open spec fn extends(a: Seq<AsmLine>, b: Seq<AsmLine>) -> bool { a.len() <= b.len() && b.subrange(0, a.len() as int) =~= a }
pub open spec fn inst(l: AsmLine) -> AsmInstruction { l->Instruction_0 }
pub open spec fn all_protected_insts(s: Seq<AsmLine>) -> bool { forall|k: int| 0 <= k < s.len() ==> (#[trigger] s[k]) is Instruction && inst(s[k]).protected }
// A-isa: real cycle counts (not the `cycles` annotation asm() computes); a 2-byte STA/DEC is the zero-page form (C04)
pub open spec fn real_cycles(i: AsmInstruction) -> int {
    match i.mnemonic {
        AsmMnemonic::NOP => 2, AsmMnemonic::PHA => 3, AsmMnemonic::PLA => 4,
        AsmMnemonic::STA => if i.nb_bytes == 2 { 3 } else { 4 },
        AsmMnemonic::DEC => if i.nb_bytes == 2 { 5 } else { 6 },
        _ => 1000,
    }
}
pub open spec fn total_cycles(s: Seq<AsmLine>) -> int decreases s.len() {
    if s.len() == 0 { 0 } else { total_cycles(s.drop_last()) + (if s.last() is Instruction { real_cycles(inst(s.last())) } else { 1000 }) }
}
// the only instructions a delay may consist of: they change no program variable and no register value
pub open spec fn harmless_at(s: Seq<AsmLine>, k: int) -> bool {
    let i = inst(s[k]);
    i.mnemonic == AsmMnemonic::NOP
    || ((i.mnemonic == AsmMnemonic::STA || i.mnemonic == AsmMnemonic::DEC) && i.dasm_operand@ == "DUMMY"@)
    || (i.mnemonic == AsmMnemonic::PHA && k + 1 < s.len() && s[k + 1] is Instruction && inst(s[k + 1]).mnemonic == AsmMnemonic::PLA)
    || (i.mnemonic == AsmMnemonic::PLA && k >= 1 && s[k - 1] is Instruction && inst(s[k - 1]).mnemonic == AsmMnemonic::PHA)
}
pub open spec fn harmless(s: Seq<AsmLine>) -> bool { forall|k: int| 0 <= k < s.len() ==> (#[trigger] s[k]) is Instruction && harmless_at(s, k) }
// A-dummy: DUMMY is the zero-page scratch symbol declared by compile() under feature atari2600
pub open spec fn dummy_ok(g: &GeneratorState) -> bool {
    let v = g.compiler_state.var("DUMMY"@);
    g.compiler_state.declared("DUMMY"@) && v.var_type == VariableType::Char && v.memory == VariableMemory::Zeropage && v.size < 0x100
}
// what is still assumed of DUMMY (A-dummy): when it is a zero-page symbol, it is a char
pub open spec fn dummy_shape(g: &GeneratorState) -> bool {
    let v = g.compiler_state.var("DUMMY"@);
    (g.compiler_state.declared("DUMMY"@) && v.memory == VariableMemory::Zeropage) ==> (v.var_type == VariableType::Char && v.size < 0x100)
}
pub open spec fn needs_dummy(cycles: i32) -> bool { cycles == 3 || cycles == 5 || cycles == 9 || cycles == 10 }
pub proof fn lemma_total_push(s: Seq<AsmLine>, l: AsmLine)
    ensures total_cycles(s.push(l)) == total_cycles(s) + (if l is Instruction { real_cycles(inst(l)) } else { 1000 })
{ assert(s.push(l).drop_last() =~= s); }
"""


def build(repo):
    u = Unit(NAME, TOOL, PROPS,
             ["src/generate/generate_statements.rs: GeneratorState::generate_csleep_statement", "src/generate/generate_statements.rs: GeneratorState::generate_load_store_statement",
              "src/generate/generate_statements.rs: GeneratorState::generate_strobe_statement", "src/generate/generate_statements.rs: GeneratorState::generate_asm_statement"],
             assumptions=["A-dummy: DUMMY exists and is a zero-page char (declared by compile() only under feature atari2600; without it csleep(3|5|9|10) is a located error since 386d608)",
                          "A-isa cycle table; STA/DEC with a 2-byte encoding are the zero-page forms (by C04's O-C04-nb)",
                          "callee contracts (asm, sasm_protected, inline) are those proved in U-asm; R5/R6 shim environment of U-asm",
                          "'exactly once, in source order' through control flow and the optimiser's treatment of protected lines are other units (U-opt) / not decided"])
    e = u_asm.env(repo)
    gs = SourceFile(repo, "src/generate/generate_statements.rs")
    comp = SourceFile(repo, "src/compile.rs")
    cuts = []
    tys = []
    for kind, name, st in (("enum", "Operation", True), ("enum", "Expr", False)):
        c = comp.item(kind, name)
        common.r2(c, structural=st)
        if not st:
            c.sub(r"#\[derive\(([^)]*)\)\]", "", "R2-derive (Clone on a recursive enum is not needed)", expect=(0, 1))
        cuts.append(c)
        tys.append(c.text)
    parts = []
    # ---- csleep
    cs = gs.fn("generate_csleep_statement", within="GeneratorState")
    cuts.append(cs)
    cs.sub(r"\"DUMMY\"\.into\(\)", '"DUMMY".to_string()', "R3-into (`\"lit\".into()` for String is to_string)", expect=(0, 8))
    cs.set_header("""fn generate_csleep_statement(&mut self, cycles: i32, pos: usize) -> (res: Result<(), Error>)
        requires old(self).current_function is Some, dummy_shape(old(self)),
        ensures
            // accepted for 2..10; the counts that use DUMMY need it to be a zero-page cell (their cycle counts are those of the zero-page forms)
            (res is Ok) == (2 <= cycles <= 10 && (needs_dummy(cycles) ==> dummy_ok(old(self)))), //@ C18:csleep-domain
            extends(old(self).out.code@, final(self).out.code@), //@ C18:csleep-frame
            res is Err ==> final(self).out.code@ == old(self).out.code@, //@ C18:csleep-err-emits-nothing
            res is Ok ==> total_cycles(added(old(self).out.code@, final(self).out.code@)) == cycles, //@ C18:csleep-cycles
            res is Ok ==> harmless(added(old(self).out.code@, final(self).out.code@)), //@ C18:csleep-pure
            res is Ok ==> all_protected_insts(added(old(self).out.code@, final(self).out.code@)), //@ C18:csleep-protected
            res is Ok ==> final(self).flags == FlagsState::Unknown, //@ C18,C01:csleep-flags
            final(self).protected == false || (res is Err && final(self).protected == old(self).protected), //@ C18:csleep-unprotects-after
            final(self).current_function == old(self).current_function && final(self).compiler_state == old(self).compiler_state,
""", expect_sig="fn generate_csleep_statement(&mut self, cycles: i32, pos: usize) -> Result<(), Error>")
    cs.body_start("""
        proof { reveal_strlit("DUMMY"); reveal_strlit(""); reveal_with_fuel(total_cycles, 6); }
        let ghost c0 = self.out.code@;
        assert(added(c0, c0) =~= Seq::<AsmLine>::empty());
""")
    # after every emitting call: relate the new code to the previous one (hints; robust: keyed on the call text)
    hint = """ proof { let c1 = self.out.code@; assert(extends(c0, c1));
            assert(added(c0, c1) =~= added(c0, c1.drop_last()).push(c1.last()));
            lemma_total_push(added(c0, c1.drop_last()), c1.last()); } """
    cs.text = re.sub(r"(self\.sasm_protected\((\w+)\)\?)", r"{ let __r = \1;" + hint + " __r }", cs.text)
    cs.text = re.sub(r"(self\.asm\(\s*(?:STA|DEC),\s*&ExprType::Absolute\(\"DUMMY\"\.to_string\(\), true, 0\),\s*pos,\s*false,\s*\)\?)", r"{ let __r = \1;" + hint + " __r }", cs.text)
    cs.log.append("hint placement: every emitting call `E?` wrapped as `{ let __r = E?; proof {…} __r }` (ghost only)")
    parts.append(cs.text)
    # ---- load / store
    ls = gs.fn("generate_load_store_statement", within="GeneratorState")
    cuts.append(ls)
    ls.set_header("""fn generate_load_store_statement(
        &mut self,
        expr: &ExprType,
        pos: usize,
        load: bool,
    ) -> (res: Result<(), Error>)
        requires
            old(self).current_function is Some,
            names_ok(*expr),
            (expr is Absolute || expr is AbsoluteX || expr is AbsoluteY) ==> var_of(old(self), *expr).size < 0x100_0000,
            !(expr is X) && !(expr is Y) ==> caller_legal(old(self), if load { AsmMnemonic::LDA } else { AsmMnemonic::STA }, *expr, false),
        ensures
            res is Ok ==> final(self).protected == false, //@ C18:loadstore-unprotects-after
            extends(old(self).out.code@, final(self).out.code@), //@ C18:loadstore-frame
            // exactly one instruction per statement (none when the value already sits in A and is to be loaded into A)
            res is Ok ==> added(old(self).out.code@, final(self).out.code@).len() == (if load && expr is A { 0int } else { 1int }), //@ C18:loadstore-once
            res is Ok ==> all_protected_insts(added(old(self).out.code@, final(self).out.code@)), //@ C18:loadstore-protected
            (res is Ok && !(load && expr is A)) ==> inst(final(self).out.code@[old(self).out.code@.len() as int]).mnemonic ==
                (if expr is X { if load { AsmMnemonic::TXA } else { AsmMnemonic::TAX } } else if expr is Y { if load { AsmMnemonic::TYA } else { AsmMnemonic::TAY } }
                 else if load { AsmMnemonic::LDA } else { AsmMnemonic::STA }), //@ C18:loadstore-mnemonic
            (res is Ok && load) ==> final(self).flags == FlagsState::Unknown, //@ C18,C01:load-flags
            // TAX / TAY set N and Z from the accumulator: whatever the generator believed about them is gone
            (res is Ok && (expr is X || expr is Y)) ==> final(self).flags == FlagsState::Unknown, //@ C01,C18:register-transfer-forgets-flags
            // a store to memory: a belief that N/Z describe a memory cell may be about the cell just overwritten
            (res is Ok && !load && !(expr is X || expr is Y)) ==> (final(self).flags is A || final(self).flags is X || final(self).flags is Y || final(self).flags is Unknown), //@ C01,C18:store-to-memory-drops-memory-belief
            // a value is loaded, a place is stored to: nothing is emitted for `store(5)`, `store(array)`, `load(void call)`
            res is Ok ==> !(expr is Nothing) && !(expr is Label) && (!load ==> !(expr is Immediate) && !(expr is A)), //@ C18,C13:loadstore-operand-is-a-value-or-a-place
            res is Err ==> final(self).out.code@ == old(self).out.code@,
""", expect_sig="fn generate_load_store_statement( &mut self, expr: &ExprType, pos: usize, load: bool, ) -> Result<(), Error>")
    ls.body_start("        let ghost c0 = self.out.code@;\n        proof { reveal_strlit(\"\"); assert(added(c0, c0) =~= Seq::<AsmLine>::empty()); }")
    parts.append(ls.text)
    # ---- strobe
    st = gs.fn("generate_strobe_statement", within="GeneratorState")
    cuts.append(st)
    st.set_header("""fn generate_strobe_statement(&mut self, expr: &Expr, pos: usize) -> (res: Result<(), Error>)
        requires
            old(self).current_function is Some, old(self).protected == false,
            match *expr { Expr::Identifier(name, _) => ident(name@) && old(self).compiler_state.var(name@).size < 0x100_0000, _ => true },
        ensures
            res is Ok ==> final(self).protected == false, //@ C18:strobe-unprotects-after
            extends(old(self).out.code@, final(self).out.code@), //@ C18:strobe-frame
            res is Ok ==> added(old(self).out.code@, final(self).out.code@).len() == 1 && all_protected_insts(added(old(self).out.code@, final(self).out.code@)), //@ C18:strobe-protected-once
            res is Ok ==> inst(final(self).out.code@[old(self).out.code@.len() as int]).mnemonic == AsmMnemonic::STA, //@ C18:strobe-is-store
            // a strobe on an ordinary (not split-port) constant pointer writes to the named address itself
            (res is Ok && (match *expr { Expr::Identifier(name, sub) => *sub is Nothing && old(self).compiler_state.var(name@).var_const && port(old(self), old(self).compiler_state.var(name@), AsmMnemonic::STA) == 0, _ => false }))
                ==> inst(final(self).out.code@[old(self).out.code@.len() as int]).dasm_operand@ == expr->Identifier_0@, //@ C18:strobe-address
            // the cell strobed is overwritten: a belief that N/Z describe a memory cell may be about it
            res is Ok ==> (final(self).flags is A || final(self).flags is X || final(self).flags is Y || final(self).flags is Unknown), //@ C01,C18:strobe-drops-memory-belief
            // a subscript is honoured (a constant one designates the element) or rejected, never ignored
            (res is Ok && expr is Identifier) ==> (*expr->Identifier_1 is Nothing || *expr->Identifier_1 is Integer), //@ C18,C01:strobe-subscript-constant-or-rejected
            (res is Ok && (match *expr { Expr::Identifier(name, sub) => *sub is Integer && sub->Integer_0 > 0 && port(old(self), old(self).compiler_state.var(name@), AsmMnemonic::STA) == 0, _ => false }))
                ==> inst(final(self).out.code@[old(self).out.code@.len() as int]).dasm_operand@ == addr_text(expr->Identifier_0@, (*expr->Identifier_1)->Integer_0 as int), //@ C18,C01:strobe-address-of-the-element
            res is Err ==> final(self).out.code@ == old(self).out.code@,
""", expect_sig="fn generate_strobe_statement(&mut self, expr: &Expr, pos: usize) -> Result<(), Error>")
    st.body_start("        let ghost c0 = self.out.code@;\n        proof { assert(added(c0, c0) =~= Seq::<AsmLine>::empty()); }")
    parts.append(st.text)
    if "fn variable_or_error" in gs.text:
        # the lookup helper of generate_statements.rs (a failed lookup is an error, not a panic); stub with the meaning of the R6 shim's get_variable
        parts.append("""    #[verifier::external_body]
    fn variable_or_error(&self, name: &str, pos: usize) -> (r: Result<&'a Variable, Error>)
        ensures (r is Ok) == self.compiler_state.declared(name@), r is Ok ==> *r->Ok_0 == self.compiler_state.var(name@),
    { unimplemented!() }
""")
    # ---- asm statement
    am = gs.fn("generate_asm_statement", within="GeneratorState")
    cuts.append(am)
    am.set_header("""fn generate_asm_statement(&mut self, s: &str, size: Option<u32>) -> (res: Result<(), Error>)
        requires old(self).current_function is Some,
        ensures res is Ok,
            extends(old(self).out.code@, final(self).out.code@) && added(old(self).out.code@, final(self).out.code@).len() == 1, //@ C18:asm-stmt-once
            (match final(self).out.code@[old(self).out.code@.len() as int] { AsmLine::Inline(t, n) => t@ == s@ && n == (match size { Some(k) => k, None => 3u32 }), _ => false }), //@ C18,C04:asm-stmt-verbatim
            // inline assembly can change any register and any flag
            final(self).flags == FlagsState::Unknown && !final(self).carry_flag_ok, //@ C01,C18:asm-statement-forgets-flags
""", expect_sig="fn generate_asm_statement(&mut self, s: &str, size: Option<u32>) -> Result<(), Error>")
    parts.append(am.text)
    text = common.PRELUDE + common.header_comment(NAME, cuts) + "verus! {\n" + e["types"] + "\n" + "\n".join(tys) + e["specs"] + e["append_impl"] + e["shim"] + SPECS + \
        "impl<'a> GeneratorState<'a> {\n" + e["stubs"] + "\n" + "\n".join(parts) + "\n}\n" + common.CANARY + "\n} // verus!\n"
    u.text[None] = text
    u.rewrites = common.collect_rewrites(cuts)
    u.dropped = ["callees asm/sasm/sasm_protected/inline/label are external_body stubs carrying the contracts proved in U-asm", "R6 shim environment of U-asm"]
    return u
