"""U-includedin: every place of src/cpp.rs that reads the include stack to say where the current file was included from (the statement at the head of
process() that feeds every preprocessor error and every line-map entry of the file, and the three error sites of Context::evaluate / evaluate_term),
R8 windows verified in Verus: what is reported is the TOP of the stack -- the file and line of the `#include` that brought the current file in -- and
nothing when the stack is empty (C06: 'for included files, the including file and line').  The push / pop discipline of the stack is U-cond's."""
import re
from vf.core import Unit
from vf.rustcut import SourceFile, Undecided, mask
from . import common

NAME = "U-includedin"
TOOL = "verus"
PROPS = ["C06"]
RLIMIT = 50
TRUSTED = ["verus 0.2026.09.13 + z3", "R18: Vec::last / Vec::first / Option::cloned / tuple clone / Rc::new are shims with their definitions",
           "the include stack holds (file, line of its #include directive) pairs, innermost last (U-cond: include-stack-balanced, the push is `(filename.clone(), line)`)"]

SPECS = """
pub struct RcString { pub v: String }        // R6 shim of std::rc::Rc<String>: what it holds
#[verifier::external_body] pub fn rc_new(s: String) -> (r: RcString) ensures r.v == s { unimplemented!() }
#[verifier::external_body] pub fn string_clone(s: &String) -> (r: String) ensures r == *s { unimplemented!() }
#[verifier::external_body] pub fn pair_clone(s: &(String, u32)) -> (r: (String, u32)) ensures r == *s { unimplemented!() }
#[verifier::external_body] pub fn vec_last_su(v: &Vec<(String, u32)>) -> (r: Option<&(String, u32)>) ensures v@.len() == 0 ==> r is None, v@.len() > 0 ==> r is Some && *r->Some_0 == v@[v@.len() - 1] { unimplemented!() }
#[verifier::external_body] pub fn vec_first_su(v: &Vec<(String, u32)>) -> (r: Option<&(String, u32)>) ensures v@.len() == 0 ==> r is None, v@.len() > 0 ==> r is Some && *r->Some_0 == v@[0] { unimplemented!() }
#[verifier::external_body] pub fn opt_cloned(o: Option<&(String, u32)>) -> (r: Option<(String, u32)>) ensures o is None ==> r is None, o is Some ==> r == Some(*o->Some_0) { unimplemented!() }
pub struct Context { pub includes_stack: Vec<(String, u32)> }
// the immediate includer: the innermost entry
pub open spec fn includer(st: Seq<(String, u32)>) -> Option<(String, u32)> { if st.len() == 0 { None } else { Some(st[st.len() - 1]) } }
"""


def rewrite(c):
    c.sub(r"\b(self|context)\.includes_stack\.last\(\)\.cloned\(\)", r"opt_cloned(vec_last_su(&\1.includes_stack))", "R18 Vec::last().cloned() -> shims", expect=(0, 2))
    c.sub(r"\b(self|context)\.includes_stack\.first\(\)\.cloned\(\)", r"opt_cloned(vec_first_su(&\1.includes_stack))", "R18 Vec::first().cloned() -> shims", expect=(0, 2))
    c.sub(r"\b(self|context)\.includes_stack\.last\(\)", r"vec_last_su(&\1.includes_stack)", "R18 Vec::last -> shim", expect=(0, 2))
    c.sub(r"\b(self|context)\.includes_stack\.first\(\)", r"vec_first_su(&\1.includes_stack)", "R18 Vec::first -> shim", expect=(0, 2))
    c.sub(r"std::rc::Rc::<String>::new\(", "rc_new(", "R6 Rc::new -> shim", expect=(0, 2))
    c.sub(r"\bs\.0\.clone\(\)", "string_clone(&s.0)", "R11 String::clone -> shim", expect=(0, 2))
    c.sub(r"\bs\.clone\(\)", "pair_clone(s)", "R11 tuple clone -> shim", expect=(0, 2))


def build(repo):
    u = Unit(NAME, TOOL, PROPS, ["src/cpp.rs: process() -- `let (included_in, included_in_rc) = ..;` (R8)", "src/cpp.rs: Context::evaluate / evaluate_term -- `let included_in = ..;` at the error sites (R8)"],
             assumptions=["the stack discipline (push at #include with the current file and line, pop afterwards) is U-cond's obligation include-stack-balanced",
                          "that every error constructor uses the `included_in` computed by these statements is a syntactic fact of the struct literals (field init shorthand), not verified"])
    f = SourceFile(repo, "src/cpp.rs")
    m = mask(f.text)
    reads = [x for x in re.finditer(r"includes_stack\s*\.\s*(\w+)\(", m) if x.group(1) not in ("push", "pop", "is_empty", "len")]
    cuts, fns = [], []
    # ---- process(): the tuple statement
    s0, ob0, cb0 = f.find_fn_span("process")
    st = f.stmt(r"let \(included_in, included_in_rc\) = ", s0, cb0, desc="process(): `let (included_in, included_in_rc) = ..;` (R8)")
    cuts.append(st)
    n_in_process = len(re.findall(r"includes_stack\s*\.\s*(?!push|pop|is_empty|len)\w+\(", mask(st.text)))
    rewrite(st)
    fns.append("""
// R8: the statement of process(), verbatim; `context` is the window's parameter
pub fn process_included_in(context: &Context) -> (r: (Option<(String, u32)>, Option<(RcString, u32)>))
    ensures
        r.0 == includer(context.includes_stack@), //@ C06:process-included-in-is-the-immediate-includer
        (r.1 is Some) == (r.0 is Some) && (r.1 is Some ==> r.1->Some_0.0.v == r.0->Some_0.0 && r.1->Some_0.1 == r.0->Some_0.1), //@ C06:linemap-included-in-agrees
{
%s
    (included_in, included_in_rc)
}
""" % st.text)
    # ---- the error sites of the expression evaluator
    sites = [x for x in re.finditer(r"let included_in = (self|context)\.includes_stack\b", m)]
    for k, x in enumerate(sites):
        c = f.stmt(r"let included_in = (?:self|context)\.includes_stack\b", x.start(), None, desc="cpp.rs: `let included_in = ..;` #%d (R8)" % (k + 1))
        cuts.append(c)
        rewrite(c)
        recv = x.group(1)
        fns.append("""
pub fn error_site_%(k)d(%(recv)s: &Context) -> (r: Option<(String, u32)>)
    ensures r == includer(%(recv)s.includes_stack@), //@ C06:error-included-in-is-the-immediate-includer
{
%(body)s
    included_in
}
""" % {"k": k + 1, "recv": recv if recv != "self" else "this", "body": c.text.replace("self.", "this.")})
    if len(reads) != len(sites) + n_in_process:
        raise Undecided("src/cpp.rs reads includes_stack at %d places, %d of them are under contract: a new reader has appeared" % (len(reads), len(sites) + n_in_process))
    if len(sites) < 3:
        raise Undecided("fewer than 3 `let included_in = ..includes_stack..` error sites in src/cpp.rs (%d)" % len(sites))
    u.text[None] = common.PRELUDE + common.header_comment(NAME, cuts) + "verus! {\n" + SPECS + "\n".join(fns) + common.CANARY + "\n} // verus!\n"
    u.rewrites = common.collect_rewrites(cuts)
    u.dropped = ["everything of process() / evaluate() but the statements that read the include stack"]
    return u
