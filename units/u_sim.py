"""U-sim: BOUNDED stand-in for the whole-program half of C01 / C15 / C02 / C14 that no per-function contract reaches: a corpus of small programs is
compiled by the real compiler, the emitted code is executed on the 6502 interpreter (vf/sim6502.py) from stated initial values and the final
variables are compared with C semantics, at -O0 (C01, C15) and at -O1 (C02).  Not a proof: never counted among the discharged obligations."""
import re
from vf.core import Unit

NAME = "U-sim"
TOOL = "sim"
PROPS = ["C01", "C15", "C02", "C14", "C09"]
TRUSTED = ["vf/sim6502.py (datasheet semantics of the instructions cc6502 emits; decimal mode off)", "vf/probe driver (generate -> optimize -> check_branches -> write)",
           "expected values computed in Python from C semantics (unsigned char / 16-bit short, no overflowing signed comparisons)"]


def _prog(decl, body, sim, note="", args=None):
    return {"source": "%s\nvoid main() { %s }\n" % (decl, body), "args": list(args or []), "expect": {"panic": False}, "simulate": dict(sim, stack_empty=True), "note": note}


def _extra():
    """programs beyond the units' candidate lists: statements, loops, ++/--, shifts, 16-bit mixes, inline functions"""
    g = {}
    def add(group, *a, **k):
        g.setdefault(group, []).append(_prog(*a, **k))
    # 16-bit result from an 8-bit register and a constant (the high byte must see the carry of the low byte)
    for x, k in ((100, 1000), (10, 1000), (250, 300), (0, 65535 - 255)):
        add("add16-register-constant", "short s;", "s = X + %d;" % k, {"x": x, "expect16": {"s": (x + k) & 0xffff}}, "X=%d" % x)
        add("add16-register-constant", "short s;", "s = Y + %d;" % k, {"y": x, "expect16": {"s": (x + k) & 0xffff}}, "Y=%d" % x)
        add("sub16-constant-register", "short s;", "s = %d - X;" % k, {"x": x, "expect16": {"s": (k - x) & 0xffff}}, "X=%d" % x)
        add("add16-char-constant", "short s; unsigned char c;", "s = c + %d;" % k, {"init": {"c": x}, "expect16": {"s": (x + k) & 0xffff}}, "c=%d" % x)
    # ++ / -- in their forms
    for v in (0, 1, 127, 255):
        add("plusplus8", "unsigned char a, b;", "a++; b = a;", {"init": {"a": v}, "expect": {"a": (v + 1) & 255, "b": (v + 1) & 255}}, "a=%d" % v)
        add("plusplus8", "unsigned char a, b;", "a--; b = a;", {"init": {"a": v}, "expect": {"a": (v - 1) & 255, "b": (v - 1) & 255}}, "a=%d" % v)
        add("plusplus8", "unsigned char a, b;", "b = a++;", {"init": {"a": v}, "expect": {"a": (v + 1) & 255, "b": v}}, "a=%d" % v)
        add("plusplus8", "unsigned char a, b;", "b = ++a;", {"init": {"a": v}, "expect": {"a": (v + 1) & 255, "b": (v + 1) & 255}}, "a=%d" % v)
        add("plusplus-equivalents", "unsigned char a;", "a += 1;", {"init": {"a": v}, "expect": {"a": (v + 1) & 255}}, "a=%d" % v)
        add("plusplus-equivalents", "unsigned char a;", "a = a + 1;", {"init": {"a": v}, "expect": {"a": (v + 1) & 255}}, "a=%d" % v)
        add("plusplus-equivalents", "unsigned char a;", "X = a; X++; a = X;", {"init": {"a": v}, "expect": {"a": (v + 1) & 255}}, "a=%d" % v)
    for v in (0, 255, 256, 0x1ff, 0xffff, 0x0100):
        add("plusplus16", "short s;", "s++;", {"init16": {"s": v}, "expect16": {"s": (v + 1) & 0xffff}}, "s=%d" % v)
        add("plusplus16", "short s;", "s--;", {"init16": {"s": v}, "expect16": {"s": (v - 1) & 0xffff}}, "s=%d" % v)
        add("plusplus16-then-test", "short s; unsigned char z;", "z = 0; s--; if (s != 0) z = 1;", {"init16": {"s": v}, "expect": {"z": int(((v - 1) & 0xffff) != 0)}}, "s=%d" % v)
        add("plusplus16-then-test", "short s; unsigned char z;", "z = 0; s++; if (s == 0) z = 1;", {"init16": {"s": v}, "expect": {"z": int(((v + 1) & 0xffff) == 0)}}, "s=%d" % v)
    # post-increment / post-decrement take effect exactly once, after the value is used, wherever the expression stands
    for j in (0, 5, 7):
        add("deferred-plusplus", "unsigned char j, k, n;", "n = 0; for (k = j++; k != 8; k++) n++;", {"init": {"j": j}, "expect": {"j": (j + 1) & 255, "n": (8 - j) & 255, "k": 8}}, "j=%d" % j)
        add("deferred-plusplus", "unsigned char j, k, n;", "n = 0; k = j++; while (k != 8) { n++; k++; }", {"init": {"j": j}, "expect": {"j": (j + 1) & 255, "n": (8 - j) & 255}}, "j=%d" % j)
        add("deferred-plusplus", "unsigned char j, k, n;", "n = 0; for (j--; n != 3; n++) k = j;", {"init": {"j": j}, "expect": {"j": (j - 1) & 255, "k": (j - 1) & 255, "n": 3}}, "j=%d" % j)
        add("deferred-plusplus-in-if-condition", "unsigned char j, k, n;", "n = 0; if (j++ == 5) n = 1; k = j;", {"init": {"j": j}, "expect": {"n": int(j == 5), "k": (j + 1) & 255}}, "j=%d" % j)
        add("deferred-plusplus", "unsigned char j, k, arr[10];", "arr[5] = 1; arr[6] = 2; arr[7] = 3; X = j; k = arr[X++]; j = X;", {"init": {"j": 5}, "expect": {"k": 1, "j": 6}}, "")
        add("deferred-plusplus-in-switch-expression", "unsigned char j, r;", "r = 0; switch (j++) { case 0: r = 1; break; case 5: r = 2; break; }", {"init": {"j": j}, "expect": {"r": {0: 1, 5: 2}.get(j, 0), "j": (j + 1) & 255}}, "j=%d" % j)
        add("deferred-plusplus-in-dowhile-condition", "unsigned char j, k, n;", "n = 0; do { n++; } while (j-- != 0);", {"init": {"j": j}, "expect": {"n": j + 1, "j": 255}}, "j=%d" % j)
    # a register whose value the optimizer knows, compared with an immediate (compare folding at -O1): every relational operator, carry clear on entry
    for op, ex in ((">", 1), (">=", 1), ("<", 0), ("<=", 0), ("==", 0), ("!=", 1)):
        add("known-register-compare", "unsigned char i, r;", "Y = i + 1; r = 0; X = 5; if (X %s 3) r = 1;" % op, {"init": {"i": 0}, "expect": {"r": ex}}, "X = 5 %s 3" % op)
        add("known-register-compare", "unsigned char i, r;", "X = i + 1; r = 0; Y = 3; if (Y %s 3) r = 1;" % op, {"init": {"i": 0}, "expect": {"r": int(eval("3 %s 3" % op))}}, "Y = 3 %s 3" % op)
    add("known-register-compare", "unsigned char i, rx, ry;", "Y = i + 1; for (X = 10; X > 2; X--) Y++; rx = X; ry = Y;", {"init": {"i": 0}, "expect": {"rx": 2, "ry": 9}}, "countdown with a known start")
    # the same element designated through X, through Y, by a constant and by a variable subscript: every statement form must do the same thing (C15)
    for idx, pre in (("X", "X = b; "), ("Y", "Y = b; "), ("2", ""), ("b", "")):
        for stmt, lo, hi in (("t[%s]++;", 0x00, 0x11), ("t[%s]--;", 0xfe, 0x10), ("++t[%s];", 0x00, 0x11), ("t[%s] += 1;", 0x00, 0x11), ("t[%s] = s;", 0x34, 0x12), ("t[%s] = 1000;", 1000 & 255, 1000 >> 8)):
            add("index-forms-short", "short t[4]; unsigned char b; short s;", pre + stmt % idx, {"init": {"b": 2}, "init16": {"s": 0x1234}, "init_addr": {"t+2": 0xff, "t+6": 0x10}, "expect": {"t+2": lo, "t+6": hi}}, "%s with index %s" % (stmt % idx, idx))
        add("index-forms-short", "short t[4]; unsigned char b; short s;", pre + "s = t[%s];" % idx, {"init": {"b": 2}, "init_addr": {"t+2": 0x78, "t+6": 0x56}, "expect16": {"s": 0x5678}}, "s = t[%s]" % idx)
        for stmt, v in (("c[%s]++;", 0x00), ("c[%s]--;", 0xfe), ("c[%s] += 3;", 0x02), ("c[%s] = 7;", 7), ("c[%s] <<= 1;", 0xfe)):
            add("index-forms-char", "unsigned char c[4]; unsigned char b;", pre + stmt % idx, {"init": {"b": 2}, "init_addr": {"c+2": 0xff}, "expect": {"c+2": v, "c+1": 0, "c+3": 0}}, "%s with index %s" % (stmt % idx, idx))
    # 16-bit shifts: the forms the generator implements (shift-assign of a short variable or of an X-indexed element of an array of shorts, by a constant below 8) ...
    for k in (1, 3, 7):
        v = 0x1281
        add("shift16-supported", "short s;", "s <<= %d;" % k, {"init16": {"s": v}, "expect16": {"s": (v << k) & 0xffff}}, "s <<= %d" % k)
        add("shift16-supported", "short s;", "s >>= %d;" % k, {"init16": {"s": v}, "expect16": {"s": v >> k}}, "s >>= %d" % k)
        add("shift16-supported", "short t[2];", "X = 1; t[X] <<= %d;" % k, {"init_addr": {"t+1": 0x81, "t+3": 0x12}, "expect": {"t+1": (v << k) & 255, "t+3": ((v << k) >> 8) & 255}}, "t[X] <<= %d" % k)
    add("shift16-supported", "short s; unsigned char c;", "c = s << 1;", {"init16": {"s": 0x1281}, "expect": {"c": 0x02}}, "low byte of a shifted short")
    add("shift16-supported", "short s; unsigned char c;", "c = s >> 8;", {"init16": {"s": 0x1281}, "expect": {"c": 0x12}}, "high byte through >> 8")
    # ... and the forms it accepts without implementing them: the high byte is shifted on its own or not at all (known finding)
    add("shift16-other-forms", "short s;", "s = s << 1;", {"init16": {"s": 0x1281}, "expect16": {"s": 0x2502}}, "s = s << 1")
    add("shift16-other-forms", "short s;", "s <<= 9;", {"init16": {"s": 0x1281}, "expect16": {"s": 0x0200}}, "s <<= 9")
    add("shift16-other-forms", "short t[2];", "t[1] <<= 1;", {"init_addr": {"t+1": 0x81, "t+3": 0x12}, "expect": {"t+1": 0x02, "t+3": 0x25}}, "t[1] <<= 1")
    add("shift16-other-forms", "short t[2];", "Y = 1; t[Y] <<= 1;", {"init_addr": {"t+1": 0x81, "t+3": 0x12}, "expect": {"t+1": 0x02, "t+3": 0x25}}, "t[Y] <<= 1")
    add("shift16-other-forms", "short t[2];", "t[1] >>= 1;", {"init_addr": {"t+1": 0x81, "t+3": 0x12}, "expect": {"t+1": 0x40, "t+3": 0x09}}, "t[1] >>= 1")
    add("shift16-other-forms", "char *p;", "p <<= 1;", {"init16": {"p": 0x1281}, "expect16": {"p": 0x2502}}, "p <<= 1")
    # initialised tables in ROM (chars, shorts, addresses, strings), pointers walking over them, arrays longer than a few bytes
    D = "const char a[] = {1, 2, 3}; const char b[] = {4, 5, 6}; const char *t[] = {a, b}; const short w[] = {0x1234, 0x5678, 0x9abc}; const char m[] = \"AB\"; unsigned char r, i, j; char *p; short s; unsigned char buf[40];"
    for body, exp in (("i = 1; p = t[i]; r = p[1];", {"expect": {"r": 5}}), ("i = 1; j = 2; p = t[i]; r = p[j];", {"expect": {"r": 6}}), ("p = t[1]; r = p[2];", {"expect": {"r": 6}}),
                      ("i = 2; s = w[i];", {"expect16": {"s": 0x9abc}}), ("Y = 2; s = w[Y];", {"expect16": {"s": 0x9abc}}), ("X = 1; s = w[X];", {"expect16": {"s": 0x5678}}), ("s = w[1];", {"expect16": {"s": 0x5678}}),
                      ("i = 1; r = a[i] + b[i];", {"expect": {"r": 7}}), ("r = 0; for (i = 0; i != 3; i++) r += a[i];", {"expect": {"r": 6}}), ("r = 0; for (X = 0; X != 3; X++) r += b[X];", {"expect": {"r": 15}}),
                      ("for (X = 0; X != 40; X++) buf[X] = X; r = buf[39] + buf[1];", {"expect": {"r": 40}}), ("for (i = 0; i != 40; i++) buf[i] = i; r = buf[39] + buf[1];", {"expect": {"r": 40}}),
                      ("p = buf; for (Y = 0; Y != 40; Y++) p[Y] = 2; r = buf[39] + buf[0];", {"expect": {"r": 4}}), ("p = buf; p += 10; *p = 3; p++; *p = 4; r = buf[10] + buf[11];", {"expect": {"r": 7}}),
                      ("p = m; r = 0; while (*p) { r++; p++; }", {"expect": {"r": 2}}), ("r = m[0]; if (m[1] == 'B') r++;", {"expect": {"r": 66}}), ("p = \"xyz\"; r = p[2];", {"expect": {"r": 122}}),
                      ("i = 1; s = w[i] + 1;", {"expect16": {"s": 0x5679}}), ("r = 0; if (w[1] == 0x5678) r = 1;", {"expect": {"r": 1}}), ("X = 1; r = 0; if (w[X] > w[0]) r = 1;", {"expect": {"r": 1}})):
        add("const-tables", D, body, exp, body)
    # an operand indexed by the program's Y stays in flight while another element access of the same expression parks Y and loads it with its own subscript (known finding)
    DY = "unsigned char a[4]; unsigned char b, c, r, q; char *p;"
    for body, ini, exp in (("p = &c; Y = 2; r = a[Y] + *p; q = Y;", {"init": {"c": 5}, "init_addr": {"a+2": 40, "a+0": 1}}, {"r": 45, "q": 2}),
                           ("p = &c; Y = 2; r = *p + a[Y]; q = Y;", {"init": {"c": 5}, "init_addr": {"a+2": 40, "a+0": 1}}, {"r": 45, "q": 2}),
                           ("p = a; Y = 2; a[Y] = *p;", {"init_addr": {"a+0": 7}}, {"a+2": 7}), ("p = a; Y = 2; *p = a[Y];", {"init_addr": {"a+2": 7}}, {"a+0": 7}),
                           ("p = a; Y = 1; r = p[Y] + p[2];", {"init_addr": {"a+1": 7, "a+2": 30}}, {"r": 37}), ("Y = 1; r = a[Y] + a[b];", {"init": {"b": 2}, "init_addr": {"a+1": 7, "a+2": 30}}, {"r": 37}),
                           ("Y = 1; r = a[b] + a[Y];", {"init": {"b": 2}, "init_addr": {"a+1": 7, "a+2": 30}}, {"r": 37})):
        add("y-operand-while-y-reloaded", DY, body, dict(ini, expect=exp), body)
    # the same accesses one at a time, or with X: must pass
    for body, ini, exp in (("p = &c; Y = 2; r = a[Y]; r += *p; q = Y;", {"init": {"c": 5}, "init_addr": {"a+2": 40}}, {"r": 45, "q": 2}), ("p = a; Y = 2; X = 1; a[X] = p[Y];", {"init_addr": {"a+2": 7}}, {"a+1": 7}),
                           ("p = a; Y = 1; X = 2; r = p[Y] + a[X];", {"init_addr": {"a+1": 7, "a+2": 30}}, {"r": 37}), ("p = a; Y = 1; r = p[Y] + a[2];", {"init_addr": {"a+1": 7, "a+2": 30}}, {"r": 37})):
        add("y-operand-alone", DY, body, dict(ini, expect=exp), body)
    # generated programs (units/simgen.py, fixed seeds): mixed statements over every construct the generator knows
    from . import simgen
    for gname, seed0, n, feats in (("generated-basic", 1000, 40, set()), ("generated-arrays-calls", 9000, 40, {"arr", "arr2", "call", "tern", "idxexpr"}),
                                   ("generated-16bit", 30000, 40, {"s16", "w16", "arr", "loops"}), ("generated-all", 40000, 60, {"arr", "arr2", "w16", "loops", "s16", "idxexpr", "call", "tern", "sw"})):
        for decl, body, sim, note in simgen.programs(seed0, n, feats):
            add(gname, decl, body, sim, note)
    # what the optimizer may drop: a reload of X / Y also sets N and Z; a protected branch of an inlined body stays protected
    for i, j in ((0, 5), (3, 0), (0, 0)):
        add("opt-reload-flags", "unsigned char i, j, k;", "k = 0; X = i; Y = j; X = i; if (X) k = 1;", {"init": {"i": i, "j": j}, "expect": {"k": int(i != 0)}}, "i=%d j=%d" % (i, j))
        add("opt-reload-flags", "unsigned char i, j, k;", "k = 0; Y = i; X = j; Y = i; if (Y) k = 1;", {"init": {"i": i, "j": j}, "expect": {"k": int(i != 0)}}, "i=%d j=%d (Y)" % (i, j))
    for kw in ("inline ", ""):
        add("opt-inlined-protected-branch", "unsigned char i, c; %svoid f() { for (X = 0; X <= 10; X++) i++; }" % kw, "c = 200; c += 100; i = 0; f();", {"expect": {"i": 11}}, "carry set before the %scall" % kw)
        add("opt-inlined-protected-branch", "unsigned char i, c; %svoid f() { for (X = 0; X <= 10; X++) i++; }" % kw, "c = 1; c += 1; i = 0; f();", {"expect": {"i": 11}}, "carry clear before the %scall" % kw)
    # a far `>` branch repaired inside an inline function (BEQ .fixup / BCS .fix), then copied behind a constant argument: the compare must survive
    for k, pre in ((5, ""), (3, "c = 200; c += 100; "), (2, "c = 200; c += 100; "), (9, "c = 200; c += 100; ")):
        add("opt-inlined-far-branch-pair", "unsigned char a[4], b[4], c; inline void f(unsigned char p) { if (p > 3) { %s } }" % " ".join("a[X] = b[X];" for _ in range(33)),
            "%sX = 0; f(%d);" % (pre, k), {"init": {"b": 7}, "expect": {"a": 7 if k > 3 else 0}}, "f(%d): p > 3 over 132 bytes, carry %s before the call" % (k, "set" if pre else "clear"))
    # a reload dropped through the look-ahead (flags not known to describe A) sets no flag: the next `STA x / LDA x` pair must keep its load
    for x in (5, 255, 0):
        add("opt-dropped-reload-sets-no-flag", "unsigned char a, b, c, r;", "Y = 0; a = 0; X++; b = 0; c = b; if (c) Y = 1; r = Y;", {"x": x, "expect": {"r": 0, "c": 0}}, "X=%d before X++" % x)
    # inline assembly can change any register: nothing the optimizer knew before it holds after it; a transfer to X / Y changes N and Z
    add("opt-across-inline-asm", "unsigned char r;", "X = 0; asm(\"LDX #5\", 2); X = 0; r = X;", {"expect": {"r": 0}}, "LDX #0 again after the asm line")
    add("opt-across-inline-asm", "unsigned char r, v;", "v = 3; asm(\"LDA #9\", 2); r = v;", {"expect": {"r": 3}}, "A reloaded after the asm line")
    for j, k in ((0, 3), (3, 0), (0, 0)):
        add("register-transfer-flags", "unsigned char j, k, r;", "r = 0; load(j); X = k; store(Y); if (X) r = 1;", {"init": {"j": j, "k": k}, "expect": {"r": int(k != 0)}}, "TAY between X = k and if (X), j=%d k=%d" % (j, k))
        add("register-transfer-flags", "unsigned char j, k, r;", "r = 0; load(j); Y = k; store(X); if (Y) r = 1;", {"init": {"j": j, "k": k}, "expect": {"r": int(k != 0)}}, "TAX between Y = k and if (Y), j=%d k=%d" % (j, k))
    # a belief "N/Z describe X" must not survive an instruction that sets them from something else (TYA, ADC, PLA ...)
    for yv in (255, 0, 7):
        add("opt-reload-flags", "unsigned char a, r;", "r = 0; Y = %d; X = 5; a = Y + 1; X = 5; if (X) r = 1;" % yv, {"expect": {"r": 1}}, "ADC between two X = 5, Y=%d" % yv)
        add("opt-reload-flags", "unsigned char a, r;", "r = 0; X = %d; Y = 5; a = X + 1; Y = 5; if (Y) r = 1;" % yv, {"expect": {"r": 1}}, "ADC between two Y = 5, X=%d" % yv)
    # `return i++;`: the increment happens although the statement's end is never reached; same result inlined and called
    for kw in ("", "inline "):
        for v in (5, 255):
            add("return-with-deferred-effects", "unsigned char i, r, q; %sunsigned char f() { return i++; }" % kw, "i = %d; r = f(); q = i;" % v, {"expect": {"r": v, "q": (v + 1) & 255}}, "%sf: return i++, i=%d" % (kw, v))
        add("return-with-deferred-effects", "unsigned char i, r, q; %sunsigned char f() { return i++; }" % kw, "q = 0; i = 255; r = f(); if (r) q = 1;", {"expect": {"q": 1, "r": 255, "i": 0}}, "%sf: the caller tests the value returned, not the incremented variable" % kw)
        add("return-with-deferred-effects", "unsigned char t[4]; unsigned char *p; unsigned char r, q; %sunsigned char f() { return *p; }" % kw, "t[0] = 9; p = t; Y = 3; r = f(); q = Y;", {"expect": {"r": 9, "q": 3}}, "%sf: return *p keeps the caller's Y" % kw)
    # store(x) overwrites a cell the flags described; an asm statement can change every flag
    for v in (255, 3):
        add("flags-after-store-and-asm", "unsigned char x, y, r;", "r = 0; y = 7; x++; store(x); if (x) r = 1;", {"init": {"x": v}, "expect": {"r": 1, "x": 7}}, "x++; store(x); if (x), x=%d" % v)
    for v in (3, 0):
        add("flags-after-store-and-asm", "unsigned char x, y, r;", "r = 0; x = y; asm(\"LDX #0\", 2); if (x) r = 1;", {"init": {"y": v}, "expect": {"r": int(v != 0)}}, "x = y; asm(LDX #0); if (x), y=%d" % v)
        add("flags-after-store-and-asm", "unsigned char x, y, r;", "r = 0; x = y; asm(\"LDX #1\", 2); if (!x) r = 1;", {"init": {"y": v}, "expect": {"r": int(v == 0)}}, "x = y; asm(LDX #1); if (!x), y=%d" % v)
    # strobe on an element: the store goes to the element (the accumulator's value lands there)
    for k in (0, 2, 3):
        add("strobe-element", "unsigned char regs[4]; unsigned char v;", "load(v); strobe(regs[%d]);" % k, {"init": {"v": 9}, "expect": {"regs+%d" % k: 9}}, "strobe(regs[%d])" % k)
    # INC / DEC under another operand text of the same cell; a compare of a symbolic immediate with a number
    for x in (1, 2):
        add("opt-memory-write-aliases", "unsigned char a[4]; unsigned char r;", "r = 0; X = %d; if (a[X] == 3) { a[1]++; if (a[X] == 4) r = 1; }" % x, {"init": {"a+1": 3, "a+2": 3}, "expect": {"r": int(x == 1)}}, "INC a+1 between two reads of a[X], X=%d" % x)
        add("opt-memory-write-aliases", "unsigned char a[4]; unsigned char r;", "r = 0; X = %d; if (a[1] == 3) { a[X]--; if (a[1] == 2) r = 1; }" % x, {"init": {"a+1": 3, "a+2": 3}, "expect": {"r": int(x == 1)}}, "DEC a,X between two reads of a[1], X=%d" % x)
    for k in (128, 127, 0):
        add("opt-symbolic-immediate", "const char arr[] = {1,2}; unsigned char i, j;", "j = 0; i = arr; if (i != %d) j = 1;" % k, {"expect": {"j": int(k != 128)}}, "low byte of an address (128 on the interpreter) compared with %d" % k)
    # load(<expression with a deferred ++>): the value loaded survives the flush of the deferred effect
    for y in (1, 2):
        add("load-with-deferred-effects", "unsigned char arr[4], z;", "Y = %d; load(arr[Y]++); store(z);" % y, {"init": {"arr+%d" % y: 7}, "expect": {"z": 7, "arr+%d" % y: 8}}, "load(arr[Y]++); store(z); Y=%d" % y)
    add("load-with-deferred-effects", "unsigned char i, z;", "load(i++); store(z);", {"init": {"i": 7}, "expect": {"z": 7, "i": 8}}, "load(i++); store(z);")
    # ---- recorded known findings (reported by the hunting sub-agents, confirmed here, not repaired: see known_findings.jsonl) ----
    add("kf-postincrement-in-call-argument", "unsigned char i, r; void f(unsigned char p) { r = i; }", "i = 5; f(i++);", {"expect": {"r": 6, "i": 6}}, "f(i++): the increment happens before the call (sequence point)")
    add("kf-16bit-truth-value", "short s; unsigned char b;", "b = 0; if (s & 0x100) b = 1;", {"init": {"s": 0, "s+1": 1}, "expect": {"b": 1}}, "if (s & 0x100) with s = 0x100")
    add("kf-16bit-truth-value", "short sa[4]; unsigned char b;", "b = 0; X = 1; if (sa[X]) b = 1;", {"init": {"sa+5": 1}, "expect": {"b": 1}}, "if (sa[X]) with only the high byte set")
    add("kf-out-of-range-constant-compare", "unsigned char a, b;", "b = 0; if (a == 300) b = 1;", {"init": {"a": 44}, "expect": {"b": 0}}, "a == 300 is never true for a char")
    add("kf-stale-carry-after-subtraction", "unsigned char a, b, c, r;", "r = 0; a = b - c; if (a > 0) r = 1;", {"init": {"b": 1, "c": 2}, "expect": {"r": 1, "a": 255}}, "a = b - c; if (a > 0) with a borrow")
    add("kf-call-in-a-16-bit-shift-evaluated-twice", "short s; unsigned char n; unsigned char f() { n++; return 3; }", "n = 0; s = f() << 2;", {"expect": {"n": 1}, "expect16": {"s": 12}}, "s = f() << 2: f runs once")
    add("kf-nested-call-of-the-same-function", "unsigned char a, b; unsigned char f(unsigned char x, unsigned char y) { return x - y; }", "a = 9; b = 20; a = f(b, f(a, 1));", {"expect": {"a": 12}}, "f(b, f(a, 1)): the inner call overwrites the outer call's first parameter")
    # loops: for / while / do-while agree
    for n in (0, 1, 5, 200):
        tot = sum(range(n)) & 255
        add("loop-forms", "unsigned char i, n, t;", "t = 0; for (i = 0; i < n; i++) t += i;", {"init": {"n": n}, "expect": {"t": tot}}, "n=%d" % n)
        add("loop-forms", "unsigned char i, n, t;", "t = 0; i = 0; while (i < n) { t += i; i++; }", {"init": {"n": n}, "expect": {"t": tot}}, "n=%d" % n)
        add("loop-forms", "unsigned char i, n, t;", "t = 0; for (X = 0; X < n; X++) t += X;", {"init": {"n": n}, "expect": {"t": tot}}, "n=%d" % n)
        if n > 0:
            add("loop-forms", "unsigned char i, n, t;", "t = 0; i = 0; do { t += i; i++; } while (i != n);", {"init": {"n": n}, "expect": {"t": tot}}, "n=%d" % n)
            add("loop-countdown", "unsigned char i, n, t;", "t = 0; for (i = n; i != 0; i--) t++;", {"init": {"n": n}, "expect": {"t": n}}, "n=%d" % n)
            add("loop-countdown", "unsigned char n, t;", "t = 0; Y = n; do { t++; Y--; } while (Y != 0);", {"init": {"n": n}, "expect": {"t": n}}, "n=%d" % n)
    for n in (1, 300, 600):
        add("loop-countdown16", "short i, t;", "t = 0; for (i = %d; i != 0; i--) t++;" % n, {"expect16": {"t": n, "i": 0}}, "n=%d" % n)
        add("loop-countdown16", "short i, t;", "t = 0; i = %d; while (i != 0) { t++; i--; }" % n, {"expect16": {"t": n, "i": 0}}, "n=%d" % n)
    # continue / break through a switch
    for lim in (2, 4):
        w = sum(2 for x in range(lim) if x != 1) + (1 if lim > 2 else 0)
        add("continue-in-switch", "unsigned char n;", "n = 0; for (X = 0; X < %d; X++) { switch (X) { case 1: continue; case 2: n++; } n += 2; }" % lim, {"expect": {"n": w}}, "lim=%d" % lim)
        add("continue-in-switch", "unsigned char n;", "n = 0; X = 0; do { switch (X) { case 1: X = 5; continue; case 2: n++; } X++; } while (X < %d);" % lim, {"expect": {"n": 0}}, "lim=%d" % lim)
        add("continue-in-switch", "unsigned char n;", "n = 0; X = 0; while (X < %d) { X++; switch (X) { case 1: continue; case 2: break; default: n++; } n += 2; }" % lim, {"expect": {"n": sum((0 if x == 1 else (2 if x == 2 else 3)) for x in range(1, lim + 1))}}, "lim=%d" % lim)
    # if / else and its mirrored form, switch versus if-chain
    for a in (0, 1, 2, 3, 9):
        w = {0: 10, 1: 11, 2: 12}.get(a, 99)
        add("switch-vs-if", "unsigned char a, r;", "switch (a) { case 0: r = 10; break; case 1: r = 11; break; case 2: r = 12; break; default: r = 99; }", {"init": {"a": a}, "expect": {"r": w}}, "a=%d" % a)
        add("switch-vs-if", "unsigned char a, r;", "if (a == 0) r = 10; else if (a == 1) r = 11; else if (a == 2) r = 12; else r = 99;", {"init": {"a": a}, "expect": {"r": w}}, "a=%d" % a)
        add("if-else-mirror", "unsigned char a, r;", "if (a < 2) r = 1; else r = 2;", {"init": {"a": a}, "expect": {"r": 1 if a < 2 else 2}}, "a=%d" % a)
        add("if-else-mirror", "unsigned char a, r;", "if (!(a < 2)) r = 2; else r = 1;", {"init": {"a": a}, "expect": {"r": 1 if a < 2 else 2}}, "a=%d" % a)
        add("if-else-mirror", "unsigned char a, r;", "if (2 > a) r = 1; else r = 2;", {"init": {"a": a}, "expect": {"r": 1 if a < 2 else 2}}, "a=%d" % a)
        add("logical-ops", "unsigned char a, b, r;", "r = 0; if (a && b) r = 1;", {"init": {"a": a, "b": 1}, "expect": {"r": int(a != 0)}}, "a=%d" % a)
        add("logical-ops", "unsigned char a, b, r;", "r = 0; if (a || b) r = 1;", {"init": {"a": a, "b": 0}, "expect": {"r": int(a != 0)}}, "a=%d" % a)
        add("logical-ops", "unsigned char a, r;", "r = 0; if (!a) r = 1;", {"init": {"a": a}, "expect": {"r": int(a == 0)}}, "a=%d" % a)
        add("if-else-logical", "unsigned char a, b, r;", "r = 0; if (a == 0 && b == 0) r = 1; else { if (b == 0) r = 2; else r = 3; }", {"init": {"a": a, "b": 0}, "expect": {"r": 1 if a == 0 else 2}}, "a=%d b=0" % a)
        add("if-else-logical", "unsigned char a, b, r;", "r = 0; if (a == 0 && b == 0) r = 1; else { if (b == 0) r = 2; else r = 3; }", {"init": {"a": a, "b": 7}, "expect": {"r": 3}}, "a=%d b=7" % a)
        add("if-else-logical", "unsigned char a, b, r;", "r = 0; if (a == 0 || b == 0) r = 1; else { if (a == 1) r = 2; else r = 3; }", {"init": {"a": a, "b": 7}, "expect": {"r": 1 if a == 0 else (2 if a == 1 else 3)}}, "a=%d b=7" % a)
        add("ternary", "unsigned char a, r;", "r = (a > 1) ? 7 : 8;", {"init": {"a": a}, "expect": {"r": 7 if a > 1 else 8}}, "a=%d" % a)
    # widening of signed / unsigned 8-bit values to 16 bits, scalar, constant index, register index
    for v in (1, 0x7f, 0x80, 0xfe):
        sv = v - 256 if v >= 128 else v
        add("widen-signed", "signed char c; short s;", "s = c;", {"init": {"c": v}, "expect16": {"s": sv & 0xffff}}, "c=%d" % sv)
        add("widen-signed", "signed char tab[4]; short s;", "s = tab[1];", {"init_addr": {"tab+1": v}, "expect16": {"s": sv & 0xffff}}, "tab[1]=%d" % sv)
        add("widen-signed", "signed char tab[4]; short s;", "X = 1; s = tab[X];", {"init_addr": {"tab+1": v}, "expect16": {"s": sv & 0xffff}}, "tab[X]=%d" % sv)
        add("widen-signed", "signed char tab[4]; short s;", "Y = 2; s = tab[Y];", {"init_addr": {"tab+2": v}, "expect16": {"s": sv & 0xffff}}, "tab[Y]=%d" % sv)
        add("widen-signed", "signed char tab[4]; short s, t;", "s = t + tab[3];", {"init_addr": {"tab+3": v}, "init16": {"t": 1000}, "expect16": {"s": (1000 + sv) & 0xffff}}, "tab[3]=%d" % sv)
        add("widen-unsigned", "unsigned char c; short s;", "s = c;", {"init": {"c": v}, "expect16": {"s": v}}, "c=%d" % v)
        add("widen-unsigned", "unsigned char tab[4]; short s;", "s = tab[1];", {"init_addr": {"tab+1": v}, "expect16": {"s": v}}, "tab[1]=%d" % v)
        add("widen-unsigned", "unsigned char tab[4]; short s;", "X = 1; s = tab[X];", {"init_addr": {"tab+1": v}, "expect16": {"s": v}}, "tab[X]=%d" % v)
        add("widen-unsigned", "unsigned char tab[4]; short s, t;", "s = t + tab[3];", {"init_addr": {"tab+3": v}, "init16": {"t": 1000}, "expect16": {"s": (1000 + v) & 0xffff}}, "tab[3]=%d" % v)
    # shifts
    for v in (1, 0x81, 0x55, 0xff):
        for k in (1, 2, 7):
            add("shift8", "unsigned char a, r;", "r = a << %d;" % k, {"init": {"a": v}, "expect": {"r": (v << k) & 255}}, "a=%d" % v)
            add("shift8", "unsigned char a, r;", "r = a >> %d;" % k, {"init": {"a": v}, "expect": {"r": v >> k}}, "a=%d" % v)
            add("shift8-assign", "unsigned char a;", "a <<= %d;" % k, {"init": {"a": v}, "expect": {"a": (v << k) & 255}}, "a=%d" % v)
    for v in (1, 0x8001, 0x00ff, 0x1234):
        for k in (1, 3):
            add("shift16-assign", "short s;", "s <<= %d;" % k, {"init16": {"s": v}, "expect16": {"s": (v << k) & 0xffff}}, "s=%d" % v)
        add("shift16-byte", "short s, r;", "r = s >> 8;", {"init16": {"s": v & 0x7fff}, "expect16": {"r": (v & 0x7fff) >> 8}}, "s=%d" % (v & 0x7fff))
        add("shift16-byte", "short s, r; unsigned char c;", "r = c << 8;", {"init": {"c": v & 255}, "expect16": {"r": (v & 255) << 8}}, "c=%d" % (v & 255))
    # arrays and pointers
    for i in (0, 1, 3):
        add("array-index", "unsigned char arr[4], r;", "arr[0] = 5; arr[1] = 6; arr[2] = 7; arr[3] = 8; X = %d; r = arr[X];" % i, {"expect": {"r": 5 + i}}, "X=%d" % i)
        add("array-index", "unsigned char arr[4], r;", "arr[0] = 5; arr[1] = 6; arr[2] = 7; arr[3] = 8; Y = %d; r = arr[Y] + 1;" % i, {"expect": {"r": 6 + i}}, "Y=%d" % i)
        add("array-index", "unsigned char arr[4], i, r;", "arr[0] = 5; arr[1] = 6; arr[2] = 7; arr[3] = 8; i = %d; r = arr[i];" % i, {"expect": {"r": 5 + i}}, "i=%d" % i)
        add("array-of-shorts", "short sa[4], r;", "X = %d; sa[X] = 0x1234; sa[X]++; r = sa[X];" % i, {"expect16": {"r": 0x1235}}, "X=%d" % i)
        add("array-of-shorts", "short sa[4], r;", "Y = %d; sa[Y] = 0x12ff; r = sa[Y] + 1;" % i, {"expect16": {"r": 0x1300}}, "Y=%d" % i)
    # compound assignment against its long form
    for a, b in ((200, 100), (3, 5), (0x5a, 0xa5)):
        for sym, fn in (("+", lambda x, y: x + y), ("-", lambda x, y: x - y), ("&", lambda x, y: x & y), ("|", lambda x, y: x | y), ("^", lambda x, y: x ^ y)):
            w = fn(a, b) & 255
            add("compound-assign", "unsigned char a, b;", "a %s= b;" % sym, {"init": {"a": a, "b": b}, "expect": {"a": w}}, "a=%d b=%d" % (a, b))
            add("compound-assign", "unsigned char a, b;", "a = a %s b;" % sym, {"init": {"a": a, "b": b}, "expect": {"a": w}}, "a=%d b=%d" % (a, b))
            add("compound-assign", "unsigned char a;", "a %s= %d;" % (sym, b), {"init": {"a": a}, "expect": {"a": w}}, "a=%d" % a)
            add("compound-assign", "unsigned char a;", "X = a; X %s= %d; a = X;" % (sym, b), {"init": {"a": a}, "expect": {"a": w}}, "a=%d" % a)
            w16 = fn(a * 256 + b, b * 256 + a) & 0xffff
            add("compound-assign16", "short s, t;", "s %s= t;" % sym, {"init16": {"s": a * 256 + b, "t": b * 256 + a}, "expect16": {"s": w16}}, "s=%d" % (a * 256 + b))
    # sequences that exercise the peephole optimiser's register knowledge (C02 through the -O1 runs)
    for a in (0, 1, 2, 200):
        add("opt-knowledge", "short s; unsigned char r, q;", "X = s; s <<= 1; X = s; r = X;", {"init16": {"s": a}, "expect": {"r": (a << 1) & 255}}, "s=%d" % a)
        add("opt-knowledge", "unsigned char arr[4], r, q;", "arr[1] = 7; arr[2] = 9; Y = 1; r = arr[Y]; Y = 2; q = arr[Y];", {"expect": {"r": 7, "q": 9}}, "")
        add("opt-knowledge", "unsigned char arr[4], r, q;", "arr[1] = 7; arr[2] = 9; X = 1; r = arr[X]; X++; q = arr[X];", {"expect": {"r": 7, "q": 9}}, "")
        add("opt-knowledge", "unsigned char a, b, c;", "c = 0; switch (a) { case 1: X = 1; break; default: X = 0; break; } b = 2; if (X == 0) c = 1;", {"init": {"a": a}, "expect": {"c": int(a != 1), "b": 2}}, "a=%d" % a)
        add("opt-knowledge", "unsigned char a, x, y; inline unsigned char f() { if (a) return 1; return 0; }", "x = f(); y = 0;", {"init": {"a": a}, "expect": {"x": int(a != 0), "y": 0}}, "a=%d" % a)
        add("opt-knowledge", "unsigned char a, b, c;", "b = a; a = 5; c = a; a = b;", {"init": {"a": a}, "expect": {"a": a, "b": a, "c": 5}}, "a=%d" % a)
        add("opt-knowledge", "unsigned char a, b, c;", "X = a; a++; b = a; Y = a; c = Y;", {"init": {"a": a}, "expect": {"b": (a + 1) & 255, "c": (a + 1) & 255}}, "a=%d" % a)
        add("opt-knowledge", "unsigned char a, b, j;", "j = 0; b = a; X++; if (a) j = 1;", {"init": {"a": a}, "x": 255, "expect": {"j": int(a != 0)}}, "a=%d" % a)
        add("opt-knowledge", "unsigned char a, b, j;", "j = 0; Y = a; b = 3; if (Y == 2) j = 1; if (b == 3) j += 2;", {"init": {"a": a}, "expect": {"j": int(a == 2) + 2}}, "a=%d" % a)
    # every string literal of a program gets its own table with its own bytes (C09), wherever it stands
    lit = g.setdefault("literal-tables", [])
    def litprog(src, tables):
        for name, bytes_ in tables:
            lit.append({"source": src, "args": [], "expect": {"panic": False, "stdout_contains": "ARRAY %s size=%d = %s " % (name, len(bytes_), " ".join(str(b) for b in bytes_))}, "note": "table %s" % name})
    litprog("unsigned char f(char *s) { return s[0]; }\nvoid main() { X = f(\"a\") + f(\"b\"); }\n", [("cctmp0", [97, 0]), ("cctmp1", [98, 0])])
    litprog("char *a;\nunsigned char f(char *s) { return s[0]; }\nunsigned char g(char *s, unsigned char k) { return s[k]; }\nvoid main() { a = \"z\"; X = g(\"ab\", f(\"c\")) + f(\"d\"); a = \"e\"; }\n",
            [("cctmp0", [122, 0]), ("cctmp1", [97, 98, 0]), ("cctmp2", [99, 0]), ("cctmp3", [100, 0]), ("cctmp4", [101, 0])])
    litprog("char *a;\nvoid main() { char *p = \"two\"; a = \"three\"; }\n", [("cctmp0", [116, 119, 111, 0]), ("cctmp1", [116, 104, 114, 101, 101, 0])])
    litprog("char *a;\nvoid main() { a = \"x\\ty\\n\"; a = (\"q\"); }\n", [("cctmp0", [120, 9, 121, 10, 0]), ("cctmp1", [113, 0])])
    # inline versus called functions (C14), registers / flags around the call
    for a in (0, 1, 7):
        for kw in ("", "inline "):
            add("inline-vs-call", "unsigned char a, r; %sunsigned char f() { if (a) return 1; return 0; }" % kw, "r = f();", {"init": {"a": a}, "expect": {"r": int(a != 0)}}, "a=%d %s" % (a, kw))
            add("inline-vs-call", "unsigned char a, j; %svoid dec() { Y--; }" % kw, "j = 0; Y = 1; X = a; dec(); if (X) j = 1;", {"init": {"a": a}, "expect": {"j": int(a != 0)}}, "a=%d %s" % (a, kw))
            add("inline-vs-call", "unsigned char a, r; %svoid g() { a = a + 2; }" % kw, "g(); g(); r = a;", {"init": {"a": a}, "expect": {"r": a + 4, "a": a + 4}}, "a=%d %s" % (a, kw))
    return g


def _group_of(src):
    m = re.search(r"if \((.+?) (<=|>=|==|!=|<|>) (.+?)\) z = 1;", src)
    if m:
        k = lambda t: re.sub(r"\W+", "", re.sub(r"\d+", "n", t))
        return "cmp-%s-%s" % (k(m.group(1)), k(m.group(3)))
    m = re.search(r"void main\(\) \{ (.*) \}", src)
    body = m.group(1) if m else src
    body = re.sub(r"\d+", "n", body)
    body = re.sub(r"[-+&|^]", "o", body)
    return "alu-" + re.sub(r"\W+", "", body)[:40]


def corpus(tier):
    """[(group name, properties, [programs])]: every program at -O0 (C01, C15) and at -O1 (C02)."""
    from . import u_condex, u_cond16, u_arithm, u_assign, u_shift, u_condval, u_gencond, u_if, u_loops, u_condtail, u_switch, u_callonce, u_sign, u_subscript, u_callframe, u_assignarm, u_compoundarm, u_stmt, u_widearms
    groups = {}
    for mod in (u_condex, u_cond16, u_arithm, u_shift):
        for c in mod.candidates(None):
            groups.setdefault(_group_of(c["source"]), []).append(c)
    for c in u_gencond.candidates(None):
        groups.setdefault("logical-conditions", []).append(c)
    for c in u_condval.candidates(None):
        groups.setdefault("cond-value", []).append(c)
    for mod, gname in ((u_if, "if-forms"), (u_loops, "loop-contract-candidates"), (u_condtail, "cond-tail"), (u_switch, "switch-forms"), (u_callonce, "call-in-16bit-context"), (u_sign, "declared-signedness"), (u_subscript, "element-access"), (u_callframe, "call-frame"), (u_assignarm, "assign-16bit-element"), (u_compoundarm, "compound-16bit-destination"), (u_stmt, "function-entry"), (u_widearms, "narrow-values-in-16bit-context")):
        for c in mod.candidates(None):
            if c.get("simulate") and not c.get("contract_only"):
                groups.setdefault(gname, []).append(c)
    for c in u_assign.candidates(None):
        if c.get("simulate"):
            groups.setdefault("assign-then-test", []).append(c)
    for gname, progs in _extra().items():
        groups.setdefault(gname, []).extend(progs)
    out = []
    for gname in sorted(groups):
        progs = groups[gname]
        if gname == "literal-tables":
            out.append(("literal-tables", ["C09"], progs))      # no simulation: the tables the compiler emits are compared
            continue
        if tier != "thorough":
            progs = progs[::2] if len(progs) > 12 else progs      # quick tier: every other program of the larger groups
        o0 = [dict(p, args=["-O0"]) for p in progs]
        o1 = [dict(p, args=["-O1"], simulate=dict(p["simulate"], expect_from_args=["-O0"])) for p in progs]       # C02: -O1 must compute what -O0 computes
        props = ["C14", "C01"] if gname.startswith("inline") else ["C01", "C15"]
        out.append(("O0-" + gname, props, o0))
        out.append(("O1-" + gname, ["C02"], o1))
    return out


def build(repo):
    u = Unit(NAME, TOOL, PROPS, [],
             assumptions=["BOUNDED: only the listed programs and initial values are covered; agreement on them proves nothing about other programs",
                          "the 6502 interpreter and the Python expectations are trusted; symbols are laid out 16 bytes apart in the interpreter, arrays of shorts as a low-byte table "
                          "followed by a high-byte table (the compiler's own layout)"],
             bounded=["program corpus of units/u_sim.py + the candidate lists of U-condex, U-cond16, U-arithm; each at -O0 and -O1; quick tier runs every other program of groups larger than 12"])
    u.text[None] = ""
    u.dropped = ["nothing is extracted: the whole compiler runs (vf/probe)"]
    return u
