"""U-det: determinism of the published tables (C05): sorted_variables/sorted_functions, the rank helpers and
every insertion site of the variable/function tables, the literal drains."""
import re
from vf.core import Unit
from vf.rustcut import SourceFile, Undecided, Cut, mask, match_brace, line_of
from . import common

NAME = "U-det"
TOOL = "verus"
PROPS = ["C05", "C09", "C16"]
RLIMIT = 100
TRUSTED = ["verus 0.2026.09.13 + z3", "A-vstd (HashMap/Vec specs)", "A-spec-hash-str (String as hash key)",
           "A-collect: Iterator::collect over HashMap::iter yields every entry exactly once, in an unspecified order",
           "A-sort: slice::sort_by(f) / sort() return a permutation in which no later element compares Less than an earlier one"]

SPECS = """
use vstd::std_specs::hash::*;
use std::collections::{HashMap, HashSet};
use std::cmp::Ordering;
// ---- A-spec-hash-str (same four axioms as U-reach) ------------------------------------------------------------------
#[verifier::external_body]
pub proof fn axiom_string_key_model() ensures obeys_key_model::<String>() {}
#[verifier::external_body]
pub proof fn axiom_str_borrow_map<V>(m: Map<String, V>, k: &str)
    ensures contains_borrowed_key(m, k) <==> (exists|x: String| x@ == k@ && m.contains_key(x)),
            forall|v: V| maps_borrowed_key_to_value(m, k, v) <==> (exists|x: String| x@ == k@ && m.contains_key(x) && m[x] == v) {}
#[verifier::external_body]
pub proof fn axiom_string_ext(a: String, b: String) ensures a@ == b@ ==> a == b {}
// R11 shim (see U-asm)
#[verifier::external_body]
pub fn string_of(s: &String) -> (r: String) ensures r@ == s@ { s.to_string() }

// ---- R6 shims: only the `order` field matters for C05 ------------------------------------------------------------------
pub struct Variable { pub order: usize, pub rest: u8 }
pub struct Function { pub order: usize, pub rest: u8 }
pub struct Expr { pub e: u8 }
pub struct CompilerState { pub variables: HashMap<String, Variable>, pub functions: HashMap<String, Function>, pub current_function: String }      // current_function: hidden state a rank expression might consult (any value)
pub trait HasOrder { spec fn ord(&self) -> usize; }
impl HasOrder for Variable { open spec fn ord(&self) -> usize { self.order } }
impl HasOrder for Function { open spec fn ord(&self) -> usize { self.order } }

// ---- spec -------------------------------------------------------------------------------------------------------------
// a listing of a table: every entry exactly once, ascending rank
pub open spec fn is_entries<V>(m: Map<String, V>, s: Seq<(&String, &V)>) -> bool {
    &&& forall|i: int, j: int| 0 <= i < j < s.len() ==> *(#[trigger] s[i]).0 != *(#[trigger] s[j]).0
    &&& forall|i: int| 0 <= i < s.len() ==> m.contains_key(*(#[trigger] s[i]).0) && m[*s[i].0] == *s[i].1
    &&& forall|k: String| m.contains_key(k) ==> exists|i: int| 0 <= i < s.len() && *(#[trigger] s[i]).0 == k
}
pub open spec fn ascending<V: HasOrder>(s: Seq<(&String, &V)>) -> bool {
    forall|i: int, j: int| 0 <= i < j < s.len() ==> (#[trigger] s[i]).1.ord() <= (#[trigger] s[j]).1.ord()
}
pub open spec fn is_listing<V: HasOrder>(m: Map<String, V>, s: Seq<(&String, &V)>) -> bool { is_entries(m, s) && ascending(s) }
pub open spec fn orders_distinct<V: HasOrder>(m: Map<String, V>) -> bool {
    forall|a: String, b: String| m.contains_key(a) && m.contains_key(b) && a != b ==> (#[trigger] m[a]).ord() != (#[trigger] m[b]).ord()
}
// table invariant kept by every insertion site: ranks are unique and below the table size
pub open spec fn ranks_ok<V: HasOrder>(m: Map<String, V>) -> bool {
    m.dom().finite() && orders_distinct(m) && forall|a: String| m.contains_key(a) ==> (#[trigger] m[a]).ord() < m.len()
}
pub open spec fn same_listing<V>(s1: Seq<(&String, &V)>, s2: Seq<(&String, &V)>) -> bool {
    s1.len() == s2.len() && forall|i: int| 0 <= i < s1.len() ==> *(#[trigger] s1[i]).0 == *s2[i].0 && *s1[i].1 == *s2[i].1
}
// Two runs over the same table (different hash seeds => different collect() orders) publish the same sequence.
pub proof fn lemma_listing_unique<V: HasOrder>(m: Map<String, V>, s1: Seq<(&String, &V)>, s2: Seq<(&String, &V)>)
    requires is_listing(m, s1), is_listing(m, s2), orders_distinct(m)
    ensures same_listing(s1, s2) //@ C05:listing-unique
    decreases s1.len()
{
    if s1.len() == 0 {
        if s2.len() > 0 { let k = *s2[0].0; assert(m.contains_key(k)); let i = choose|i: int| 0 <= i < s1.len() && *(#[trigger] s1[i]).0 == k; }
    } else if s2.len() == 0 {
        let k = *s1[0].0; assert(m.contains_key(k)); let i = choose|i: int| 0 <= i < s2.len() && *(#[trigger] s2[i]).0 == k;
    } else {
        let k1 = *s1[0].0; let k2 = *s2[0].0;
        let j = choose|j: int| 0 <= j < s2.len() && *(#[trigger] s2[j]).0 == k1;
        let i = choose|i: int| 0 <= i < s1.len() && *(#[trigger] s1[i]).0 == k2;
        assert(m[k1].ord() <= m[k2].ord()) by { if i > 0 { assert(s1[0].1.ord() <= s1[i].1.ord()); } }
        assert(m[k2].ord() <= m[k1].ord()) by { if j > 0 { assert(s2[0].1.ord() <= s2[j].1.ord()); } }
        assert(k1 == k2);
        let m2 = m.remove(k1);
        let t1 = s1.subrange(1, s1.len() as int); let t2 = s2.subrange(1, s2.len() as int);
        assert(is_listing(m2, t1)) by {
            assert forall|k: String| m2.contains_key(k) implies exists|i: int| 0 <= i < t1.len() && *(#[trigger] t1[i]).0 == k by {
                let i0 = choose|i: int| 0 <= i < s1.len() && *(#[trigger] s1[i]).0 == k; assert(i0 != 0); assert(*t1[i0 - 1].0 == k);
            }
            assert forall|i: int| 0 <= i < t1.len() implies m2.contains_key(*(#[trigger] t1[i]).0) && m2[*t1[i].0] == *t1[i].1 by {
                assert(t1[i] == s1[i + 1]); assert(*s1[0].0 != *s1[i + 1].0);
            }
            assert forall|i: int, j: int| 0 <= i < j < t1.len() implies (#[trigger] t1[i]).1.ord() <= (#[trigger] t1[j]).1.ord() by { assert(t1[i] == s1[i + 1]); assert(t1[j] == s1[j + 1]); }
        }
        assert(is_listing(m2, t2)) by {
            assert forall|k: String| m2.contains_key(k) implies exists|i: int| 0 <= i < t2.len() && *(#[trigger] t2[i]).0 == k by {
                let i0 = choose|i: int| 0 <= i < s2.len() && *(#[trigger] s2[i]).0 == k; assert(i0 != 0); assert(*t2[i0 - 1].0 == k);
            }
            assert forall|i: int| 0 <= i < t2.len() implies m2.contains_key(*(#[trigger] t2[i]).0) && m2[*t2[i].0] == *t2[i].1 by {
                assert(t2[i] == s2[i + 1]); assert(*s2[0].0 != *s2[i + 1].0);
            }
            assert forall|i: int, j: int| 0 <= i < j < t2.len() implies (#[trigger] t2[i]).1.ord() <= (#[trigger] t2[j]).1.ord() by { assert(t2[i] == s2[i + 1]); assert(t2[j] == s2[j + 1]); }
        }
        assert(orders_distinct(m2));
        lemma_listing_unique(m2, t1, t2);
        assert forall|i: int| 0 <= i < s1.len() implies *(#[trigger] s1[i]).0 == *s2[i].0 && *s1[i].1 == *s2[i].1 by {
            if i > 0 { assert(t1[i - 1] == s1[i]); assert(t2[i - 1] == s2[i]); }
        }
    }
}
// last insertion of a compilation (rank = table size, whatever the key): ranks stay pairwise distinct
pub proof fn lemma_insert_last<V: HasOrder>(m: Map<String, V>, k: String, v: V)
    requires ranks_ok(m), v.ord() == m.len()
    ensures orders_distinct(m.insert(k, v))
{}
// ---- literal drains: Vec<(&String, &String)>::sort() uses the natural total order of the pairs (A-sort) -----------------
pub uninterp spec fn tle(a: (String, String), b: (String, String)) -> bool;
#[verifier::external_body]
pub proof fn axiom_tle_total_order()
    ensures forall|a: (String, String)| tle(a, a),
            forall|a: (String, String), b: (String, String)| #[trigger] tle(a, b) && #[trigger] tle(b, a) ==> a == b,
            forall|a: (String, String), b: (String, String), c: (String, String)| #[trigger] tle(a, b) && #[trigger] tle(b, c) ==> tle(a, c),
            forall|a: (String, String), b: (String, String)| #[trigger] tle(a, b) || #[trigger] tle(b, a) {}
pub open spec fn pv(p: (&String, &String)) -> (String, String) { (*p.0, *p.1) }
pub open spec fn is_sorted_entries(m: Map<String, String>, s: Seq<(&String, &String)>) -> bool {
    is_entries(m, s) && forall|i: int, j: int| 0 <= i < j < s.len() ==> tle(pv(#[trigger] s[i]), pv(#[trigger] s[j]))
}
#[verifier::external_body]
fn sort_natural(v: &mut Vec<(&String, &String)>)
    ensures final(v)@.len() == old(v)@.len(),
        forall|i: int| 0 <= i < old(v)@.len() ==> exists|j: int| 0 <= j < final(v)@.len() && final(v)@[j] == #[trigger] old(v)@[i],
        forall|j: int| 0 <= j < final(v)@.len() ==> exists|i: int| 0 <= i < old(v)@.len() && old(v)@[i] == #[trigger] final(v)@[j],
        (forall|i: int, j: int| 0 <= i < j < old(v)@.len() ==> #[trigger] old(v)@[i] != #[trigger] old(v)@[j]) ==> (forall|i: int, j: int| 0 <= i < j < final(v)@.len() ==> #[trigger] final(v)@[i] != #[trigger] final(v)@[j]),
        forall|i: int, j: int| 0 <= i < j < final(v)@.len() ==> tle(pv(#[trigger] final(v)@[i]), pv(#[trigger] final(v)@[j])),
{ v.sort() }
// slice::sort_by on the second component: a permutation ordered by that component alone (equal texts keep whatever order collect() gave them)
pub uninterp spec fn tle_text(a: Seq<char>, b: Seq<char>) -> bool;
#[verifier::external_body]
fn sort_by_second(v: &mut Vec<(&String, &String)>)
    ensures final(v)@.len() == old(v)@.len(),
        forall|i: int| 0 <= i < old(v)@.len() ==> exists|j: int| 0 <= j < final(v)@.len() && final(v)@[j] == #[trigger] old(v)@[i],
        forall|j: int| 0 <= j < final(v)@.len() ==> exists|i: int| 0 <= i < old(v)@.len() && old(v)@[i] == #[trigger] final(v)@[j],
        (forall|i: int, j: int| 0 <= i < j < old(v)@.len() ==> #[trigger] old(v)@[i] != #[trigger] old(v)@[j]) ==> (forall|i: int, j: int| 0 <= i < j < final(v)@.len() ==> #[trigger] final(v)@[i] != #[trigger] final(v)@[j]),
        forall|i: int, j: int| 0 <= i < j < final(v)@.len() ==> tle_text((#[trigger] final(v)@[i]).1@, (#[trigger] final(v)@[j]).1@),
{ v.sort_by(|a, b| a.1.cmp(b.1)) }
// whatever order collect() produced, the sorted drain sequence is the same
pub proof fn lemma_sorted_entries_unique(m: Map<String, String>, s1: Seq<(&String, &String)>, s2: Seq<(&String, &String)>)
    requires is_sorted_entries(m, s1), is_sorted_entries(m, s2)
    ensures same_listing(s1, s2) //@ C05:drain-sequence-unique
    decreases s1.len()
{
    axiom_tle_total_order();
    if s1.len() == 0 {
        if s2.len() > 0 { let k = *s2[0].0; assert(m.contains_key(k)); let i = choose|i: int| 0 <= i < s1.len() && *(#[trigger] s1[i]).0 == k; }
    } else if s2.len() == 0 {
        let k = *s1[0].0; assert(m.contains_key(k)); let i = choose|i: int| 0 <= i < s2.len() && *(#[trigger] s2[i]).0 == k;
    } else {
        let k1 = *s1[0].0; let k2 = *s2[0].0;
        let j = choose|j: int| 0 <= j < s2.len() && *(#[trigger] s2[j]).0 == k1;
        let i = choose|i: int| 0 <= i < s1.len() && *(#[trigger] s1[i]).0 == k2;
        assert(pv(s2[j]) == pv(s1[0]));
        assert(pv(s1[i]) == pv(s2[0]));
        assert(tle(pv(s1[0]), pv(s2[0]))) by { if i > 0 { assert(tle(pv(s1[0]), pv(s1[i]))); } }
        assert(tle(pv(s2[0]), pv(s1[0]))) by { if j > 0 { assert(tle(pv(s2[0]), pv(s2[j]))); } }
        assert(pv(s1[0]) == pv(s2[0]));
        assert(k1 == k2);
        let m2 = m.remove(k1);
        let t1 = s1.subrange(1, s1.len() as int); let t2 = s2.subrange(1, s2.len() as int);
        assert(is_sorted_entries(m2, t1)) by {
            assert forall|k: String| m2.contains_key(k) implies exists|i: int| 0 <= i < t1.len() && *(#[trigger] t1[i]).0 == k by {
                let i0 = choose|i: int| 0 <= i < s1.len() && *(#[trigger] s1[i]).0 == k; assert(i0 != 0); assert(*t1[i0 - 1].0 == k);
            }
            assert forall|i: int| 0 <= i < t1.len() implies m2.contains_key(*(#[trigger] t1[i]).0) && m2[*t1[i].0] == *t1[i].1 by {
                assert(t1[i] == s1[i + 1]); assert(*s1[0].0 != *s1[i + 1].0);
            }
            assert forall|i: int, j: int| 0 <= i < j < t1.len() implies tle(pv(#[trigger] t1[i]), pv(#[trigger] t1[j])) by { assert(t1[i] == s1[i + 1]); assert(t1[j] == s1[j + 1]); }
        }
        assert(is_sorted_entries(m2, t2)) by {
            assert forall|k: String| m2.contains_key(k) implies exists|i: int| 0 <= i < t2.len() && *(#[trigger] t2[i]).0 == k by {
                let i0 = choose|i: int| 0 <= i < s2.len() && *(#[trigger] s2[i]).0 == k; assert(i0 != 0); assert(*t2[i0 - 1].0 == k);
            }
            assert forall|i: int| 0 <= i < t2.len() implies m2.contains_key(*(#[trigger] t2[i]).0) && m2[*t2[i].0] == *t2[i].1 by {
                assert(t2[i] == s2[i + 1]); assert(*s2[0].0 != *s2[i + 1].0);
            }
            assert forall|i: int, j: int| 0 <= i < j < t2.len() implies tle(pv(#[trigger] t2[i]), pv(#[trigger] t2[j])) by { assert(t2[i] == s2[i + 1]); assert(t2[j] == s2[j + 1]); }
        }
        lemma_sorted_entries_unique(m2, t1, t2);
        assert forall|i: int| 0 <= i < s1.len() implies *(#[trigger] s1[i]).0 == *s2[i].0 && *s1[i].1 == *s2[i].1 by {
            if i > 0 { assert(t1[i - 1] == s1[i]); assert(t2[i - 1] == s2[i]); }
        }
    }
}
// A-collect
#[verifier::external_body]
pub fn collect_entries<'a, V>(m: &'a HashMap<String, V>) -> (r: Vec<(&'a String, &'a V)>)
    ensures is_entries(m@, r@)
{ m.iter().collect() }
// rank of a name in a table (views, because callers pass &str)
pub open spec fn rank_of<V: HasOrder>(m: Map<String, V>, n: Seq<char>) -> usize {
    if exists|x: String| x@ == n && m.contains_key(x) { let x = choose|x: String| x@ == n && m.contains_key(x); m[x].ord() } else { m.len() as usize }
}
pub proof fn lemma_insert_keeps_ranks<V: HasOrder>(m: Map<String, V>, k: String, v: V)
    requires ranks_ok(m), v.ord() == rank_of(m, k@), m.len() < usize::MAX
    ensures ranks_ok(m.insert(k, v))
{
    let m2 = m.insert(k, v);
    if m.contains_key(k) {
        let x = choose|x: String| x@ == k@ && m.contains_key(x);
        axiom_string_ext(x, k);
        assert(m2.dom() =~= m.dom());
        assert(m2.len() == m.len());
    } else {
        assert forall|x: String| x@ == k@ implies !m.contains_key(x) by { axiom_string_ext(x, k); }
        assert(m2.len() == m.len() + 1);
    }
}
"""


def lift_sort_by(cut, fn_name, elem_ty, spec_name):
    """R7/R13: `V.sort_by(|a, b| BODY);` -> `sort_by_<fn>(&mut V);` plus the lifted comparator `fn <fn>(a, b) -> Ordering { BODY }`.
    The shim's body is `V.sort_by(<fn>)` (eta-equivalent); its assumed contract (A-sort) is stated through the comparator's contract."""
    m = re.search(r"(\w+)\.sort_by\(\|(\w+), (\w+)\| ([^;]+?)\);", cut.text)
    if not m:
        raise Undecided("%s: `v.sort_by(|a, b| …);` not found" % cut.desc)
    vec, a, b, body = m.group(1), m.group(2), m.group(3), m.group(4)
    cut.text = cut.text[:m.start()] + "sort_by_%s(&mut %s);" % (fn_name, vec) + cut.text[m.end():]
    cut.log.append("R13 %s.sort_by(|%s, %s| %s) -> sort_by_%s(&mut %s) + lifted comparator" % (vec, a, b, body, fn_name, vec))
    comparator = """
// lifted comparator closure of %(desc)s (body verbatim)
fn %(fn)s(%(a)s: &%(ty)s, %(b)s: &%(ty)s) -> (r: Ordering)
    ensures (r == Ordering::Less) == (%(a)s.1.ord() < %(b)s.1.ord()), //@ C05:cmp-%(spec)s-less
            (r == Ordering::Equal) == (%(a)s.1.ord() == %(b)s.1.ord()), //@ C05:cmp-%(spec)s-equal
{
    %(body)s
}
// A-sort: assumed contract of slice::sort_by applied to the comparator above
#[verifier::external_body]
fn sort_by_%(fn)s(v: &mut Vec<%(ty)s>)
    ensures final(v)@.len() == old(v)@.len(),
        forall|i: int| 0 <= i < old(v)@.len() ==> exists|j: int| 0 <= j < final(v)@.len() && final(v)@[j] == #[trigger] old(v)@[i],
        forall|j: int| 0 <= j < final(v)@.len() ==> exists|i: int| 0 <= i < old(v)@.len() && old(v)@[i] == #[trigger] final(v)@[j],
        (forall|i: int, j: int| 0 <= i < j < old(v)@.len() ==> #[trigger] old(v)@[i] != #[trigger] old(v)@[j]) ==> (forall|i: int, j: int| 0 <= i < j < final(v)@.len() ==> #[trigger] final(v)@[i] != #[trigger] final(v)@[j]),
        // no later element compares Less than an earlier one; by the comparator's contract: ascending rank
        forall|i: int, j: int| 0 <= i < j < final(v)@.len() ==> !((#[trigger] final(v)@[j]).1.ord() < (#[trigger] final(v)@[i]).1.ord()),
{ v.sort_by(%(fn)s) }
""" % {"fn": fn_name, "a": a, "b": b, "ty": elem_ty, "body": body, "spec": spec_name, "desc": cut.desc}
    return comparator


SITE_RE = re.compile(r"(self|state)\.(variables|functions)\.insert\(\s*([^,]+?),\s*(Variable|Function) \{\s*order: ([^,]+),")


_INS = {}


def inserters(comp):
    """names of the functions of compile.rs that can add an entry to the variable / function tables: their text contains an insert on one of the tables, or
    calls (as self.NAME(..)) a function that can (fixpoint)"""
    if id(comp) in _INS:
        return _INS[id(comp)]
    spans = {}
    for m in re.finditer(r"\bfn\s+(\w+)\s*[<(]", comp.masked):
        try:
            s0, ob, cb = comp.find_fn_span(m.group(1))
        except Undecided:
            continue
        spans[m.group(1)] = comp.masked[ob:cb]
    ins = set(n for n, t in spans.items() if re.search(r"\.(variables|functions)\.insert\(", t))
    changed = True
    while changed:
        changed = False
        for n, t in spans.items():
            if n not in ins and any(c in ins for c in re.findall(r"\bself\.(\w+)\(", t)):
                ins.add(n)
                changed = True
    _INS[id(comp)] = ins
    return ins


def build(repo):
    u = Unit(NAME, TOOL, PROPS,
             ["src/compile.rs: CompilerState::sorted_variables", "src/compile.rs: CompilerState::sorted_functions", "src/compile.rs: CompilerState::variable_order",
              "src/compile.rs: CompilerState::function_order", "src/compile.rs: every `self.variables.insert(K, Variable { order: E, …` / `self.functions.insert(K, Function { order: E, …` statement (key and rank expressions)",
              "src/compile.rs: the literal drains of parse_expr / parse_expr_init_value (collect + sort + loop header)"],
             assumptions=["A-collect, A-sort, A-spec-hash-str, A-vstd",
                          "R6: Variable/Function shims keep only `order`; the other fields of the struct literals at the insertion sites are dropped by the extraction (they do not influence ranks)",
                          "that no other statement writes `order` or the tables: checked by a textual scan of compile.rs on every run (a scan, not a proof)",
                          "table sizes stay below usize::MAX",
                          "hidden state (statics, environment) and diagnostics text are not under contract"])
    comp = SourceFile(repo, "src/compile.rs")
    cuts = []
    parts = []
    comparators = []
    for fname, field, ty, tyname in (("sorted_variables", "variables", "Variable", "var"), ("sorted_functions", "functions", "Function", "fun")):
        c = comp.fn(fname, within="CompilerState")
        cuts.append(c)
        c.sub(r"self\.%s\.iter\(\)\.collect\(\)" % field, "collect_entries(&self.%s)" % field, "R13 collect (A-collect)", expect=1)
        c.sub(r"Function<'a>", "Function", "R6 lifetime of the shim type", expect=(0, 2))
        comparators.append(lift_sort_by(c, "cmp_" + fname, "(&String, &%s)" % ty, tyname))
        c.set_header("""pub fn %s(&self) -> (r: Vec<(&String, &%s)>)
        ensures is_listing(self.%s@, r@), //@ C05:%s-listing
""" % (fname, ty, field, tyname), expect_sig="fn %s(&self) -> Vec<(&String, &%s" % (fname, ty))
        c.after_stmt(r"collect_entries\(&self\.%s\)" % field, "        let ghost v0 = v@;")
        c.after_stmt(r"sort_by_cmp_%s\(&mut v\)" % fname, """        proof {
            let m = self.%(f)s@; let s = v@;
            assert forall|i: int, j: int| 0 <= i < j < s.len() implies *(#[trigger] s[i]).0 != *(#[trigger] s[j]).0 by {
                assert forall|a: int, b: int| 0 <= a < b < v0.len() implies #[trigger] v0[a] != #[trigger] v0[b] by { }
                let a = choose|a: int| 0 <= a < v0.len() && v0[a] == s[i]; let b = choose|b: int| 0 <= b < v0.len() && v0[b] == s[j];
                assert(s[i] != s[j]);
                if a < b { assert(*v0[a].0 != *v0[b].0); } else if b < a { assert(*v0[b].0 != *v0[a].0); }
            }
            assert forall|i: int| 0 <= i < s.len() implies m.contains_key(*(#[trigger] s[i]).0) && m[*s[i].0] == *s[i].1 by {
                let a = choose|a: int| 0 <= a < v0.len() && v0[a] == s[i];
            }
            assert forall|k: String| m.contains_key(k) implies exists|i: int| 0 <= i < s.len() && *(#[trigger] s[i]).0 == k by {
                let a = choose|a: int| 0 <= a < v0.len() && *(#[trigger] v0[a]).0 == k;
                let j = choose|j: int| 0 <= j < s.len() && s[j] == v0[a];
                assert(*s[j].0 == k);
            }
        }""" % {"f": field})
        parts.append(c.text)
    # rank helpers
    for fname, field in (("variable_order", "variables"), ("function_order", "functions")):
        c = comp.fn(fname, within="CompilerState")
        cuts.append(c)
        # R14: Option::map_or(d, |x| e)  ==  match opt { Some(x) => e, None => d }
        m = re.search(r"self\s*\.%s\s*\.get\(name\)\s*\.map_or\(\s*(.+?),\s*\|(\w+)\|\s*(.+?)\s*\)\s*\}" % field, c.text, re.S)
        if not m:
            raise Undecided("%s: body is not `self.%s.get(name).map_or(D, |x| E)`" % (fname, field))
        c.text = c.text[:m.start()] + "match self.%s.get(name) { Some(%s) => %s, None => %s }\n    }" % (field, m.group(2), m.group(3), m.group(1)) + c.text[m.end():]
        c.log.append("R14 Option::map_or(d, |x| e) -> match (definition of map_or)")
        c.set_header("""fn %s(&self, name: &str) -> (r: usize)
        ensures r == rank_of(self.%s@, name@), //@ C05:%s-rank
""" % (fname, field, fname), expect_sig="fn %s(&self, name: &str) -> usize" % fname)
        c.at_block_start(r"fn %s" % fname, """        broadcast use vstd::std_specs::hash::group_hash_axioms;
        proof { axiom_string_key_model(); axiom_str_borrow_map(self.%s@, name); }
        proof { if exists|x: String| x@ == name@ && self.%s@.contains_key(x) {
            let x = choose|x: String| x@ == name@ && self.%s@.contains_key(x);
            assert forall|y: String| y@ == name@ && self.%s@.contains_key(y) implies y == x by { axiom_string_ext(x, y); }
        } }""" % (field, field, field, field))
        parts.append(c.text)
    # insertion sites: key expression + rank expression, verbatim
    sites = []
    text = comp.text
    for k, m in enumerate(SITE_RE.finditer(comp.masked)):
        recv, field, key, ty, expr = m.group(1), m.group(2), text[m.start(3):m.end(3)].strip(), m.group(4), text[m.start(5):m.end(5)].strip()
        ln = line_of(text, m.start())
        how_ = "direct"
        if "self.current_function" in expr:
            # a rank expression that consults `self.current_function`: if the nearest assignment before the site, in an enclosing block, gives it the very key that
            # is inserted (`self.current_function = name.clone();`), the field stands for that key; otherwise it is hidden state (whatever was compiled before)
            asg = [a for a in re.finditer(r"self\.current_function\s*=\s*(\w+)(?:\.clone\(\))?;", comp.masked[:m.start()])]
            if asg:
                a = asg[-1]
                between = comp.masked[a.end():m.start()]
                depth, lowest = 0, 0
                for ch in between:
                    if ch == "{":
                        depth += 1
                    elif ch == "}":
                        depth -= 1; lowest = min(lowest, depth)
                if lowest == 0 and a.group(1) == key.strip().lstrip("&").replace(".clone()", "") and not re.search(r"\bfn \w+", between):
                    expr = expr.replace("self.current_function", a.group(1))
                    how_ = "direct; self.current_function == %s since line %d" % (a.group(1), line_of(text, a.start()))
        sites.append((ln, recv, field, key, ty, expr, how_))
    # indirect sites (rank computed into a local first)
    for pat, key, how in ((r"let order = self\.variable_order\(&name\);\s*self\.variables\.insert\(\s*name,\s*Variable \{\s*order,", "name", "self.variable_order(&name)"),
                          (r"let var = Variable \{\s*order: ([^,]+),", "longname", None)):
        for m in re.finditer(pat, comp.masked):
            expr = how or text[m.start(1):m.end(1)].strip()
            sites.append((line_of(text, m.start()), "self", "variables", key, "Variable", expr, "via local"))
    # a rank taken into a local EARLIER than right before the insertion: the rank is the table size at that moment, so nothing may be inserted in between.
    # Decided on the text between the two statements (frame by scan): a call of a method of self other than the rank helper, or an insert, can add an entry.
    early = []
    seen = set(x[0] for x in sites)
    for m in re.finditer(r"self\.variables\.insert\(\s*name,\s*Variable \{\s*order,", comp.masked):
        prev = comp.masked.rfind("let order = self.variable_order(&name);", 0, m.start())
        if prev >= 0 and not comp.masked[prev + len("let order = self.variable_order(&name);"):m.start()].strip():
            continue        # the shape handled above
        cands = [x for x in re.finditer(r"\border\s*=\s*self\.variable_order\(&name\);", comp.masked[:m.start()])]
        if not cands:
            continue
        a = cands[-1]
        between = comp.masked[a.end():m.start()]
        called = set(re.findall(r"\bself\.(\w+)\(", between))
        adds = sorted(x for x in called if x in inserters(comp)) + (["insert"] if re.search(r"\.(variables|functions)\.insert\(", between) else [])
        ln = line_of(text, m.start())
        early.append((ln, line_of(text, a.start()), adds))
        sites.append((ln, "self", "variables", "name", "Variable", "self.variable_order(&name)", "via local, taken at line %d" % line_of(text, a.start())))
    sites.sort()
    if len(sites) < 8:
        raise Undecided("only %d insertion sites of the variable/function tables found (expected >= 8)" % len(sites))
    # scan: any other writer of `order`?
    others = [line_of(text, m.start()) for m in re.finditer(r"\.order\s*=[^=]", comp.masked)]
    if others:
        raise Undecided("compile.rs assigns `.order` outside a struct literal at line(s) %s: outside the unit's model" % others)
    n_inserts = len(re.findall(r"\.(variables|functions)\.insert\(", comp.masked))
    if n_inserts != len(sites):
        raise Undecided("%d insert() calls on the tables but %d recognised sites: an insertion shape outside the unit's model" % (n_inserts, len(sites)))
    site_fns = []
    for idx, (ln, recv, field, key, ty, expr, how) in enumerate(sites, 1):
        params = []
        body_key = key
        if re.match(r"^k\.0\.clone\(\)$", key):
            params.append("k: (&String, &String)")
        elif key.startswith('"'):
            pass
        else:
            base = re.sub(r"\.(clone|to_string|into)\(\)$", "", key)
            params.append("%s: String" % base)
            if key.endswith(".to_string()") or key.endswith(".into()"):
                body_key = "string_of(&%s)" % base
            elif key == base:
                body_key = "%s" % base
        if "longname" in expr and not any(p.startswith("longname") for p in params):
            params.append("longname: String")
        # any other free identifier of the rank expression is a name the site takes from its context: it becomes a &str parameter (arbitrary text)
        declared = set(p.split(":")[0].strip() for p in params)
        for fm_ in re.finditer(r"(?<![\w.])([a-z_]\w*)\b(?!\s*\()", expr):
            ident = fm_.group(1)
            if ident in declared or ident in ("self", "state", "as", "usize", "u32", "i32", "true", "false", "mut"):
                continue
            params.append("%s: &str" % ident)
            declared.add(ident)
        e = expr.replace("state.", "self.")
        keyexpr = body_key
        if recv == "state":
            # compile(): executed once, after every declaration has been compiled and before the builder runs
            site_fns.append("""
    // insertion site %(idx)d: src/compile.rs:%(ln)d (last insertion of compile(), nothing is inserted afterwards)   key = `%(key)s`   rank = `%(expr)s`
    fn site_%(idx)d(&mut self)
        requires ranks_ok(old(self).%(field)s@), old(self).%(field)s@.len() < usize::MAX - 1,
        ensures orders_distinct(final(self).%(field)s@), //@ C05:site-%(idx)d-keeps-ranks-distinct
    {
        broadcast use vstd::std_specs::hash::group_hash_axioms;
        proof { axiom_string_key_model(); }
        let __rank = %(e)s;
        let __key: String = %(keyexpr)s;
        proof { lemma_insert_last(self.%(field)s@, __key, %(ty)s { order: __rank, rest: 0 }); }
        self.%(field)s.insert(__key, %(ty)s { order: __rank, rest: 0 });
    }
""" % {"idx": idx, "ln": ln, "key": key, "expr": expr, "field": field, "e": e, "keyexpr": keyexpr, "ty": ty})
            continue
        site_fns.append("""
    // insertion site %(idx)d: src/compile.rs:%(ln)d (%(how)s)   key = `%(key)s`   rank = `%(expr)s`
    fn site_%(idx)d(&mut self%(params)s)
        requires ranks_ok(old(self).%(field)s@), old(self).%(field)s@.len() < usize::MAX - 1,
        ensures ranks_ok(final(self).%(field)s@), //@ C05:site-%(idx)d-keeps-ranks-unique
    {
        broadcast use vstd::std_specs::hash::group_hash_axioms;
        proof { axiom_string_key_model(); }
        let __rank = %(e)s;
        let __key: String = %(keyexpr)s;
        proof { lemma_insert_keeps_ranks(self.%(field)s@, __key, %(ty)s { order: __rank, rest: 0 }); }
        self.%(field)s.insert(__key, %(ty)s { order: __rank, rest: 0 });
    }
""" % {"idx": idx, "ln": ln, "how": how, "key": key, "expr": expr, "params": "".join(", " + p for p in params), "field": field, "e": e, "keyexpr": keyexpr, "ty": ty})
    for ln, ln0, adds in early:
        site_fns.append("""
    // insertion at src/compile.rs:%d with a rank taken at line %d: between the two, %s
    proof fn rank_taken_at_insertion_%d() { assert(%s); //@ C05:rank-taken-when-the-entry-is-inserted
    }
""" % (ln, ln0, ("calls that can add entries: " + ", ".join(adds)) if adds else "nothing is inserted", ln, "false" if adds else "true"))
    # literal drains: the statements between `let res = self.<..>_ex(pairs)?;` and the drain loop's header, and the header
    drains = []
    for k, fname in enumerate(("parse_expr", "parse_expr_init_value"), 1):
        pf = comp.fn(fname, within="CompilerState")
        cuts.append(pf)
        m = re.search(r"let res = self\.\w+_ex\(pairs(?:,[^)]*)?\)\?;(.*?)\bfor (\w+) in ([^{]+?)\s*\{", pf.text, re.S)
        if not m:
            raise Undecided("%s: literal drain loop not found" % fname)
        pre, var, it_expr = m.group(1), m.group(2), m.group(3).strip()
        # the counter that names the literals (`cctmp<N>`): R8 -- `self.literal_counter` becomes the local `literal_counter` of the window
        pre = re.sub(r"\bself\.literal_counter\b", "literal_counter", pre)
        pre = re.sub(r"//[^\n]*\n", "\n", pre)
        pre2, n1 = re.subn(r"res\.1\.iter\(\)\.collect\(\)", "collect_entries(&res.1)", pre)
        pre2, n2 = re.subn(r"(\w+)\.sort\(\);", r"sort_natural(&mut \1);", pre2)
        # a sort on the second component only (the literal's text): R13 stub with the specification of a stable sort by that key (ties keep the collected order)
        pre2, n3 = re.subn(r"(\w+)\.sort_by\(\|a, b\| a\.1\.cmp\(b\.1\)\);", r"sort_by_second(&mut \1);", pre2)
        n2 += n3
        pf.log.append("R8 drain block of %s: pre-statements %r, loop over %r (collect x%d, sort x%d rewritten); loop body dropped" % (fname, " ".join(pre.split()), it_expr, n1, n2))
        if it_expr.startswith("&"):
            it_expr = "(%s).iter()" % it_expr[1:]      # R12
        drains.append("""
    // literal drain of %(fname)s (src/compile.rs:%(ln)d): what the drain loop iterates must be a fixed function of the literal map
    fn drain_%(k)d(res: &(Expr, HashMap<String, String>), literal_counter: usize)
        requires literal_counter + res.1@.len() <= usize::MAX,
    {
        broadcast use vstd::std_specs::hash::group_hash_axioms;
        proof { axiom_string_key_model(); }
        let ghost __lc0 = literal_counter;
        let mut literal_counter = literal_counter;
%(pre)s
        // the literals of this expression were named cctmp<counter>, cctmp<counter+1>, ...: the next expression must start after them
        assert(literal_counter == __lc0 + res.1@.len()); //@ C09,C05:drain-%(k)d-literal-counter-advanced
        proof {
            assert forall|i: int, j: int| 0 <= i < j < literals@.len() implies *(#[trigger] literals@[i]).0 != *(#[trigger] literals@[j]).0 by {
                let a = choose|a: int| 0 <= a < __c0.len() && __c0[a] == literals@[i]; let b = choose|b: int| 0 <= b < __c0.len() && __c0[b] == literals@[j];
                assert forall|x: int, y: int| 0 <= x < y < __c0.len() implies #[trigger] __c0[x] != #[trigger] __c0[y] by { }
                assert(literals@[i] != literals@[j]);
                if a < b { assert(*__c0[a].0 != *__c0[b].0); } else if b < a { assert(*__c0[b].0 != *__c0[a].0); }
            }
            assert forall|i: int| 0 <= i < literals@.len() implies res.1@.contains_key(*(#[trigger] literals@[i]).0) && res.1@[*literals@[i].0] == *literals@[i].1 by {
                let a = choose|a: int| 0 <= a < __c0.len() && __c0[a] == literals@[i];
            }
            assert forall|key: String| res.1@.contains_key(key) implies exists|i: int| 0 <= i < literals@.len() && *(#[trigger] literals@[i]).0 == key by {
                let a = choose|a: int| 0 <= a < __c0.len() && *(#[trigger] __c0[a]).0 == key;
                let j = choose|j: int| 0 <= j < literals@.len() && literals@[j] == __c0[a];
                assert(*literals@[j].0 == key);
            }
        }
        for %(var)s in it: %(it)s
            invariant is_sorted_entries(res.1@, it.snapshot.remaining()), //@ C05:drain-%(k)d-order-fixed
        { }
    }
""" % {"fname": fname, "k": k, "ln": pf.line0, "pre": re.sub(r"((?:sort_natural|sort_by_second)\(&mut literals\);)", r"let ghost __c0 = literals@;\n        \1", pre2) if n2 else pre2 + "\n        let ghost __c0 = Seq::<(&String, &String)>::empty(); let literals: Vec<(&String, &String)> = Vec::new();", "var": var, "it": it_expr})
    text_out = common.PRELUDE + common.header_comment(NAME, cuts) + "verus! {\n" + SPECS + "\n".join(comparators) + \
        "impl CompilerState {\n" + "\n".join(parts) + "\n" + "\n".join(site_fns) + "\n" + "\n".join(drains) + "\n}\n" + common.CANARY + "\n} // verus!\n"
    u.text[None] = text_out
    u.rewrites = common.collect_rewrites(cuts) + ["R8: %d insertion sites reduced to (key expression, rank expression)" % len(sites)]
    u.dropped = ["R6 shims", "all fields of the inserted struct literals except `order`", "the code surrounding each insertion site"]
    return u
