"""U-asm: GeneratorState::asm and the small emitters around it (C04 sizes, C13 legal modes, C17 ports, C18 protected)."""
import re
from vf.core import Unit
from vf.rustcut import SourceFile, Undecided
from . import common, isa, u_size

NAME = "U-asm"
TOOL = "verus"
PROPS = ["C04", "C13", "C17", "C18", "C03", "C16"]
RLIMIT = 200
TRUSTED = ["verus 0.2026.09.13 + z3", "A-vstd (String/str/Vec specs)", "A-isa: 6502 mode/length table (units/isa.py)", "A-fmt (R4)"]

SHIM = """
// ---- R6 shim environment: what asm() needs from the rest of the compiler ----------------------
pub struct Error { pub e: u8 }
pub struct CompilerState { pub x: u8 }
impl CompilerState {
    pub uninterp spec fn var(&self, name: Seq<char>) -> Variable;
    pub uninterp spec fn declared(&self, name: Seq<char>) -> bool;
    // CompilerState::get_variable is `variables.get(name).unwrap()`: it panics on a name that is not a variable (an operand built from an identifier nobody looked up,
    // a literal nobody registered, DUMMY without the feature that declares it)
    #[verifier::external_body]
    pub fn get_variable(&self, name: &str) -> (r: &Variable)
        requires self.declared(name@), //@ C16:asm-operand-variable-looked-up-without-panic
        ensures *r == self.var(name@) { unimplemented!() }
    #[verifier::external_body]
    pub fn syntax_error(&self, message: &str, loc: usize) -> Error { unimplemented!() }
}
// `out` stands for functions_code[current_function] (R5); only the fields the unit touches are kept.
pub struct GeneratorState<'a> {
    pub compiler_state: &'a CompilerState,
    pub out: AssemblyCode,
    pub current_function: Option<String>,
    pub bankswitching_scheme: &'a str,
    pub protected: bool,
    pub flags: FlagsState,
    pub carry_flag_ok: bool,
    pub inline_label_counter: u32,
}
use AsmMnemonic::*;
// R11: `x.to_string()` on a String goes through the blanket `impl<T: Display> ToString for T`, which cannot be given a
// specification; it is rewritten to this shim, whose body is the original call (A-spec: Display of String is the identity).
#[verifier::external_body]
pub fn string_of(s: &String) -> (r: String) ensures r@ == s@ { s.to_string() }

// ---- contract vocabulary -------------------------------------------------------------------------
pub open spec fn frame_same(a: &GeneratorState, b: &GeneratorState) -> bool {
    a.protected == b.protected && a.current_function == b.current_function && a.compiler_state == b.compiler_state
    && a.bankswitching_scheme == b.bankswitching_scheme && a.inline_label_counter == b.inline_label_counter
}
pub open spec fn emitted_one(a: Seq<AsmLine>, b: Seq<AsmLine>) -> bool { b.len() == a.len() + 1 && b.subrange(0, a.len() as int) =~= a && b[a.len() as int] is Instruction }
pub open spec fn new_inst(a: Seq<AsmLine>, b: Seq<AsmLine>) -> AsmInstruction { b[a.len() as int]->Instruction_0 }
pub open spec fn sym_zp(g: &GeneratorState, operand: ExprType) -> bool {
    match operand {
        ExprType::Tmp(_) => true,     // cctmp is a zero-page scratch byte (A-zp)
        ExprType::Absolute(v, _, _) => g.compiler_state.var(v@).memory == VariableMemory::Zeropage,
        ExprType::AbsoluteX(v) => g.compiler_state.var(v@).memory == VariableMemory::Zeropage,
        ExprType::AbsoluteY(v) => g.compiler_state.var(v@).memory == VariableMemory::Zeropage,
        _ => false,
    }
}
pub open spec fn eff_mnemonic(m: AsmMnemonic, operand: ExprType) -> AsmMnemonic {
    match operand { ExprType::A(_) => if m == LDX { TAX } else if m == LDY { TAY } else { m }, _ => m }
}
pub open spec fn names_ok(operand: ExprType) -> bool {
    match operand {
        ExprType::Absolute(v, _, off) => ident(v@) && -0x100_0000 <= off <= 0x100_0000,
        ExprType::AbsoluteX(v) => ident(v@),
        ExprType::AbsoluteY(v) => ident(v@),
        ExprType::Label(l) => ident(l@),
        _ => true,
    }
}
pub open spec fn var_of(g: &GeneratorState, operand: ExprType) -> Variable {
    match operand {
        ExprType::Absolute(v, _, _) => g.compiler_state.var(v@),
        ExprType::AbsoluteX(v) => g.compiler_state.var(v@),
        ExprType::AbsoluteY(v) => g.compiler_state.var(v@),
        _ => g.compiler_state.var(Seq::<char>::empty()),
    }
}
// an Absolute operand that denotes the variable's own cell with no offset: 8-bit access to a char, or a constant pointer's target
pub open spec fn plain_abs(g: &GeneratorState, m: AsmMnemonic, operand: ExprType, high_byte: bool) -> bool {
    match operand {
        ExprType::Absolute(n, eb, off) => {
            let v = g.compiler_state.var(n@);
            eb && !high_byte && (v.var_type == VariableType::Char || (v.var_type == VariableType::CharPtr && v.var_const)) && off + port(g, v, m) == 0
        }
        _ => false,
    }
}
// exactly when asm() accepts an Absolute operand (its only rejections: RMW on split-port memory; 8-bit access through a
// non-constant pointer with a constant offset, which the 6502 cannot address)
pub open spec fn abs_accepted(g: &GeneratorState, m: AsmMnemonic, operand: ExprType, high_byte: bool) -> bool {
    match operand {
        ExprType::Absolute(n, eb, _) => {
            let v = g.compiler_state.var(n@);
            // the name is a declared variable (otherwise: a located error), and the access is one the memory class allows
            let constant = match v.var_type {
                VariableType::Char => !eb || high_byte,
                VariableType::Short => eb && high_byte,
                VariableType::CharPtr => (!eb && v.var_const) || (high_byte && eb),
                _ => false,
            };
            g.compiler_state.declared(n@) && !(m_rmw(m) && split_port(g, v)) && !(v.var_type == VariableType::CharPtr && eb && !v.var_const && !high_byte)
            && !(constant && (m_store(m) || m_rmw(m)))
        }
        _ => true,
    }
}
#[verifier::external_body] pub fn text_is_immediate(s: &String) -> (r: bool) ensures r == (kind_of_text(s@) is Imm) { s.starts_with('#') }
pub open spec fn is_store(m: AsmMnemonic) -> bool { m == STA || m == STX || m == STY }
pub open spec fn split_port(g: &GeneratorState, v: Variable) -> bool {
    v.memory == VariableMemory::Superchip || (v.memory is MemoryOnChip && (g.bankswitching_scheme@ == "3E"@ || g.bankswitching_scheme@ == "3EP"@))
}
// C17: the address offset of the port an access must use (superchip: write port at +0, read port at +0x80;
// 3E: write port +0x400; 3E+: write port +0x200)
pub open spec fn port(g: &GeneratorState, v: Variable, m: AsmMnemonic) -> int {
    if v.memory == VariableMemory::Superchip { if is_store(m) { 0 } else { 0x80 } }
    else if v.memory is MemoryOnChip {
        if g.bankswitching_scheme@ == "3E"@ { if is_store(m) { 0x400 } else { 0 } }
        else if g.bankswitching_scheme@ == "3EP"@ { if is_store(m) { 0x200 } else { 0 } }
        else { 0 }
    } else { 0 }
}
// C17 / C01: the operand text of a memory access names the cell `symbol + displacement`, the displacement being the constant index, plus the
// port offset of the access (C17), plus the position of the high byte (1 for a 16-bit scalar; the array length for split low/high tables)
pub open spec fn addr_text(n: Seq<char>, d: int) -> Seq<char> { if d == 0 { n } else { n + "+"@ + dec(d) } }
pub open spec fn mem_text(g: &GeneratorState, m: AsmMnemonic, operand: ExprType, hb: bool) -> Option<Seq<char>> {
    let v = var_of(g, operand);
    let p = port(g, v, m);
    let ptrptr = v.var_type == VariableType::CharPtrPtr || v.var_type == VariableType::ShortPtr;
    match operand {
        ExprType::Absolute(n, eb, off) => {
            let d: Option<int> = match v.var_type {
                VariableType::Char => if eb && !hb { Some(off + p) } else { None },
                VariableType::Short => if eb && hb { None } else { Some(off + p + if hb { 1int } else { 0int }) },
                VariableType::CharPtr => if (!eb && v.var_const) || (hb && eb) || (eb && !v.var_const) { None } else { Some(off + p + if hb { 1int } else { 0int }) },
                _ => Some(off + p + if hb { v.size as int } else { 0int }),
            };
            match d { Some(d) => if d >= 0 { Some(addr_text(n@, d)) } else { None }, None => None }      // negative displacements: not specified
        }
        ExprType::AbsoluteX(n) => if ptrptr { Some(addr_text(n@, p + if hb { v.size as int } else { 0int }) + ",X"@) } else if hb { None } else { Some(addr_text(n@, p) + ",X"@) },
        ExprType::AbsoluteY(n) => if ptrptr { Some(addr_text(n@, p + if hb { v.size as int } else { 0int }) + ",Y"@) } else if hb { None }
                                  else if v.var_type == VariableType::CharPtr && !v.var_const { Some("("@ + addr_text(n@, p) + "),Y"@) } else { Some(addr_text(n@, p) + ",Y"@) },
        _ => None,
    }
}
// What asm() leaves to its callers (weakest precondition found by proof; each line is a caller obligation, unproved here):
pub open spec fn caller_legal(g: &GeneratorState, m: AsmMnemonic, operand: ExprType, high_byte: bool) -> bool {
    let v = var_of(g, operand);
    match operand {
        ExprType::Label(_) => m_branch(m) || m == JMP || m == JSR,
        ExprType::Immediate(_) => legal(m, Mode::Imm) || m_store(m) || m_rmw(m),      // a store / read-modify-write on a constant: rejected by asm() itself
        ExprType::Tmp(_) => legal(m, Mode::Zp),
        ExprType::Nothing => legal(m, Mode::Implied),
        ExprType::A(_) => true,
        ExprType::Absolute(_, eight_bits, _) => {
            // the operand denotes a constant (address of an array / constant pointer, or the zero high byte of an 8-bit value) ...
            let constant = match v.var_type {
                VariableType::Char => !eight_bits || high_byte,
                VariableType::Short => eight_bits && high_byte,
                VariableType::CharPtr => (!eight_bits && v.var_const) || (high_byte && eight_bits),
                _ => false,
            };
            if constant { legal(m, Mode::Imm) || m_store(m) || m_rmw(m) } else { legal(m, Mode::Abs) && m != JMP && m != JSR }
        }
        ExprType::AbsoluteX(_) => {
            let constant = high_byte && v.var_type != VariableType::CharPtrPtr && v.var_type != VariableType::ShortPtr;
            if constant { legal(m, Mode::Imm) || m_store(m) || m_rmw(m) } else { legal(m, Mode::AbsX) || m == STY || m == STX || m == LDX || m == CPX || m == CPY }
        }
        ExprType::AbsoluteY(_) => {
            let ptrptr = v.var_type == VariableType::CharPtrPtr || v.var_type == VariableType::ShortPtr;
            let constant = !ptrptr && high_byte;
            let indirect = !ptrptr && !high_byte && v.var_type == VariableType::CharPtr && !v.var_const;
            if constant { legal(m, Mode::Imm) || m_store(m) || m_rmw(m) }
            else if indirect { legal(m, Mode::IndY) || m == STX || m == STY || m == LDX || m == LDY || m == CPX || m == CPY }
            else { legal(m, Mode::AbsY) || m == STX || m == STY || m == LDY || m == CPY || m == CPX }
        }
        _ => true,
    }
}
"""

ASM_HEADER = """
    pub(crate) fn asm(
        &mut self,
        mnemonic: AsmMnemonic,
        operand: &ExprType,
        pos: usize,
        high_byte: bool,
    ) -> (res: Result<bool, Error>)
        requires
            !(operand is X) && !(operand is Y),       // caller obligation: register operands reach unreachable!()
            names_ok(*operand),                       // names are identifiers, constant offsets are small (no i32 overflow)
            (operand is Absolute || operand is AbsoluteX || operand is AbsoluteY) ==> var_of(old(self), *operand).size < 0x100_0000,
            caller_legal(old(self), mnemonic, *operand, high_byte),
        ensures
            frame_same(old(self), final(self)), //@ C13:asm-frame
            final(self).flags == old(self).flags && final(self).carry_flag_ok == old(self).carry_flag_ok,
            res is Err ==> final(self).out.code@ == old(self).out.code@, //@ C13:asm-err-emits-nothing
            old(self).current_function is None ==> final(self).out.code@ == old(self).out.code@, //@ C13:asm-no-function
            res is Ok ==> (final(self).out.code@ == old(self).out.code@ || emitted_one(old(self).out.code@, final(self).out.code@)), //@ C13:asm-at-most-one
            (res is Ok && old(self).current_function is Some && !(operand is A && mnemonic == LDA)) ==> emitted_one(old(self).out.code@, final(self).out.code@), //@ C18:asm-emits
            emitted_one(old(self).out.code@, final(self).out.code@) ==> new_inst(old(self).out.code@, final(self).out.code@).protected == old(self).protected, //@ C18:asm-protected
            emitted_one(old(self).out.code@, final(self).out.code@) ==> new_inst(old(self).out.code@, final(self).out.code@).mnemonic == eff_mnemonic(mnemonic, *operand), //@ C13,C18:asm-mnemonic
            emitted_one(old(self).out.code@, final(self).out.code@) ==> legal(new_inst(old(self).out.code@, final(self).out.code@).mnemonic, assembler_mode(new_inst(old(self).out.code@, final(self).out.code@).mnemonic, kind_of_text(new_inst(old(self).out.code@, final(self).out.code@).dasm_operand@), sym_zp(old(self), *operand))), //@ C13:legal
            // a store or a read-modify-write instruction is never emitted on a constant (`arr = 5`, `&x = 3`): such an operand is an error
            emitted_one(old(self).out.code@, final(self).out.code@) ==> !(kind_of_text(new_inst(old(self).out.code@, final(self).out.code@).dasm_operand@) is Imm
                && (m_store(new_inst(old(self).out.code@, final(self).out.code@).mnemonic) || m_rmw(new_inst(old(self).out.code@, final(self).out.code@).mnemonic))), //@ C13,C01:no-store-to-a-constant
            // `(p),Y` exists for a pointer in page zero only
            emitted_one(old(self).out.code@, final(self).out.code@) ==> (kind_of_text(new_inst(old(self).out.code@, final(self).out.code@).dasm_operand@) is IndY ==> sym_zp(old(self), *operand)), //@ C13:indirect-pointer-in-zero-page
            emitted_one(old(self).out.code@, final(self).out.code@) ==> new_inst(old(self).out.code@, final(self).out.code@).nb_bytes as nat == mode_len(assembler_mode(new_inst(old(self).out.code@, final(self).out.code@).mnemonic, kind_of_text(new_inst(old(self).out.code@, final(self).out.code@).dasm_operand@), sym_zp(old(self), *operand))), //@ C04,C03,C13:nb
            emitted_one(old(self).out.code@, final(self).out.code@) ==> (operand is Tmp ==> new_inst(old(self).out.code@, final(self).out.code@).dasm_operand@ == "cctmp"@), //@ C13:text-tmp
            emitted_one(old(self).out.code@, final(self).out.code@) ==> (operand is Label ==> new_inst(old(self).out.code@, final(self).out.code@).dasm_operand@ == operand->Label_0@), //@ C13:text-label
            emitted_one(old(self).out.code@, final(self).out.code@) ==> (operand is Nothing ==> new_inst(old(self).out.code@, final(self).out.code@).dasm_operand@.len() == 0), //@ C13:text-nothing
            emitted_one(old(self).out.code@, final(self).out.code@) ==> (m_rmw(new_inst(old(self).out.code@, final(self).out.code@).mnemonic) && (operand is Absolute || operand is AbsoluteX || operand is AbsoluteY) ==> !split_port(old(self), var_of(old(self), *operand))), //@ C17:rmw
            emitted_one(old(self).out.code@, final(self).out.code@) ==> (plain_abs(old(self), mnemonic, *operand, high_byte) ==> new_inst(old(self).out.code@, final(self).out.code@).dasm_operand@ == operand->Absolute_0@), //@ C13,C18:text-abs-plain
            emitted_one(old(self).out.code@, final(self).out.code@) ==> (match mem_text(old(self), mnemonic, *operand, high_byte) { Some(t) => new_inst(old(self).out.code@, final(self).out.code@).dasm_operand@ =~= t, None => true }), //@ C17,C01:text-address
            (operand is Nothing || (operand is Immediate && !(m_store(mnemonic) || m_rmw(mnemonic))) || operand is Tmp || operand is Label) ==> res is Ok, //@ C16:asm-total-simple
            (operand is A && mnemonic == LDA) ==> final(self).out.code@ == old(self).out.code@, //@ C13:asm-lda-a-emits-nothing
            operand is Absolute ==> ((res is Ok) == abs_accepted(old(self), mnemonic, *operand, high_byte)), //@ C13,C16:asm-abs-accepts
        decreases (if operand is A { 1nat } else { 0nat }),
"""


SASM_HEADER = """pub(crate) fn sasm(&mut self, mnemonic: AsmMnemonic) -> (res: Result<bool, Error>)
        requires legal(mnemonic, Mode::Implied),
        ensures frame_same(old(self), final(self)), res is Ok,
            final(self).flags == old(self).flags && final(self).carry_flag_ok == old(self).carry_flag_ok,
            old(self).current_function is None ==> final(self).out.code@ == old(self).out.code@,
            old(self).current_function is Some ==> emitted_one(old(self).out.code@, final(self).out.code@) && new_inst(old(self).out.code@, final(self).out.code@).mnemonic == mnemonic
               && new_inst(old(self).out.code@, final(self).out.code@).protected == old(self).protected && new_inst(old(self).out.code@, final(self).out.code@).nb_bytes == 1
               && new_inst(old(self).out.code@, final(self).out.code@).dasm_operand@.len() == 0, //@ C04,C18:sasm
"""
SASM_PROTECTED_HEADER = """pub(crate) fn sasm_protected(&mut self, mnemonic: AsmMnemonic) -> (res: Result<bool, Error>)
        requires legal(mnemonic, Mode::Implied),
        ensures final(self).protected == false, final(self).current_function == old(self).current_function, res is Ok,
            final(self).compiler_state == old(self).compiler_state && final(self).bankswitching_scheme == old(self).bankswitching_scheme && final(self).inline_label_counter == old(self).inline_label_counter,
            final(self).flags == old(self).flags && final(self).carry_flag_ok == old(self).carry_flag_ok,
            old(self).current_function is None ==> final(self).out.code@ == old(self).out.code@,
            old(self).current_function is Some ==> emitted_one(old(self).out.code@, final(self).out.code@) && new_inst(old(self).out.code@, final(self).out.code@).mnemonic == mnemonic
               && new_inst(old(self).out.code@, final(self).out.code@).protected && new_inst(old(self).out.code@, final(self).out.code@).nb_bytes == 1
               && new_inst(old(self).out.code@, final(self).out.code@).dasm_operand@.len() == 0, //@ C18:sasm-protected
"""
INLINE_HEADER = """pub(crate) fn inline(&mut self, s: &str, size: Option<u32>) -> (res: Result<(), Error>)
        ensures frame_same(old(self), final(self)), res is Ok,
            final(self).flags == old(self).flags && final(self).carry_flag_ok == old(self).carry_flag_ok,
            old(self).current_function is Some ==> final(self).out.code@.len() == old(self).out.code@.len() + 1
                && final(self).out.code@.subrange(0, old(self).out.code@.len() as int) =~= old(self).out.code@
                && (match final(self).out.code@[old(self).out.code@.len() as int] { AsmLine::Inline(t, n) => t@ == s@ && n == (match size { Some(k) => k, None => 3u32 }), _ => false }), //@ C04,C18:inline-line
            old(self).current_function is None ==> final(self).out.code@ == old(self).out.code@,
"""


LABEL_HEADER = """pub(crate) fn label(&mut self, l: &str) -> (res: Result<(), Error>)
        ensures frame_same(old(self), final(self)), res is Ok,
            old(self).current_function is Some ==> final(self).out.code@.len() == old(self).out.code@.len() + 1
                && final(self).out.code@.subrange(0, old(self).out.code@.len() as int) == old(self).out.code@
                && (match final(self).out.code@[old(self).out.code@.len() as int] { AsmLine::Label(t) => t@ == l@, _ => false }) //@ C13:label-line
                && final(self).flags == FlagsState::Unknown && final(self).carry_flag_ok == false, //@ C01:label-resets-flags
"""


def r5_current_function(cut, expect=(1, 1)):
    """R5: `let code: &mut AssemblyCode = self.functions_code.get_mut(f).unwrap();` is dropped and `code.` becomes
    `self.out.`: self.out stands for functions_code[current_function] (HashMap::get_mut is unsupported by Verus)."""
    n = cut.sub(r"^[ \t]*let code: &mut AssemblyCode = self\.functions_code\.get_mut\(f\w?\)\.unwrap\(\);[ \t]*\n", "", "R5-get_mut", expect=expect)
    cut.sub(r"\bcode\.(append_\w+|set)\(", r"self.out.\1(", "R5-code->self.out")
    cut.sub(r"if let Some\((f\w?)\) = &self\.current_function \{", r"if let Some(_\1) = &self.current_function {", "R5-unused-binding")
    return n


def env(repo):
    """Types, shim, format shims and contracted stubs (external_body) of asm/sasm/sasm_protected/inline/label for caller units:
    callers are verified against exactly the contracts U-asm proves."""
    u = build(repo)
    e = u._env
    stubs = []
    for hdr in (e["asm_header"], SASM_HEADER, SASM_PROTECTED_HEADER, INLINE_HEADER, e["label_header"]):
        stubs.append("    #[verifier::external_body]\n    " + hdr.strip() + "\n    { unimplemented!() }\n")
    e["stubs"] = "\n".join(stubs)
    return e


def candidates(f):
    """operands whose name is not a variable: a located error, not a panic"""
    return [{"source": src, "args": ["-O1"], "expect": {"panic": False}, "note": note} for src, note in (
        ("unsigned char x; void f();\nvoid main() { x = (f >> 8) + 1; }\n", "(f >> 8) + 1 with a function name"), ("void main() { csleep(3); }\n", "csleep(3) where DUMMY is not declared"),
        ("unsigned char x, a[4]; unsigned char f(char *s) { return s[0]; }\nvoid main() { x = a[f(\"abc\")]; }\n", "a string literal inside a subscript"))]


def build(repo):
    u = Unit(NAME, TOOL, PROPS,
             ["src/generate/generate_asm.rs: GeneratorState::asm", "src/generate/generate_asm.rs: GeneratorState::sasm", "src/generate/generate_asm.rs: GeneratorState::sasm_protected",
              "src/generate/generate_asm.rs: GeneratorState::inline", "src/generate/generate_asm.rs: GeneratorState::label", "src/generate/generate_asm.rs: GeneratorState::comment",
              "src/generate/generate_asm.rs: GeneratorState::dummy", "src/generate/generate_asm.rs: GeneratorState::asm_restore_y",
              "src/assemble.rs: AssemblyCode::append_asm/append_inline/append_label/append_comment/append_dummy"],
             assumptions=[
                 "A-isa: 6502 addressing-mode / length table (units/isa.py), transcribed from the MOS datasheet",
                 "A-zp: a symbol declared Zeropage (and cctmp) is placed below $100 by the downstream linker, any other symbol is not; variable+offset stays on its page",
                 "A-shim: CompilerState::get_variable is a function of the name; syntax_error returns an Error; functions_code[current_function] exists (R5 drops the get_mut().unwrap())",
                 "caller obligations of asm() (spec fn caller_legal, names_ok, operand is not X/Y, variable size < 2^24): stated as preconditions, not proved at the call sites",
                 "A-fmt: `{}` renders str as itself and integers in decimal (R4)",
                 "A-vstd"],
             )
    f, types, cuts = common.asm_types(repo)
    comp = SourceFile(repo, "src/compile.rs")
    gm = SourceFile(repo, "src/generate/mod.rs")
    ga = SourceFile(repo, "src/generate/generate_asm.rs")
    tys = []
    for sf, kind, name, structural in ((comp, "enum", "VariableType", True), (comp, "enum", "VariableMemory", True), (comp, "enum", "VariableValue", False),
                                       (comp, "enum", "VariableDefinition", False), (comp, "struct", "Variable", False),
                                       (gm, "enum", "ExprType", False), (gm, "enum", "FlagsState", False)):
        c = sf.item(kind, name)
        common.r2(c, structural=structural)
        c.sub(r"pub\(crate\)\s+pub\b", "pub", "R2-pub")
        c.sub(r"pub\(crate\) enum", "pub enum", "R2-pub")
        c.sub(r"#\[derive\(([^)]*)\)\]", lambda m: "#[derive(%s)]" % ", ".join(x for x in [y.strip() for y in m.group(1).split(",")] if x not in ("PartialEq",) or structural), "R2-derive-noeq") if not structural else None
        if kind == "struct":
            common.r2_fields(c)
        cuts.append(c)
        tys.append(c.text)
    asm = ga.fn("asm", within="GeneratorState")
    cuts.append(asm)
    # R3: arithmetic on pattern-bound references
    asm.sub(r"=> v & 0xff,", "=> *v & 0xff,", "R3-deref", expect=(0, 1))
    asm.sub(r"=> \(v >> 8\) & 0xff,", "=> (*v >> 8) & 0xff,", "R3-deref", expect=(0, 1))
    asm.sub(r"(=> |\s)off \+ (0x[0-9a-fA-F]+)", r"\1*off + \2", "R3-deref", expect=(0, 6))
    # R5: dead local `s` and the get_mut tail
    asm.sub(r"^[ \t]*let mut s = mnemonic\.to_string\(\);\n[ \t]*if !dasm_operand\.is_empty\(\) \{\n[ \t]*s \+= \" \";\n[ \t]*s \+= &dasm_operand;\n[ \t]*\}\n", "", "R5-dead-local-s", expect=(0, 1))
    r5_current_function(asm)
    asm.sub(r"\bdasm_operand\.starts_with\('#'\)", "text_is_immediate(&dasm_operand)", "R15 starts_with('#') -> shim (the text is an immediate operand)", expect=(0, 1))
    asm.sub(r"\(\*l\)\.to_string\(\)", "string_of(&*l)", "R11-to_string", expect=(0, 1))
    asm.sub(r"\bvariable\.to_string\(\)", "string_of(variable)", "R11-to_string", expect=(0, 8))
    fm = common.Fmt({"variable": ("str", "variable"), "offset": ("int", None), "off": ("int", None), "vx": ("int", None), "self.inline_label_counter": ("int", None)})
    fm.apply(asm)
    asm.set_header(ASM_HEADER, expect_sig="fn asm( &mut self, mnemonic: AsmMnemonic, operand: &ExprType, pos: usize, high_byte: bool, ) -> Result<bool, Error>")
    lits = sorted(set(re.findall(r'"([^"\\]*)"@', fm.text() + SHIM + ASM_HEADER)) | {"cctmp", "#0", ""})
    reveal = "proof { " + " ".join('reveal_strlit("%s");' % l for l in lits) + " }"
    asm.after(r"decreases \(if operand is A \{ 1nat \} else \{ 0nat \}\),\s*\{", reveal + "\n        let ghost g0 = *self;")
    # C17 port obligations: right after each `let offset = …;` chain (Absolute, AbsoluteY, AbsoluteX arms in textual order)
    asm.after_stmt(r"let offset = if v\.memory == VariableMemory::Superchip", "proof { assert(offset as int == *off + port(&g0, *v, mnemonic)); } //@ C17:port-abs", nth=1)
    asm.after_stmt(r"let offset = if v\.memory == VariableMemory::Superchip", "proof { assert(offset as int == port(&g0, *v, mnemonic)); } //@ C17:port-absy", nth=2)
    asm.after_stmt(r"let offset = if v\.memory == VariableMemory::Superchip", "proof { assert(offset as int == port(&g0, *v, mnemonic)); } //@ C17:port-absx", nth=3)
    ports = asm.loops()  # no loops expected
    if ports:
        raise Undecided("asm(): unexpected loop")
    text_asm = asm.text
    parts = [asm.text]
    # the fallible lookup of generate_statements.rs (a failed lookup is a located error)
    parts.append("""    #[verifier::external_body]
    pub(crate) fn variable_or_error(&self, name: &str, pos: usize) -> (r: Result<&'a Variable, Error>)
        ensures r is Ok ==> *r->Ok_0 == self.compiler_state.var(name@), (r is Ok) == self.compiler_state.declared(name@),
    { unimplemented!() }
""")
    for name, hdr, sig in (
        ("sasm", SASM_HEADER, "fn sasm(&mut self, mnemonic: AsmMnemonic) -> Result<bool, Error>"),
        ("sasm_protected", SASM_PROTECTED_HEADER, "fn sasm_protected(&mut self, mnemonic: AsmMnemonic) -> Result<bool, Error>"),
    ):
        c = ga.fn(name, within="GeneratorState")
        c.set_header(hdr, expect_sig=sig)
        cuts.append(c)
        parts.append(c.text)
    # inline / label / comment / dummy / asm_restore_y
    for name, hdr, sig in (
        ("inline", INLINE_HEADER, "fn inline(&mut self, s: &str, size: Option<u32>) -> Result<(), Error>"),
        ("label", LABEL_HEADER, "fn label(&mut self, l: &str) -> Result<(), Error>"),
        ("asm_restore_y", """pub(crate) fn asm_restore_y(&mut self)
        ensures frame_same(old(self), final(self)),
            old(self).current_function is Some ==> emitted_one(old(self).out.code@, final(self).out.code@) && ({
                let i = new_inst(old(self).out.code@, final(self).out.code@);
                i.mnemonic == LDY && i.dasm_operand@ == "cctmp"@ && i.nb_bytes as nat == mode_len(assembler_mode(LDY, kind_of_text(i.dasm_operand@), true)) }), //@ C04:lit-restore-y
""", "fn asm_restore_y(&mut self)"),
    ):
        c = ga.fn(name, within="GeneratorState")
        r5_current_function(c)
        c.sub(r"\.into\(\)", ".to_string()", "R3-into (\"lit\".into() for String is to_string)", expect=(0, 2))
        c.set_header(hdr, expect_sig=sig)
        if name == "asm_restore_y":
            c.after(r"mode_len\(assembler_mode\(LDY[^{]*\{", 'proof { reveal_strlit("cctmp"); }')
        cuts.append(c)
        parts.append(c.text)
    apps = u_size.append_fns(f, cuts, names=["append_asm", "append_inline", "append_label", "append_comment", "append_dummy"])
    text = common.PRELUDE + common.header_comment(NAME, cuts) + "verus! {\n" + types + "\n".join(tys) + common.DEC_SPECS + isa.ISA_SPECS + \
        "impl AssemblyCode {\n" + "\n".join(apps) + "\n}\n" + SHIM + fm.text() + \
        "impl<'a> GeneratorState<'a> {\n" + "\n".join(parts) + "\n}\n" + common.CANARY + "\n} // verus!\n"
    u.text[None] = text
    u.cfgs = [None]
    u._env = {"types": types + "\n".join(tys), "specs": common.DEC_SPECS + isa.ISA_SPECS, "shim": SHIM, "fmt": fm.text(), "asm_header": ASM_HEADER, "cuts": cuts,
              "label_header": LABEL_HEADER, "append_impl": "impl AssemblyCode {\n" + "\n".join(apps) + "\n}\n", "lits": lits}
    u.rewrites = common.collect_rewrites(cuts)
    u.dropped = ["R5: `let code = self.functions_code.get_mut(f).unwrap()` dropped, `code.` -> `self.out.` (self.out stands for functions_code[current_function]); the dead local `s` (mnemonic text) dropped",
                 "R6: GeneratorState/CompilerState/Error are shims keeping only the fields the unit touches", "R4 format!", "R2 derive(Debug)/privacy"]
    return u
