"""U-widearms: three arms of generate_expr whose value is narrower than the 16-bit context they may stand in -- the comparison / logical arm, the `!` arm and
the comma arm -- cut as windows (R8) and verified in Verus against counting stubs: when the expression is revisited for the high byte of a 16-bit
destination, a comparison / `&&` / `||` / `!` contributes 0 and is NOT evaluated again, and the left operand of a comma is not evaluated again while
the right one is asked for its high byte (C01: `s = a < b` is 1, not 0x0101; `s = (a++, t)` increments a once)."""
import re
from vf.core import Unit
from vf.rustcut import SourceFile, Undecided, mask, match_brace
from . import common

NAME = "U-widearms"
TOOL = "verus"
PROPS = ["C01", "C15", "C18", "C16"]
RLIMIT = 100
TRUSTED = ["verus 0.2026.09.13 + z3", "generate_expr / generate_expr_cond / generate_not / purge_deferred_plusplus_and_savey are recording stubs"]

SPECS = """
pub struct Error { pub e: u8 }
%(types)s
pub struct Visit { pub e: Expr, pub high: bool, pub second_time: bool }
pub struct GeneratorState<'a> {
    pub x: &'a u8,
    pub acc_in_use: bool,
    pub tmp_in_use: bool,
    pub conds: Ghost<int>,             // comparisons / logical expressions evaluated (code emitted)
    pub nots: Ghost<int>,
    pub visits: Ghost<Seq<Visit>>,     // sub-expressions handed to generate_expr
    pub purges: Ghost<int>,
}
"""

STUBS = """
    #[verifier::external_body]
    fn generate_expr_cond(&mut self, expr: &Expr, pos: usize) -> (res: Result<ExprType, Error>)
        ensures res is Ok ==> final(self).conds@ == old(self).conds@ + 1, final(self).nots == old(self).nots, final(self).visits == old(self).visits, final(self).purges == old(self).purges,
    { unimplemented!() }
    #[verifier::external_body]
    pub(crate) fn generate_ternary(&mut self, condition: &Expr, alternatives: &Expr, pos: usize) -> (res: Result<ExprType, Error>)      // evaluates its condition: counted in `conds`
        ensures res is Ok ==> final(self).conds@ == old(self).conds@ + 1, final(self).nots == old(self).nots, final(self).visits == old(self).visits, final(self).purges == old(self).purges,
    { unimplemented!() }
    #[verifier::external_body]
    fn generate_not(&mut self, expr: &Expr, pos: usize) -> (res: Result<ExprType, Error>)
        ensures res is Ok ==> final(self).nots@ == old(self).nots@ + 1, final(self).conds == old(self).conds, final(self).visits == old(self).visits, final(self).purges == old(self).purges,
    { unimplemented!() }
    #[verifier::external_body]
    pub(crate) fn generate_expr(&mut self, expr: &Expr, pos: usize, high_byte: bool, second_time: bool) -> (res: Result<ExprType, Error>)
        ensures res is Ok ==> final(self).visits@ == old(self).visits@.push(Visit { e: *expr, high: high_byte, second_time }), final(self).conds == old(self).conds, final(self).nots == old(self).nots, final(self).purges == old(self).purges,
    { unimplemented!() }
    #[verifier::external_body]
    fn purge_deferred_plusplus_and_savey(&mut self) -> (res: Result<(), Error>)
        ensures res is Ok ==> final(self).purges@ == old(self).purges@ + 1, final(self).visits == old(self).visits, final(self).conds == old(self).conds, final(self).nots == old(self).nots,
    { unimplemented!() }
"""

FNS = """
    // R8: the comparison / logical arm of generate_expr, verbatim
    fn arm_comparison(&mut self, expr: &Expr, pos: usize, high_byte: bool) -> (res: Result<ExprType, Error>)
        ensures (res is Ok && !high_byte) ==> final(self).conds@ == old(self).conds@ + 1, //@ C01:comparison-evaluated-in-the-low-byte-pass
            (res is Ok && high_byte) ==> final(self).conds@ == old(self).conds@ && final(self).visits@ == old(self).visits@, //@ C01,C18:comparison-not-evaluated-again-for-the-high-byte
            (res is Ok && high_byte) ==> res->Ok_0 == ExprType::Immediate(0), //@ C01:high-byte-of-a-truth-value-is-zero
    {
        %(cmp)s
    }
    // R8: the `!` arm of generate_expr, verbatim
    fn arm_not(&mut self, v: &Box<Expr>, pos: usize, high_byte: bool) -> (res: Result<ExprType, Error>)
        ensures (res is Ok && !high_byte) ==> final(self).nots@ == old(self).nots@ + 1, //@ C01:not-evaluated-in-the-low-byte-pass
            (res is Ok && high_byte) ==> final(self).nots@ == old(self).nots@ && final(self).visits@ == old(self).visits@, //@ C01,C18:not-not-evaluated-again-for-the-high-byte
            (res is Ok && high_byte) ==> res->Ok_0 == ExprType::Immediate(0), //@ C01:high-byte-of-a-negation-is-zero
    {
        %(not)s
    }
    // R8: the `?:` arm of generate_expr, verbatim
    fn arm_ternary(&mut self, lhs: &Box<Expr>, rhs: &Box<Expr>, pos: usize, high_byte: bool) -> (res: Result<ExprType, Error>)
        ensures (res is Ok && !high_byte) ==> final(self).conds@ == old(self).conds@ + 1, //@ C01:conditional-evaluated-in-the-low-byte-pass
            (res is Ok && high_byte) ==> final(self).conds@ == old(self).conds@ && final(self).visits@ == old(self).visits@, //@ C01,C18:conditional-not-evaluated-again-for-the-high-byte
            (res is Ok && high_byte) ==> res->Ok_0 == ExprType::Immediate(0), //@ C01:high-byte-of-a-conditional-built-in-the-accumulator-is-zero
    {
        %(tern)s
    }
    // R8: the comma arm of generate_expr, verbatim
    fn arm_comma(&mut self, lhs: &Box<Expr>, rhs: &Box<Expr>, pos: usize, high_byte: bool, second_time: bool) -> (res: Result<ExprType, Error>)
        ensures
            // low-byte pass: the left operand, the flush of its deferred effects, then the right operand
            (res is Ok && !high_byte) ==> final(self).visits@.len() == old(self).visits@.len() + 2 && final(self).visits@[old(self).visits@.len() as int].e == **lhs
                && final(self).visits@.last() == (Visit { e: **rhs, high: false, second_time }) && final(self).purges@ == old(self).purges@ + 1, //@ C01:comma-left-then-right
            // high-byte pass: the right operand alone, asked for its high byte
            (res is Ok && high_byte) ==> final(self).visits@ == old(self).visits@.push(Visit { e: **rhs, high: true, second_time }), //@ C01,C18:comma-left-operand-not-evaluated-again-for-the-high-byte
    {
        %(comma)s
    }
"""


def candidates(f):
    out = []
    def prog(decl, body, sim, note=""):
        out.append({"source": "%s\nvoid main() { %s }\n" % (decl, body), "args": ["-O0"], "expect": {"panic": False}, "simulate": dict(sim, stack_empty=True), "note": note})
    for a, b in ((1, 2), (2, 1), (3, 3)):
        prog("short s; unsigned char a, b;", "s = 0x5555; s = a < b;", {"init": {"a": a, "b": b}, "expect16": {"s": int(a < b)}}, "s = a < b, a=%d b=%d" % (a, b))
        prog("short s; unsigned char a, b;", "s = 0x5555; s = a && b;", {"init": {"a": a - 1, "b": b - 1}, "expect16": {"s": int(bool(a - 1) and bool(b - 1))}}, "s = a && b")
        prog("short s; unsigned char a;", "s = 0x5555; s = !a;", {"init": {"a": a - 1}, "expect16": {"s": int(not (a - 1))}}, "s = !a, a=%d" % (a - 1))
    for c in (0, 1):
        prog("short s; unsigned char c;", "s = 0x5555; s = c ? 1 : 2;", {"init": {"c": c}, "expect16": {"s": 1 if c else 2}}, "s = c ? 1 : 2, c=%d" % c)
    prog("short s; unsigned char c, n; unsigned char f() { n++; return 7; }", "n = 0; s = c ? f() : 2;", {"init": {"c": 1}, "expect": {"n": 1}, "expect16": {"s": 7}}, "s = c ? f() : 2: f called once")
    prog("short s, t; unsigned char a;", "s = (a++, t);", {"init": {"a": 5, "t": 7, "t+1": 2}, "expect": {"a": 6}, "expect16": {"s": 0x207}}, "s = (a++, t): a incremented once")
    prog("short s, t; unsigned char n; unsigned char f() { n++; return 1; }", "n = 0; s = (f(), t);", {"init": {"t": 7, "t+1": 2}, "expect": {"n": 1}, "expect16": {"s": 0x207}}, "s = (f(), t): f called once")
    return out


def cut_arm(sf, span, start_re, desc):
    s0, ob0, cb0 = span
    m = mask(sf.text)
    ks = [x for x in re.compile(start_re).finditer(m, ob0, cb0)]
    if len(ks) != 1:
        raise Undecided("generate_expr: %d arms match /%s/ (expected 1)" % (len(ks), start_re))
    a = ks[0].end()
    if m[a] == "{":
        b = match_brace(m, a) + 1
    else:
        depth, b = 0, a
        while b < cb0:
            ch = m[b]
            if ch in "([{":
                depth += 1
            elif ch in ")]}":
                depth -= 1
            elif ch == "," and depth == 0:
                break
            b += 1
    return sf.cut_span(a, b, desc)


def build(repo):
    u = Unit(NAME, TOOL, PROPS, ["src/generate/generate_statements.rs: GeneratorState::generate_expr, arms Eq..Lor, Expr::Not, Operation::Comma (R8)"],
             assumptions=["the callees are recording stubs (their own text: U-condval for generate_expr_cond / generate_not)"])
    gs = SourceFile(repo, "src/generate/generate_statements.rs")
    gm = SourceFile(repo, "src/generate/mod.rs")
    comp = SourceFile(repo, "src/compile.rs")
    span = gs.find_fn_span("generate_expr")
    cmp_ = cut_arm(gs, span, r"\|\s*Operation::Land\s*\|\s*Operation::Lor\s*=>\s*", "generate_expr(): the Eq / Neq / Gt / Gte / Lt / Lte / Land / Lor arm (R8)")
    not_ = cut_arm(gs, span, r"Expr::Not\(v\)\s*=>\s*", "generate_expr(): the Expr::Not arm (R8)")
    comma = cut_arm(gs, span, r"Operation::Comma\s*=>\s*", "generate_expr(): the Operation::Comma arm (R8)")
    tern = cut_arm(gs, span, r"Operation::TernaryCond1\s*=>\s*", "generate_expr(): the Operation::TernaryCond1 arm (R8)")
    tern.sub(r"\A\s*Operation::TernaryCond1\s*=>\s*", "", "R8 the arm's pattern", expect=(0, 1), flags=0)
    cmp_.sub(r"\A\s*\|\s*Operation::Lor\s*=>\s*", "", "R8 the arm's pattern", expect=(0, 1), flags=0)
    not_.sub(r"\A\s*Expr::Not\(v\)\s*=>\s*", "", "R8 the arm's pattern (its binding is the window's parameter)", expect=(0, 1), flags=0)
    comma.sub(r"\A\s*Operation::Comma\s*=>\s*", "", "R8 the arm's pattern", expect=(0, 1), flags=0)
    cuts, tys = [cmp_, not_, comma, tern], []
    for sf, kind, name, structural in ((comp, "enum", "Operation", True), (comp, "enum", "VariableType", True), (gm, "enum", "ExprType", False), (comp, "enum", "Expr", False)):
        c = sf.item(kind, name)
        common.r2(c, structural=structural)
        c.sub(r"pub\(crate\) enum", "pub enum", "R2-pub")
        if not structural:
            c.sub(r"#\[derive\(([^)]*)\)\]", "", "R2-derive (no derived impls needed)", expect=(0, 1))
        cuts.append(c)
        tys.append(c.text)
    text = common.PRELUDE + common.header_comment(NAME, cuts) + "verus! {\n" + (SPECS % {"types": "\n".join(tys)}) + \
        "impl<'a> GeneratorState<'a> {\n" + STUBS + (FNS % {"cmp": cmp_.text, "not": not_.text, "comma": comma.text, "tern": tern.text}) + "\n}\n" + common.CANARY + "\n} // verus!\n"
    u.text[None] = text
    u.rewrites = common.collect_rewrites(cuts)
    u.dropped = ["R6 shim environment", "the other arms of generate_expr"]
    return u
