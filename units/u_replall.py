"""U-replall: Context::replace_all whole -- the loop that applies the macros until nothing changes -- verified in Verus against stubs of the regex crate:
the text returned is one on which a whole pass over every chunk of macros replaces nothing (it stops only at a fixed point of a pass: a macro call nested
in the argument of another call, a macro in any of the chunks of 100, is expanded before it returns) (C08).  What a regular expression matches is not
modelled: a replacement is an arbitrary partial function of (chunk, index, text)."""
import re
from vf.core import Unit
from vf.rustcut import SourceFile, Undecided
from . import common

NAME = "U-replall"
TOOL = "verus"
PROPS = ["C08"]
RLIMIT = 100
TRUSTED = ["verus 0.2026.09.13 + z3", "R33: RegexSet::matches / Regex::replace_all are stubs: which macros of a chunk match the line is a list of indices, a replacement is `Some(new text)` exactly when the text changes (Cow::Owned)",
           "termination is not proved (a self-referential macro loops: known defect)"]

SPECS = """
// which macros of chunk i match the line, and what macro (i, idx) makes of a text: None = unchanged (Cow::Borrowed)
pub uninterp spec fn matching(c: &Context, i: int, line: Seq<char>) -> Seq<usize>;
pub uninterp spec fn rep(c: &Context, i: int, idx: int, text: Seq<char>) -> Option<Seq<char>>;
pub struct Context { pub chunks: usize }
impl Context {
    #[verifier::external_body] pub fn nb_chunks(&self) -> (r: usize) ensures r == self.chunks { unimplemented!() }
    #[verifier::external_body] pub fn matches_of(&self, i: usize, s: &str) -> (r: Vec<usize>) requires i < self.chunks ensures r@ == matching(self, i as int, s@) { unimplemented!() }
    #[verifier::external_body] pub fn replace_with(&self, i: usize, idx: usize, res: &String) -> (r: Option<String>)
        requires i < self.chunks
        ensures (r is Some) == (rep(self, i as int, idx as int, res@) is Some), r is Some ==> r->Some_0@ == rep(self, i as int, idx as int, res@)->Some_0
    { unimplemented!() }
}
#[verifier::external_body] pub fn string_from(s: &str) -> (r: String) ensures r@ == s@ { String::from(s) }
// a whole pass over the macros leaves the text alone
pub open spec fn pass_fixed(c: &Context, line: Seq<char>, text: Seq<char>) -> bool {
    forall|i: int, k: int| 0 <= i < c.chunks && 0 <= k < matching(c, i, line).len() ==> rep(c, i, #[trigger] matching(c, i, line)[k] as int, text) is None
}
pub open spec fn done_upto(c: &Context, line: Seq<char>, text: Seq<char>, i: int, k: int) -> bool {
    (forall|i2: int, k2: int| 0 <= i2 < i && 0 <= k2 < matching(c, i2, line).len() ==> rep(c, i2, #[trigger] matching(c, i2, line)[k2] as int, text) is None)
    && (forall|k2: int| 0 <= k2 < k && k2 < matching(c, i, line).len() ==> rep(c, i, #[trigger] matching(c, i, line)[k2] as int, text) is None)
}
"""


def build(repo):
    u = Unit(NAME, TOOL, PROPS, ["src/cpp.rs: Context::replace_all"],
             assumptions=["R33 stubs of the regex crate; the chunked tables (regex_sets / regexes) are seen through nb_chunks / matches_of / replace_with",
                          "termination not proved"])
    f = SourceFile(repo, "src/cpp.rs")
    c = f.fn("replace_all", within="Context")
    c.sub(r"String::from\(s\)", "string_from(s)", "R15 String::from(&str)", expect=1)
    c.sub(r"for \((\w+), (\w+)\) in self\.regex_sets\.iter\(\)\.enumerate\(\) \{", r"for \1 in 0..self.nb_chunks() {", "R26/R33 enumerate over the chunks -> index loop (the set is reached through its index)", expect=1)
    c.sub(r"for (\w+) in (\w+)\.matches\(s\)\.into_iter\(\) \{", r"let __m = self.matches_of(i, s);\n                for __k in 0..__m.len() {\n                    let \1 = __m[__k];", "R26/R33 matches(s).into_iter() -> index loop over the list of matching macros", expect=1)
    c.sub(r"let (\w+) = self\.regexes\[i\]\[idx\]\s*\.0\s*\.replace_all\(&res, &self\.regexes\[i\]\[idx\]\.1\);", r"let \1 = self.replace_with(i, idx, &res);", "R33 Regex::replace_all -> stub", expect=1)
    c.sub(r"if let Cow::Owned\((\w+)\) = (\w+) \{\s*res = \1\.to_string\(\);", r"if let Some(\1) = \2 {\n                        res = \1;", "R33 Cow::Owned(z) -> Some(z)", expect=1)
    c.set_header("""#[verifier::exec_allows_no_decreases_clause]
    pub fn replace_all(&self, s: &str) -> (r: String)
        ensures pass_fixed(self, s@, r@), //@ C08:replace-all-stops-only-at-a-fixed-point-of-a-pass
""", expect_sig="pub fn replace_all(&self, s: &str) -> String")
    ls = c.loops()
    if len(ls) != 3:
        raise Undecided("replace_all: %d loops, the unit's invariants cover 3" % len(ls))
    c.loop_spec(1, r"^loop$", "            invariant true,\n            ensures pass_fixed(self, s@, res@),")
    c.loop_spec(2, r"^for i in 0\.\.self\.nb_chunks\(\)$", "                invariant !changed ==> (res@ == res0 && done_upto(self, s@, res0, i as int, 0)),")
    c.loop_spec(3, r"^for __k in 0\.\.__m\.len\(\)$", "                    invariant i < self.chunks, __m@ == matching(self, i as int, s@), !changed ==> (res@ == res0 && done_upto(self, s@, res0, i as int, __k as int)),")
    # ghost: the text at the start of the pass
    c.after_stmt(r"changed = false", "            let ghost res0 = res@;", nth=1)
    u.text[None] = common.PRELUDE + common.header_comment(NAME, [c]) + "verus! {\n" + SPECS + "impl Context {\n" + c.text + "\n}\n" + common.CANARY + "\n} // verus!\n"
    u.rewrites = common.collect_rewrites([c])
    u.dropped = ["nothing of replace_all but the calls into the regex crate (stubs)"]
    return u
