"""U-plusplus: generate_plusplus, whole function verbatim, against a recording shim; the emitted sequence is interpreted on a
symbolic 16-bit cell / registers (C01: value, registers, flags belief; C17: no INC/DEC on split-port memory under cfg atari2600)."""
import re
from vf.core import Unit
from vf.rustcut import SourceFile, Undecided

NAME = "U-plusplus"
TOOL = "kani"
PROPS = ["C01", "C17", "C15", "C06", "C16"]
TRUSTED = ["kani 0.68 / cbmc 6.11 (all 16-bit cell values, all register values: complete for the straight-line sequences emitted)",
           "A-isa: INC/DEC/INX/DEX/INY/DEY/LDA/PHA/PLA/BNE semantics incl. N/Z (in the harness interpreter)"]

SHIM = """// GENERATED on every run from /repo's current working tree by /verif/check -- do not edit.
#![allow(unused, non_camel_case_types, unreachable_code)]
macro_rules! format { ($($t:tt)*) => { String::from(".h") } }       // local label text only (A-local-label)
%(operation)s
%(mnemonic)s
use AsmMnemonic::*;
%(vartype)s
%(varmem)s
#[derive(Debug, Clone, PartialEq)]
pub enum ExprType { Nothing, Immediate(i32), Tmp(bool), Absolute(String, bool, i32), AbsoluteX(String), AbsoluteY(String), A(bool), X, Y, Label(String) }
#[derive(Debug, PartialEq, Clone)]
pub enum FlagsState { Unknown, A, X, Y, Absolute(String, bool, i32), AbsoluteX(String), AbsoluteY(String) }
#[derive(Debug)]
pub struct Error { pub e: u8 }
pub struct Variable { pub var_type: VariableType, pub memory: VariableMemory, pub var_const: bool, pub signed: bool, pub size: usize }
pub struct CompilerState { pub v: Variable }
pub static mut UNCHECKED_LOOKUP: bool = false;
impl CompilerState {
    pub fn get_variable(&self, _name: &str) -> &Variable { unsafe { UNCHECKED_LOOKUP = true; } &self.v }      // the lookup that unwraps: panics on a name that is not a variable
    pub fn syntax_error(&self, _m: &str, _loc: usize) -> Error { Error { e: 0 } }
}
#[derive(Copy, Clone, PartialEq)]
pub enum Rec { Ins(AsmMnemonic, u8), Label, None }          // operand kind: 0 none, 1 the variable's low byte, 2 its high byte, 3 branch to the local label
// R6 recording shim of GeneratorState
pub struct GeneratorState<'a> {
    pub compiler_state: &'a CompilerState, pub flags: FlagsState, pub carry_flag_ok: bool, pub acc_in_use: bool, pub tmp_in_use: bool, pub local_label_counter_if: u32,
    pub rec: [Rec; 10], pub n: usize, pub arith_path: bool,
    pub passes: [u8; 4], pub np: usize,      // the byte passes of the general path: 1 = low byte stored, 2 = high byte stored
    pub pos_bad: bool,                       // an instruction on a memory operand (which asm() may reject with a located error) was given another position than the statement's (77)
}
impl<'a> GeneratorState<'a> {
    fn push(&mut self, r: Rec) { if self.n < 10 { self.rec[self.n] = r; self.n += 1; } }
    pub fn sasm(&mut self, m: AsmMnemonic) -> Result<bool, Error> { self.push(Rec::Ins(m, 0)); Ok(false) }
    pub fn asm(&mut self, m: AsmMnemonic, op: &ExprType, _pos: usize, high_byte: bool) -> Result<bool, Error> {
        let k = match op { ExprType::Label(_) => 3, ExprType::Absolute(..) | ExprType::AbsoluteX(_) | ExprType::AbsoluteY(_) => if high_byte { 2 } else { 1 }, _ => 0 };
        if (k == 1 || k == 2) && _pos != 77 { self.pos_bad = true; }
        self.push(Rec::Ins(m, k)); Ok(false)
    }
    pub fn label(&mut self, _l: &str) -> Result<(), Error> { self.push(Rec::Label); Ok(()) }
    pub(crate) fn variable_or_error(&self, _name: &str, _pos: usize) -> Result<&'a Variable, Error> { Ok(&self.compiler_state.v) }      // the operand's variable is declared (the error path: U-frame scan + bounded no-panic list)
    // the general add/assign path (load, add 1, store) is not interpreted here: only recorded
    // (their effect on the flags belief is the one their own contracts state -- U-arithm: the result is in A and the flags describe it; U-assign: a stored low byte is
    //  what the flags describe, after the high byte nothing is claimed)
    pub fn generate_arithm(&mut self, _l: &ExprType, _op: &Operation, _r: &ExprType, _pos: usize, _hb: bool) -> Result<ExprType, Error> { self.arith_path = true; self.flags = FlagsState::A; Ok(ExprType::A(false)) }
    pub fn generate_assign(&mut self, l: &ExprType, _r: &ExprType, _pos: usize, hb: bool) -> Result<ExprType, Error> {
        self.arith_path = true;
        if self.np < 4 { self.passes[self.np] = if hb { 2 } else { 1 }; self.np += 1; }
        self.flags = if hb { FlagsState::Unknown } else { match l { ExprType::Absolute(a, b, c) => FlagsState::Absolute(a.clone(), *b, *c), ExprType::AbsoluteX(s) => FlagsState::AbsoluteX(s.clone()), _ => FlagsState::Unknown } };
        Ok(l.clone())
    }
%(fn)s
}
// ---- A-isa interpreter of the recorded sequence -------------------------------------------------------------------------
#[derive(Copy, Clone)]
pub struct M { pub lo: u8, pub hi: u8, pub a: u8, pub x: u8, pub y: u8, pub n: bool, pub z: bool, pub stk: u8, pub sp: u8, pub bad: bool }
fn nz(m: &mut M, v: u8) { m.n = v & 0x80 != 0; m.z = v == 0; }
fn run(g: &GeneratorState, mut m: M) -> M {
    let mut pc = 0; let mut skipping = false;
    while pc < 10 {
        match g.rec[pc] {
            Rec::Label => { skipping = false; }
            Rec::None => {}
            Rec::Ins(mn, k) => if !skipping {
                match (mn, k) {
                    (INX, 0) => { m.x = m.x.wrapping_add(1); let v = m.x; nz(&mut m, v); }
                    (DEX, 0) => { m.x = m.x.wrapping_sub(1); let v = m.x; nz(&mut m, v); }
                    (INY, 0) => { m.y = m.y.wrapping_add(1); let v = m.y; nz(&mut m, v); }
                    (DEY, 0) => { m.y = m.y.wrapping_sub(1); let v = m.y; nz(&mut m, v); }
                    (INC, 1) => { m.lo = m.lo.wrapping_add(1); let v = m.lo; nz(&mut m, v); }
                    (INC, 2) => { m.hi = m.hi.wrapping_add(1); let v = m.hi; nz(&mut m, v); }
                    (DEC, 1) => { m.lo = m.lo.wrapping_sub(1); let v = m.lo; nz(&mut m, v); }
                    (DEC, 2) => { m.hi = m.hi.wrapping_sub(1); let v = m.hi; nz(&mut m, v); }
                    (LDA, 1) => { m.a = m.lo; let v = m.a; nz(&mut m, v); }
                    (LDA, 2) => { m.a = m.hi; let v = m.a; nz(&mut m, v); }
                    (PHA, 0) => { if m.sp != 0 { m.bad = true; } m.stk = m.a; m.sp = 1; }
                    (PLA, 0) => { if m.sp != 1 { m.bad = true; } m.a = m.stk; m.sp = 0; let v = m.a; nz(&mut m, v); }
                    (BNE, 3) => { if !m.z { skipping = true; } }
                    (BEQ, 3) => { if m.z { skipping = true; } }
                    _ => { m.bad = true; }      // an instruction this template must not emit
                }
            }
        }
        pc += 1;
    }
    m
}
fn any_machine() -> M { M { lo: kani::any(), hi: kani::any(), a: kani::any(), x: kani::any(), y: kani::any(), n: kani::any(), z: kani::any(), stk: 0, sp: 0, bad: false } }
fn new_state<'a>(cs: &'a CompilerState, acc_live: bool) -> GeneratorState<'a> {
    GeneratorState { compiler_state: cs, flags: FlagsState::Unknown, carry_flag_ok: false, acc_in_use: acc_live, tmp_in_use: false, local_label_counter_if: 0, rec: [Rec::None; 10], n: 0, arith_path: false, pos_bad: false, passes: [0; 4], np: 0 }
}
#[cfg(kani)]
mod harness {
    use super::*;
%(harnesses)s
    #[kani::proof] fn canary_must_fail() { let a: u8 = kani::any(); assert!(a != 201); }
}
"""

H16 = """    #[kani::proof] #[kani::unwind(12)]
    fn %(name)s() {      // %(what)s
        let cs = CompilerState { v: Variable { var_type: VariableType::%(vt)s, memory: VariableMemory::Zeropage, var_const: false, signed: false, size: 1 } };
        let acc_live = %(acc)s;
        let mut g = new_state(&cs, acc_live);
        let operand = %(operand)s;
        let r = g.generate_plusplus(&operand, 0, %(pp)s);
        assert!(r.is_ok() && !g.arith_path);
        let m0 = any_machine();
        let m = run(&g, m0);
        assert!(!m.bad && m.sp == 0);
        let before = ((m0.hi as u16) << 8) | m0.lo as u16;
        let after = ((m.hi as u16) << 8) | m.lo as u16;
        assert!(after == before.%(arith)s(1));                       // the 16-bit value is incremented / decremented modulo 2^16
        assert!(m.x == m0.x && m.y == m0.y);                        // index registers untouched
        if acc_live { assert!(m.a == m0.a); }                       // a live accumulator survives
        // the generator's belief about N/Z: if it claims the flags describe the variable, Z must tell whether the whole value is zero
        if g.flags != FlagsState::Unknown { assert!(m.z == (after == 0)); }
    }
"""
HLOOK = """    #[kani::proof] #[kani::unwind(12)]
    fn %(name)s() {      // %(what)s
        let cs = CompilerState { v: Variable { var_type: VariableType::%(vt)s, memory: VariableMemory::Zeropage, var_const: false, signed: false, size: 1 } };
        let mut g = new_state(&cs, kani::any());
        let operand = %(operand)s;
        let _ = g.generate_plusplus(&operand, 77, kani::any());
        // the operand's name may be one the expression parser made up for a literal it did not register (`a[++"s"]`): it is looked up with
        // variable_or_error (an error), never with get_variable (unwrap)
        assert!(unsafe { !UNCHECKED_LOOKUP });
    }
"""
HPOS = """    #[kani::proof] #[kani::unwind(12)]
    fn %(name)s() {      // %(what)s
        let cs = CompilerState { v: Variable { var_type: VariableType::%(vt)s, memory: VariableMemory::Zeropage, var_const: false, signed: false, size: 1 } };
        let mut g = new_state(&cs, kani::any());
        let operand = %(operand)s;
        let _ = g.generate_plusplus(&operand, 77, kani::any());
        // asm() locates the errors it reports (a read-modify-write on split-port memory ...) with the position it is given: every instruction on the
        // variable carries the position of the statement
        assert!(!g.pos_bad);
    }
"""

H8 = """    #[kani::proof] #[kani::unwind(12)]
    fn %(name)s() {      // %(what)s
        let cs = CompilerState { v: Variable { var_type: VariableType::Char, memory: VariableMemory::Zeropage, var_const: false, signed: false, size: 1 } };
        let mut g = new_state(&cs, kani::any());
        let operand = %(operand)s;
        let r = g.generate_plusplus(&operand, 0, %(pp)s);
        assert!(r.is_ok() && !g.arith_path);
        let m0 = any_machine();
        let m = run(&g, m0);
        assert!(!m.bad && m.sp == 0);
        assert!(%(check)s);
        if g.flags != FlagsState::Unknown { assert!(m.z == (%(val)s == 0) && m.n == (%(val)s & 0x80 != 0)); }
    }
"""
H18 = """    #[kani::proof] #[kani::unwind(12)]
    fn %(name)s() {      // an element designated through Y (no INC/DEC abs,Y on the 6502: load / add / store): every byte of the element is updated, low byte first
        let k: u8 = kani::any();
        let vt = match k %% 3 { 0 => VariableType::CharPtr, 1 => VariableType::ShortPtr, _ => VariableType::CharPtrPtr };
        let cs = CompilerState { v: Variable { var_type: vt, memory: VariableMemory::Zeropage, var_const: false, signed: false, size: 1 } };
        let mut g = new_state(&cs, kani::any());
        let operand = ExprType::AbsoluteY("v".to_string());
        let r = g.generate_plusplus(&operand, 0, kani::any());
        assert!(r.is_ok() && g.arith_path);
        if vt == VariableType::CharPtr { assert!(g.np == 1 && g.passes[0] == 1); }
        else { assert!(g.np == 2 && g.passes[0] == 1 && g.passes[1] == 2); }
    }
"""
H18S = """    #[kani::proof] #[kani::unwind(12)]
    fn %(name)s() {      // split-port RAM, element designated through %(reg)s: load / add / store on every byte of the element, low byte first (no INC/DEC there)
        let k: u8 = kani::any();
        let vt = match k %% 3 { 0 => VariableType::CharPtr, 1 => VariableType::ShortPtr, _ => VariableType::CharPtrPtr };
        let mem = if kani::any() { VariableMemory::Superchip } else { VariableMemory::MemoryOnChip(1) };
        let cs = CompilerState { v: Variable { var_type: vt, memory: mem, var_const: false, signed: false, size: 1 } };
        let mut g = new_state(&cs, kani::any());
        let operand = %(operand)s;
        let r = g.generate_plusplus(&operand, 0, kani::any());
        assert!(r.is_ok() && g.arith_path);
        if vt == VariableType::CharPtr { assert!(g.np == 1 && g.passes[0] == 1); }
        else { assert!(g.np == 2 && g.passes[0] == 1 && g.passes[1] == 2); }
    }
"""
H17 = """    #[kani::proof] #[kani::unwind(12)]
    fn %(name)s() {      // split-port RAM: the increment must go through load / add / store, never INC/DEC on the variable
        let k: u8 = kani::any();
        let mem = if k %% 2 == 0 { VariableMemory::Superchip } else { VariableMemory::MemoryOnChip(1) };
        let vt = match (k / 2) %% 3 { 0 => VariableType::Char, 1 => VariableType::Short, _ => VariableType::CharPtr };
        let cs = CompilerState { v: Variable { var_type: vt, memory: mem, var_const: false, signed: false, size: 1 } };
        let mut g = new_state(&cs, kani::any());
        let operand = %(operand)s;
        let r = g.generate_plusplus(&operand, 0, kani::any());
        let mut i = 0;
        while i < 10 { if let Rec::Ins(m, kk) = g.rec[i] { assert!(!((m == INC || m == DEC) && (kk == 1 || kk == 2))); } i += 1; }
        assert!(g.arith_path);
    }
"""
H17F = """    #[kani::proof] #[kani::unwind(12)]
    fn %(name)s() {      // split-port RAM, 16-bit cell: the last instructions computed and stored the HIGH byte, so nothing may be claimed about N/Z for the 16-bit value
        let mem = if kani::any() { VariableMemory::Superchip } else { VariableMemory::MemoryOnChip(1) };
        let vt = if kani::any() { VariableType::Short } else { VariableType::CharPtr };
        let cs = CompilerState { v: Variable { var_type: vt, memory: mem, var_const: false, signed: false, size: 1 } };
        let mut g = new_state(&cs, kani::any());
        let operand = %(operand)s;
        let r = g.generate_plusplus(&operand, 0, kani::any());
        assert!(g.arith_path);
        if r.is_ok() { assert!(g.flags == FlagsState::Unknown); }
    }
"""


def build(repo):
    u = Unit(NAME, TOOL, PROPS, ["src/generate/generate_arithm.rs: GeneratorState::generate_plusplus"],
             assumptions=["A-isa instruction semantics in the harness interpreter", "A-local-label (format! shadowed)",
                          "R6: asm/sasm/label are recording shims; generate_arithm/generate_assign (the general load-add-store path) are only recorded, not interpreted",
                          "the flags belief is checked for Z on 16-bit cells (N of a 16-bit value is not defined by the belief) and for N and Z on 8-bit cells and registers",
                          "composition with the surrounding expression (deferred post-increments, register allocation) is not decided"],
             cfgs=[None, "atari2600"],
             bounded=["recorded sequence of at most 10 lines interpreted by a loop unwound 12 times (unwinding assertions on): complete"])
    f = SourceFile(repo, "src/generate/generate_arithm.rs")
    comp = SourceFile(repo, "src/compile.rs")
    asmf = SourceFile(repo, "src/assemble.rs")
    fn = f.fn("generate_plusplus", within="GeneratorState")
    abs16 = 'ExprType::Absolute("v".to_string(), false, 0)'
    abs8 = 'ExprType::Absolute("v".to_string(), true, 0)'
    absx = 'ExprType::AbsoluteX("v".to_string())'
    hs = []
    def add(name, text, props, nm, note, cfgs=(None, "atari2600")):
        hs.append((name, text, cfgs))
        u.harnesses[name] = (props, nm, note)
    for pp, word, ar in (("true", "inc", "wrapping_add"), ("false", "dec", "wrapping_sub")):
        for accn, accv, accw in (("", "false", "accumulator free"), ("_acc", "true", "accumulator holds a live value")):
            add("pp_short_%s%s" % (word, accn), H16 % {"name": "pp_short_%s%s" % (word, accn), "what": "short variable, %s, %s" % (word, accw), "vt": "Short", "operand": abs16, "pp": pp, "arith": ar, "acc": accv},
                ["C01", "C15"], "plusplus-short-%s%s" % (word, accn.replace("_", "-")), "16-bit %s of a short (%s): value +-1 mod 2^16, X/Y and a live A preserved, flags belief true" % (word, accw))
            add("pp_shortptr_abs_%s%s" % (word, accn), H16 % {"name": "pp_shortptr_abs_%s%s" % (word, accn), "what": "element of an array of shorts designated by a constant index, %s, %s" % (word, accw), "vt": "ShortPtr", "operand": abs16, "pp": pp, "arith": ar, "acc": accv},
                ["C01", "C15"], "plusplus-shortptr-abs-%s%s" % (word, accn.replace("_", "-")), "16-bit %s of sa[k] (array of shorts, constant index, %s): value, registers, flags belief" % (word, accw))
            add("pp_shortptr_x_%s%s" % (word, accn), H16 % {"name": "pp_shortptr_x_%s%s" % (word, accn), "what": "array of shorts indexed by X, %s, %s" % (word, accw), "vt": "ShortPtr", "operand": absx, "pp": pp, "arith": ar, "acc": accv},
                ["C01", "C15"], "plusplus-shortptr-x-%s%s" % (word, accn.replace("_", "-")), "16-bit %s of v[X] (array of shorts, %s): value, registers, flags belief" % (word, accw))
        sign = "wrapping_add" if pp == "true" else "wrapping_sub"
        add("pp_char_%s" % word, H8 % {"name": "pp_char_%s" % word, "what": "char variable, %s" % word, "operand": abs8, "pp": pp, "check": "m.lo == m0.lo.%s(1) && m.hi == m0.hi && m.a == m0.a && m.x == m0.x && m.y == m0.y" % sign, "val": "m.lo"},
            ["C01", "C15"], "plusplus-char-%s" % word, "8-bit %s of a char: value, registers, flags belief (N and Z)" % word)
        add("pp_x_%s" % word, H8 % {"name": "pp_x_%s" % word, "what": "register X, %s" % word, "operand": "ExprType::X", "pp": pp, "check": "m.x == m0.x.%s(1) && m.lo == m0.lo && m.a == m0.a && m.y == m0.y" % sign, "val": "m.x"},
            ["C01", "C15"], "plusplus-x-%s" % word, "%s of X: value, other registers, flags belief" % word)
        add("pp_y_%s" % word, H8 % {"name": "pp_y_%s" % word, "what": "register Y, %s" % word, "operand": "ExprType::Y", "pp": pp, "check": "m.y == m0.y.%s(1) && m.lo == m0.lo && m.a == m0.a && m.x == m0.x" % sign, "val": "m.y"},
            ["C01", "C15"], "plusplus-y-%s" % word, "%s of Y: value, other registers, flags belief" % word)
    for nm_, vt_, op_ in (("short", "Short", abs16), ("char", "Char", abs8), ("shortptr_x", "ShortPtr", absx), ("charptr_x", "CharPtr", absx)):
        add("pp_positions_%s" % nm_, HPOS % {"name": "pp_positions_%s" % nm_, "what": "%s: positions handed to asm()" % nm_, "vt": vt_, "operand": op_}, ["C06", "C01"], "plusplus-%s-instructions-carry-the-statement-position" % nm_.replace("_", "-"),
            "++/-- of a %s: every instruction emitted on the variable is given the statement's position (asm() reports its errors there)" % nm_, cfgs=(None,))
    for nm_, vt_, op_ in (("absolute", "Short", abs16), ("x_indexed", "ShortPtr", absx), ("y_indexed", "CharPtr", 'ExprType::AbsoluteY("v".to_string())')):
        add("pp_lookup_%s" % nm_, HLOOK % {"name": "pp_lookup_%s" % nm_, "what": "%s operand: how its variable is looked up" % nm_, "vt": vt_, "operand": op_}, ["C16"], "plusplus-%s-operand-looked-up-without-unwrap" % nm_.replace("_", "-"),
            "++/-- of an %s operand: the variable is looked up with variable_or_error" % nm_, cfgs=(None,))
    add("pp_element_y_width", H18 % {"name": "pp_element_y_width"}, ["C01", "C15"], "plusplus-y-indexed-element-width", "++/-- of v[Y]: one byte pass for an array of chars, low then high for an array of shorts / of pointers (as with an X index or a constant index)")
    add("pp_splitport_element_x_width", H18S % {"name": "pp_splitport_element_x_width", "reg": "X", "operand": absx}, ["C17", "C01", "C15"], "splitport-x-indexed-element-width",
        "cfg atari2600: ++/-- of v[X] in split-port RAM: one byte pass for an array of chars, low then high for an array of shorts / of pointers", cfgs=("atari2600",))
    add("pp_splitport_element_y_width", H18S % {"name": "pp_splitport_element_y_width", "reg": "Y", "operand": 'ExprType::AbsoluteY("v".to_string())'}, ["C17", "C01", "C15"], "splitport-y-indexed-element-width",
        "cfg atari2600: ++/-- of v[Y] in split-port RAM: one byte pass for an array of chars, low then high for an array of shorts / of pointers", cfgs=("atari2600",))
    add("pp_splitport_abs", H17 % {"name": "pp_splitport_abs", "operand": abs8.replace("true", "kani::any()")}, ["C17"], "noinc-abs", "cfg atari2600: ++/-- on a superchip / on-chip-RAM variable never emits INC/DEC on it", cfgs=("atari2600",))
    add("pp_splitport_abs16_flags", H17F % {"name": "pp_splitport_abs16_flags", "operand": abs16}, ["C17", "C01"], "splitport-16bit-flags-unknown", "cfg atari2600: after ++/-- of a 16-bit cell in split-port RAM (load/add/store path) the generator claims nothing about N/Z", cfgs=("atari2600",))
    add("pp_splitport_absx", H17 % {"name": "pp_splitport_absx", "operand": absx}, ["C17"], "noinc-absx", "cfg atari2600: ++/-- on v[X] in split-port RAM never emits INC/DEC on it", cfgs=("atari2600",))
    u.harnesses["canary_must_fail"] = (["C00"], "canary", "deliberately false")
    base = {"operation": comp.item("enum", "Operation").text, "mnemonic": asmf.item("enum", "AsmMnemonic").text,
            "vartype": comp.item("enum", "VariableType").text, "varmem": comp.item("enum", "VariableMemory").text, "fn": fn.text}
    for cfg in (None, "atari2600"):
        d = dict(base)
        d["harnesses"] = "\n".join(t for (n, t, cfgs) in hs if cfg in cfgs)
        u.text[cfg] = (SHIM % d).replace("pub(crate) enum", "pub enum")
    u.harness_cfgs = {n: cfgs for (n, t, cfgs) in hs}
    u.rewrites = ["R7: generate_plusplus verbatim as a method of a recording shim (both cfg variants: default features and atari2600)", "format! shadowed (A-local-label)"]
    u.dropped = ["callees generate_arithm / generate_assign (recorded only)"]
    return u


def lift(harness, vals):
    if harness == "pp_element_y_width":
        # the carry into the high byte of an element of an array of shorts (low bytes first, then high bytes) designated through Y
        return {"source": "short t[4]; unsigned char b;\nvoid main() { Y = b; t[Y]++; }\n", "args": ["-O0"], "expect": {"panic": False},
                "simulate": {"init": {"b": 2}, "init_addr": {"t+2": 255, "t+6": 16}, "expect": {"t+2": 0, "t+6": 17}, "stack_empty": True},
                "note": "t[2] = 0x10ff before `t[Y]++` with Y = 2: C gives 0x1100"}
    m = re.match(r"pp_(short|char)_(inc|dec)$", harness)
    if not m:
        return None
    ints = []
    for v in vals:
        v = v.strip()
        if re.match(r"^-?\d+$", v):
            ints.append(int(v))
        elif v in ("true", "false"):
            ints.append(1 if v == "true" else 0)
    # order of kani::any(): the machine: lo, hi, a, x, y, n, z (16-bit harnesses); for the 8-bit ones acc_in_use comes first
    if len(ints) < 3:
        return None
    if m.group(1) == "short":
        lo, hi = ints[0] & 0xff, ints[1] & 0xff
    else:
        lo, hi = ints[1] & 0xff, ints[2] & 0xff
    op = "++" if m.group(2) == "inc" else "--"
    if m.group(1) == "short":
        before = lo | (hi << 8)
        after = (before + (1 if op == "++" else -1)) & 0xffff
        src = "short i; char r;\nvoid main() { r = 0; i%s; if (i) r = 1; }\n" % op
        return {"source": src, "args": ["-O0"], "expect": {"panic": False}, "simulate": {"init16": {"i": before}, "expect16": {"i": after}, "expect": {"r": int(after != 0)}},
                "note": "i = 0x%04x before `i%s`; C: i = 0x%04x, r = %d" % (before, op, after, int(after != 0))}
    after = (lo + (1 if op == "++" else -1)) & 0xff
    src = "char i, r;\nvoid main() { r = 0; i%s; if (i) r = 1; }\n" % op
    return {"source": src, "args": ["-O0"], "expect": {"panic": False}, "simulate": {"init": {"i": lo}, "expect": {"i": after, "r": int(after != 0)}},
            "note": "i = %d before `i%s`" % (lo, op)}
