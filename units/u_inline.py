"""U-inline: push_code (inline expansion + end label) and the tail of generate_return (RTS vs. jump to the end label), against the
contracts of append_code (U-appcode) and asm (U-asm) (C14, C13)."""
import re
from vf.core import Unit
from vf.rustcut import SourceFile, Undecided
from . import common, u_asm, u_appcode

NAME = "U-inline"
TOOL = "verus"
PROPS = ["C14", "C13", "C16"]
RLIMIT = 150
TRUSTED = ["verus 0.2026.09.13 + z3", "contracts of asm()/sasm() (U-asm) and append_code()/append_label() (U-appcode, U-size) spliced as external_body stubs", "A-spec-hash-str", "A-clone", "A-fmt"]

SPECS = """
use vstd::std_specs::hash::*;
use std::collections::HashMap;
#[verifier::external_body]
pub proof fn axiom_string_key_model() ensures obeys_key_model::<String>() {}
#[verifier::external_body]
pub proof fn axiom_str_borrow_map<V>(m: Map<String, V>, k: &str)
    ensures contains_borrowed_key(m, k) <==> (exists|x: String| x@ == k@ && m.contains_key(x)),
            forall|v: V| maps_borrowed_key_to_value(m, k, v) <==> (exists|x: String| x@ == k@ && m.contains_key(x) && m[x] == v) {}
#[verifier::external_body]
pub proof fn axiom_string_ext(a: String, b: String) ensures a@ == b@ ==> a == b {}
// A-clone: derived Clone of AssemblyCode copies the line vector
pub open spec fn code_eq(a: Seq<AsmLine>, b: Seq<AsmLine>) -> bool { a.len() == b.len() && forall|k: int| 0 <= k < a.len() ==> line_eq(#[trigger] a[k], b[k]) }
#[verifier::external_body] pub fn string_is(s: &String, t: &str) -> (r: bool) ensures r == (s@ == t@) { s == t }      // R15: String == str
#[verifier::external_body]
pub fn clone_code(c: &AssemblyCode) -> (r: AssemblyCode) ensures code_eq(r.code@, c.code@) { c.clone() }
// the label a `return` inside an inline function jumps to, once the expansion has suffixed it, is the end label push_code() appends
pub proof fn lemma_endof(n: u32)
    ensures ".endof"@ + suffix(n) == ".endofinline"@ + dec(n as int) //@ C13,C14:endof-label-matches
{
    reveal_strlit(".endof"); reveal_strlit("inline"); reveal_strlit(".endofinline");
    assert(".endof"@ + ("inline"@ + dec(n as int)) =~= ".endofinline"@ + dec(n as int));
}
// every line of the callee reappears, renamed with the fresh counter, at the same offset after the caller's code
pub open spec fn is_renamed_clone(callee: Seq<AsmLine>, out: Seq<AsmLine>, base: int, n: u32) -> bool {
    forall|j: int| base <= j < base + callee.len() ==> renamed(callee[j - base], #[trigger] out[j], n)
}
// renaming only looks at the contents of a line: a structural copy is renamed to the same thing
pub proof fn lemma_renamed_congr(a: AsmLine, b: AsmLine, dst: AsmLine, n: u32)
    requires line_eq(a, b), renamed(a, dst, n)
    ensures renamed(b, dst, n)
{}
pub open spec fn callee_code(m: Map<String, AssemblyCode>, f: Seq<char>) -> Option<Seq<AsmLine>> {
    if exists|x: String| x@ == f && m.contains_key(x) { let x = choose|x: String| x@ == f && m.contains_key(x); Some(m[x].code@) } else { None }
}
"""


PURGE_STUB = """
    // purge_deferred_plusplus_and_savey: what it emits is generate_plusplus's (U-plusplus); here only WHEN it runs: the length of the code at that moment
    #[verifier::external_body] fn purge_deferred_plusplus_and_savey(&mut self) -> (res: Result<(), Error>)
        ensures res is Ok, final(self).purged_at@ == old(self).out.code@.len(), final(self).out == old(self).out, final(self).current_function == old(self).current_function,
            final(self).protected == old(self).protected, final(self).functions_code == old(self).functions_code, final(self).inline_label_counter == old(self).inline_label_counter,
    { unimplemented!() }
    // purge_before_return: the same flush, followed by an instruction that sets N/Z from A when the flush emitted anything (not modelled here: only WHEN it runs)
    #[verifier::external_body] fn purge_before_return(&mut self, returns_value: bool, pos: usize) -> (res: Result<(), Error>)
        ensures res is Ok, final(self).purged_at@ == old(self).out.code@.len(), final(self).out == old(self).out, final(self).current_function == old(self).current_function,
            final(self).protected == old(self).protected, final(self).functions_code == old(self).functions_code, final(self).inline_label_counter == old(self).inline_label_counter,
    { unimplemented!() }
"""


def build(repo):
    u = Unit(NAME, TOOL, PROPS, ["src/generate/generate_asm.rs: GeneratorState::push_code", "src/generate/generate_statements.rs: GeneratorState::generate_return (tail: RTS vs JMP .endof, R8)"],
             assumptions=["callee contracts: append_code (proved in U-appcode), append_label (U-size), asm/sasm (U-asm): same header text spliced here as external_body stubs",
                          "R5: self.out stands for functions_code[current_function]; A-spec-hash-str; A-clone; A-fmt",
                          "live registers at the call site, parameter passing, and the behavioural equivalence of an inlined body with a called one are whole-program semantics: not decided"])
    e = u_asm.env(repo)
    asmf = SourceFile(repo, "src/assemble.rs")
    ga = SourceFile(repo, "src/generate/generate_asm.rs")
    gs = SourceFile(repo, "src/generate/generate_statements.rs")
    cuts = []
    # append_code stub with U-appcode's contract
    ua = u_appcode.build(repo)
    m = re.search(r"(pub fn append_code\(&mut self, code: &AssemblyCode, inline_counter: u32\)\s*ensures.*?)\n\{ /\*@body\*/", ua.text[None], re.S)
    if not m:
        raise Undecided("cannot recover append_code's contract from U-appcode")
    append_code_stub = "    #[verifier::external_body]\n    " + m.group(1).strip() + "\n    { unimplemented!() }\n"
    pc = ga.fn("push_code", within="GeneratorState")
    cuts.append(pc)
    u_asm.r5_current_function(pc)
    pc.sub(r"\bfx == f\b", "string_is(_fx, f)", "R15 String == &str -> shim (R5 renamed the binding)", expect=(0, 1))
    pc.sub(r"code\.append_code\(", "self.out.append_code(", "R5-code->self.out", expect=(0, 1))
    pc.sub(r"Some\(c\) => c\.clone\(\),", "Some(c) => clone_code(c),", "R-clone (A-clone)", expect=1)
    fm = common.Fmt({"self.inline_label_counter": ("int", None)})
    fm.apply(pc, expect=(1, 1))
    pc.set_header("""pub(crate) fn push_code(&mut self, f: &str, pos: usize) -> (res: Result<(), Error>)
        requires old(self).inline_label_counter < u32::MAX,
        ensures
            final(self).inline_label_counter == old(self).inline_label_counter + 1, //@ C13,C14:push-fresh-counter
            final(self).current_function == old(self).current_function,
            (old(self).current_function is Some && callee_code(old(self).functions_code@, f@) is None) ==> res is Err && final(self).out.code@ == old(self).out.code@, //@ C14,C16:push-undefined-callee-is-error
            (res is Ok && old(self).current_function is Some) ==> callee_code(old(self).functions_code@, f@) is Some, //@ C14:push-callee-defined
            (res is Ok && old(self).current_function is Some) ==> final(self).out.code@.len() == old(self).out.code@.len() + callee_code(old(self).functions_code@, f@)->Some_0.len() + 1, //@ C14:push-length
            (res is Ok && old(self).current_function is Some) ==> final(self).out.code@.subrange(0, old(self).out.code@.len() as int) =~= old(self).out.code@, //@ C14:push-frame
            (res is Ok && old(self).current_function is Some) ==> is_renamed_clone(callee_code(old(self).functions_code@, f@)->Some_0, final(self).out.code@, old(self).out.code@.len() as int, final(self).inline_label_counter), //@ C14:push-renamed-clone
            (res is Ok && old(self).current_function is Some) ==> final(self).out.code@[(old(self).out.code@.len() + callee_code(old(self).functions_code@, f@)->Some_0.len()) as int] is Label && final(self).out.code@[(old(self).out.code@.len() + callee_code(old(self).functions_code@, f@)->Some_0.len()) as int]->Label_0@ == ".endofinline"@ + dec(final(self).inline_label_counter as int), //@ C14,C13:push-end-label
""", expect_sig="fn push_code(&mut self, f: &str, pos: usize) -> Result<(), Error>")
    pc.body_start("""        broadcast use vstd::std_specs::hash::group_hash_axioms;
        proof { axiom_string_key_model(); axiom_str_borrow_map(self.functions_code@, f); reveal_strlit(".endofinline");
            assert forall|x: String, y: String| #[trigger] x@ == #[trigger] y@ implies x == y by { axiom_string_ext(x, y); } }
        let ghost base = self.out.code@.len() as int;""")
    pc.after_stmt(r"self\.out\.append_code\(&code2, self\.inline_label_counter\)", """            proof {
                let callee = callee_code(old(self).functions_code@, f@)->Some_0;
                assert(code_eq(code2.code@, callee));
            }""")
    pc.sub(r"(self\.out\.append_label\([^;]*?\))(\s*\n\s*\})", r"\1;\2", "tail expression of type () terminated with `;` (hint placement)", expect=1)
    pc.at_block_end(r"if let Some\(_fx\) = &self\.current_function \{", """            proof {
                let callee = callee_code(old(self).functions_code@, f@)->Some_0;
                let n = self.inline_label_counter;
                assert forall|j: int| base <= j < base + callee.len() implies renamed(callee[j - base], #[trigger] self.out.code@[j], n) by {
                    let k = j - base;
                    assert(line_eq(code2.code@[k], callee[k]));
                    assert(renamed(code2.code@[k], self.out.code@[base + k], n));
                    lemma_renamed_congr(code2.code@[k], callee[k], self.out.code@[j], n);
                }
                assert(is_renamed_clone(callee, self.out.code@, base, n));
            }""")
    # generate_return tail
    s0, ob0, cb0 = gs.find_fn_span("generate_return")
    # the tail starts at the flush of the deferred side effects when it stands right before the if, at the if otherwise
    mm = gs.masked
    ifm = re.compile(r"^[ \t]*if f\.inline\b", re.M).search(mm, ob0, cb0)
    pm = [x for x in re.finditer(r"^[ \t]*self\.(?:purge_deferred_plusplus_and_savey\(\)|purge_before_return\([^;\n]*\))\?;[ \t]*\n", mm[ob0:cb0], re.M)]
    start_re = r"^\s*if f\.inline\b"
    if ifm and pm and not mm[ob0 + pm[-1].end():ifm.start()].strip() and ob0 + pm[-1].end() <= ifm.start():
        start_re = r"^[ \t]*self\.(?:purge_deferred_plusplus_and_savey\(\)|purge_before_return\([^;\n]*\))\?;(?=[ \t]*\n\s*if f\.inline\b)"
    tail = gs.block(start_re, r"^\s*self\.acc_in_use = false;", s0, cb0, desc="generate_return(): tail (flush of the deferred side effects,) `if f.inline { JMP .endof } else { RTS }` (R8)")
    cuts.append(tail)
    tail.sub(r"\"\.endof\"\.into\(\)", '".endof".to_string()', "R3-into", expect=(0, 1))
    tail.sub(r"\bf\.return_type\.is_some\(\)", "returns_value", "R8 free expression of the window -> parameter", expect=(0, 1))
    ret = """
    // R8: tail of generate_return(), verbatim; `f.inline` is the free variable
    pub fn return_tail(&mut self, f: &FunctionShim, returns_value: bool, pos: usize) -> (res: Result<(), Error>)
        requires old(self).current_function is Some, old(self).purged_at@ == -1,
        ensures res is Ok,
            // the post-increments of the returned expression (and a borrowed Y) are dealt with before control leaves, in both placements
            final(self).purged_at@ == old(self).out.code@.len(), //@ C01,C14:ret-flushes-deferred-before-leaving
            emitted_one(old(self).out.code@, final(self).out.code@), //@ C14:ret-one-instruction
            // an inline body returns by jumping to its end label, a called body by RTS
            f.inline ==> new_inst(old(self).out.code@, final(self).out.code@).mnemonic == AsmMnemonic::JMP && new_inst(old(self).out.code@, final(self).out.code@).dasm_operand@ == ".endof"@, //@ C14,C13:ret-inline-jumps-to-end
            !f.inline ==> new_inst(old(self).out.code@, final(self).out.code@).mnemonic == AsmMnemonic::RTS, //@ C14:ret-called-rts
    {
        proof { reveal_strlit(".endof"); reveal_strlit(""); }
%s
        Ok(())
    }
""" % tail.text
    fshim, fcut = common.plain_fields_shim(SourceFile(repo, "src/compile.rs"), "Function", "FunctionShim")
    shim = e["shim"].replace("    pub inline_label_counter: u32,\n", "    pub inline_label_counter: u32,\n    pub functions_code: HashMap<String, AssemblyCode>,\n    pub purged_at: Ghost<int>,\n")
    # the emission stubs do not touch the ghost field this unit adds
    stubs = e["stubs"].replace("final(self).carry_flag_ok == old(self).carry_flag_ok,", "final(self).carry_flag_ok == old(self).carry_flag_ok, final(self).purged_at == old(self).purged_at,")
    if stubs.count("final(self).purged_at == old(self).purged_at") < 2:
        raise Undecided("U-asm stubs changed shape")
    if "functions_code" not in shim:
        raise Undecided("U-asm shim changed shape")
    text = common.PRELUDE + common.header_comment(NAME, cuts) + "verus! {\n" + e["types"] + e["specs"] + \
        fshim + u_appcode.SPECS + \
        e["append_impl"].replace("impl AssemblyCode {\n", "impl AssemblyCode {\n" + append_code_stub, 1) + shim + SPECS + fm.text() + \
        "impl<'a> GeneratorState<'a> {\n" + stubs + PURGE_STUB + "\n" + pc.text + "\n" + ret + "\n}\n" + common.CANARY + "\n} // verus!\n"
    u.text[None] = text
    u.rewrites = common.collect_rewrites(cuts)
    u.dropped = ["R5/R6 shim environment of U-asm (+ functions_code map)", "generate_return outside its last if/else (value evaluation, error cases)"]
    return u
