"""U-tablelit: a string literal that stands as an entry of an array-of-pointers table (`const char *t[] = {"..", ..}`) -- the statements of
compile_var_decl that turn its decoded text into the contents and the size of the literal's variable, cut as a window (R8) and verified in Verus: the
variable holds one value per byte of the text, in order (the UTF-8 bytes written, not code points), and its size is that number of bytes (C09:
contents and size of the literal's variable, as at the three other places a literal may appear)."""
import re
from vf.core import Unit
from vf.rustcut import SourceFile, Undecided, mask, match_brace
from . import common

NAME = "U-tablelit"
TOOL = "verus"
PROPS = ["C09", "C16"]
RLIMIT = 50
TRUSTED = ["verus 0.2026.09.13 + z3", "R15 shim: str::as_bytes gives the UTF-8 bytes of the text (an uninterpreted function of the text: the unit proves that the variable holds THOSE bytes, whatever they are)"]

SPECS = """
pub uninterp spec fn utf8(s: Seq<char>) -> Seq<u8>;
#[verifier::external_body] pub fn str_as_bytes<'b>(s: &'b String) -> (r: &'b [u8]) ensures r@ == utf8(s@) { s.as_bytes() }
%(vv)s
"""


def candidates(f):
    def prog(decl, want, note):
        return {"source": "%s\nvoid main() { }\n" % decl, "args": ["-O0"], "expect": {"panic": False, "must_compile": True, "stdout_contains": want}, "note": note}
    return [prog('const char *t[] = {"café", "€5\\n"};', "ARRAY cctmp0 size=6 = 99 97 102 195 169 0 ", "first literal of a table: bytes and size"),
            prog('const char *t[] = {"café", "€5\\n"};', "ARRAY cctmp1 size=6 = 226 130 172 53 10 0 ", "second literal of a table: bytes and size"),
            prog('const char *t[] = {"a", "bc", "def"};', "ARRAY cctmp2 size=4 = 100 101 102 0 ", "third literal of a table"),
            prog('const char g[] = "café";', "ARRAY g size=6 = 99 97 102 195 169 0 ", "the same text as a plain initialiser")]


def build(repo):
    u = Unit(NAME, TOOL, PROPS, ["src/compile.rs: CompilerState::compile_var_decl, arm Rule::quoted_string of an array-of-pointers table: from `let vb = ..as_bytes()` to `let size = ..;` (R8)"],
             assumptions=["R15 shim of str::as_bytes", "the insertion of the variable (its rank) is U-det's subject, the decoding of the text U-qstr's"])
    comp = SourceFile(repo, "src/compile.rs")
    ps, pob, pcb = comp.find_fn_span("compile_var_decl")
    m = comp.masked
    arms = [a for a in re.compile(r"Rule::quoted_string\s*=>\s*\{").finditer(m, pob, pcb)]
    win = None
    for a in arms:
        ae = match_brace(m, a.end() - 1)
        if re.search(r"\bv\.push\(\(name, 0\)\)", m[a.end():ae]):
            st = re.search(r"^[ \t]*let \w+ = \w+\.as_bytes\(\);", m[a.end():ae], re.M)
            en = re.search(r"^[ \t]*let size = [^;]*;", m[a.end():ae], re.M)
            if st and en and st.start() < en.start():
                win = comp.cut_span(a.end() + st.start(), a.end() + en.end(), "compile_var_decl(): literal entry of an array-of-pointers table, `let vb = k.as_bytes()` .. `let size = ..;` (R8)")
    if win is None:
        raise Undecided("compile_var_decl: the literal arm of the array-of-pointers table (as_bytes .. let size) not found in this shape")
    vv = comp.item("enum", "VariableValue")
    common.r2(vv)
    vv.sub(r"#\[derive\(([^)]*)\)\]", "", "R2-derive (no derived impls needed)", expect=(0, 1))
    win.sub(r"\b(\w+)\.as_bytes\(\)", r"str_as_bytes(&\1)", "R15 as_bytes -> shim", expect=1)
    mm = re.search(r"for (\w+) in (\w+)\.iter\(\) \{", win.text)
    if not mm:
        raise Undecided("table literal window: the loop over the bytes is not `for c in vb.iter() {`")
    c_, vb_ = mm.group(1), mm.group(2)
    arr_m = re.search(r"let mut (\w+) = Vec::<VariableValue>::new\(\);", win.text)
    if not arr_m:
        raise Undecided("table literal window: `let mut arr = Vec::<VariableValue>::new();` not found")
    arr_ = arr_m.group(1)
    win.sub(r"for (\w+) in (\w+)\.iter\(\) \{", r"for __k in 0..\2.len() {\n let \1 = &\2[__k];", "R26 for-in-slice -> index loop", expect=1)
    win.loop_spec(1, r"^for __k in 0\.\.%s\.len\(\)$" % vb_, """        invariant %(a)s@.len() == __k, %(vb)s@ == utf8(k@),
            forall|j: int| 0 <= j < __k ==> %(a)s@[j] == VariableValue::Int(%(vb)s@[j] as i32), //@ C09:table-literal-holds-the-bytes-of-the-text-so-far""" % {"a": arr_, "vb": vb_})
    fn = """
// R8: what is done with the decoded text `k` of a literal entry; `v` is the list of the table's entries so far (a local of the enclosing code)
pub fn table_literal(k: &String, v: &Vec<(String, i32)>) -> (r: (Vec<VariableValue>, usize))
    ensures r.0@.len() == utf8(k@).len() && (forall|j: int| 0 <= j < r.0@.len() ==> r.0@[j] == VariableValue::Int(utf8(k@)[j] as i32)), //@ C09:table-literal-holds-the-bytes-of-the-text
        r.1 == utf8(k@).len(), //@ C09:table-literal-size-is-its-number-of-bytes
{
%s
    (%s, size)
}
""" % (win.text, arr_)
    u.text[None] = common.PRELUDE + common.header_comment(NAME, [win, vv]) + "verus! {\n" + (SPECS % {"vv": vv.text}) + fn + common.CANARY + "\n} // verus!\n"
    u.rewrites = common.collect_rewrites([win, vv])
    u.dropped = ["the rest of compile_var_decl"]
    return u
