"""U-call: the call-emission + call-tree recording block of generate_function_call (R8), verified in Verus against recording shims (C12)."""
import re
from vf.core import Unit
from vf.rustcut import SourceFile, Undecided
from . import common

NAME = "U-call"
TOOL = "verus"
PROPS = ["C12", "C14", "C16"]
RLIMIT = 150
TRUSTED = ["verus 0.2026.09.13 + z3", "A-vstd (HashMap contains_key/remove/insert, Vec push)", "A-spec-hash-str (String as hash key)", "A-fmt (R4)",
           "R16: `if let Some(v) = M.get_mut(K) { B } else { E }` == `if M.contains_key(K) { let mut v = M.remove(K).unwrap(); B; M.insert(K.clone(), v) } else { E }` for a body B that uses v through push / contains only (HashMap semantics; get_mut is unsupported by Verus)"]

SPECS = """
use vstd::std_specs::hash::*;
use std::collections::HashMap;
#[verifier::external_body]
pub proof fn axiom_string_key_model() ensures obeys_key_model::<String>() {}
#[verifier::external_body]
pub proof fn axiom_string_ext(a: String, b: String) ensures a@ == b@ ==> a == b {}
#[verifier::external_body]
pub fn string_of(s: &String) -> (r: String) ensures r@ == s@ { s.to_string() }
#[verifier::external_body]
pub fn vec_contains_string(v: &Vec<String>, x: &String) -> (r: bool) ensures r == (exists|i: int| 0 <= i < v@.len() && v@[i]@ == x@) { v.contains(x) }
#[verifier::external_body]
pub fn starts_with_supergame(s: &str) -> (r: bool) ensures r == is_supergame(s@) { s.starts_with("SuperGame") }      // R15 shim: a function of the text
pub uninterp spec fn is_supergame(s: Seq<char>) -> bool;

#[derive(Copy, Clone, PartialEq, Eq, Structural)]
pub enum AsmMnemonic { LDA, STA, JSR, JMP }
use AsmMnemonic::*;
pub enum ExprType { Nothing, Immediate(i32), Tmp(bool), Absolute(String, bool, i32), AbsoluteX(String), AbsoluteY(String), A(bool), X, Y, Label(String) }
#[derive(PartialEq, Clone)]
pub enum FlagsState { Unknown, A, X, Y }
pub struct Error { pub e: u8 }
// R6 shims: only the fields the block reads
%(function_shim)s
pub struct CompilerState { pub functions: HashMap<String, Function> }
impl CompilerState { #[verifier::external_body] pub fn syntax_error(&self, message: &str, loc: usize) -> Error { unimplemented!() } }
pub struct GeneratorState<'a> {
    pub compiler_state: &'a CompilerState,
    pub current_function: Option<String>,
    pub functions_call_tree: HashMap<String, Vec<String>>,
    pub current_bank: u32,
    pub bankswitching_scheme: &'a str,
    pub flags: FlagsState,
    // recording of what the callee shims were asked to emit
    pub jsr: Vec<String>,
    pub pushed: Vec<String>,
}
pub open spec fn rest_same(a: &GeneratorState, b: &GeneratorState) -> bool {
    a.current_function == b.current_function && a.functions_call_tree == b.functions_call_tree && a.current_bank == b.current_bank
    && a.bankswitching_scheme == b.bankswitching_scheme && a.compiler_state == b.compiler_state
}
// the caller's entry after recording: it lists the callee, everything it listed before is still there, no other entry changed
pub open spec fn lists(v: Seq<String>, name: Seq<char>) -> bool { exists|i: int| 0 <= i < v.len() && #[trigger] v[i]@ == name }
pub open spec fn recorded(t0: Map<String, Vec<String>>, t1: Map<String, Vec<String>>, caller: String, callee: Seq<char>) -> bool {
    &&& t1.contains_key(caller)
    &&& lists(t1[caller]@, callee)
    &&& (t0.contains_key(caller) ==> forall|j: int| 0 <= j < t0[caller]@.len() ==> lists(t1[caller]@, #[trigger] t0[caller]@[j]@))
    &&& forall|k: String| k != caller ==> (t1.contains_key(k) == t0.contains_key(k) && (t0.contains_key(k) ==> t1[k] == t0[k]))
}
pub proof fn lemma_push_lists(v0: Seq<String>, v1: Seq<String>, x: String)
    requires v1 == v0.push(x)
    ensures lists(v1, x@), forall|j: int| 0 <= j < v0.len() ==> lists(v1, #[trigger] v0[j]@)
{
    assert(v1[v0.len() as int]@ == x@);
    assert forall|j: int| 0 <= j < v0.len() implies lists(v1, #[trigger] v0[j]@) by { assert(v1[j]@ == v0[j]@); }
}
pub proof fn lemma_same_lists(v: Seq<String>)
    ensures forall|j: int| 0 <= j < v.len() ==> lists(v, #[trigger] v[j]@)
{ assert forall|j: int| 0 <= j < v.len() implies lists(v, #[trigger] v[j]@) by { assert(v[j]@ == v[j]@); } }
"""

STUBS = """
    // callee shims: they record the request (contracts assumed here; the real asm() is U-asm's subject)
    #[verifier::external_body]
    pub fn asm(&mut self, mnemonic: AsmMnemonic, operand: &ExprType, pos: usize, high_byte: bool) -> (res: Result<bool, Error>)
        ensures rest_same(old(self), final(self)), final(self).pushed == old(self).pushed, final(self).flags == old(self).flags,
            res is Err ==> final(self).jsr == old(self).jsr,
            res is Ok ==> (if mnemonic == JSR && operand is Label { final(self).jsr@.len() == old(self).jsr@.len() + 1 && final(self).jsr@.subrange(0, old(self).jsr@.len() as int) =~= old(self).jsr@
                                && final(self).jsr@[old(self).jsr@.len() as int]@ == operand->Label_0@ } else { mnemonic != JSR && final(self).jsr == old(self).jsr }),
    { unimplemented!() }
    #[verifier::external_body]
    pub fn push_code(&mut self, f: &str, pos: usize) -> (res: Result<(), Error>)
        ensures rest_same(old(self), final(self)), final(self).jsr == old(self).jsr, final(self).flags == old(self).flags,
            res is Err ==> final(self).pushed == old(self).pushed,
            res is Ok ==> final(self).pushed@.len() == old(self).pushed@.len() + 1 && final(self).pushed@.subrange(0, old(self).pushed@.len() as int) =~= old(self).pushed@
                                && final(self).pushed@[old(self).pushed@.len() as int]@ == f@,
    { unimplemented!() }
"""


def build(repo):
    u = Unit(NAME, TOOL, PROPS, ["src/generate/generate_statements.rs: GeneratorState::generate_function_call (block from the interrupt check through 'Note this function in the call tree', R8)"],
             assumptions=["R16 get_mut desugaring; A-spec-hash-str; A-fmt; A-vstd",
                          "asm()/push_code() are recording shims (their real contracts are U-asm's / not yet under contract for push_code)",
                          "that every call in the source reaches generate_function_call (it is the only consumer of Expr::FunctionCall) is a grep-level fact",
                          "parameter passing / register saving / return-value handling around the block are not under contract"])
    f = SourceFile(repo, "src/generate/generate_statements.rs")
    s0, ob0, cb0 = f.find_fn_span("generate_function_call")
    blk = f.block(r"^\s*if f\.interrupt\b", r"^\s*let mut return_tmp\b", s0, cb0, desc="generate_function_call(): interrupt check .. call-tree recording .. flags reset (R8)")
    # R8: single-line `let` statements (and comments) that stand directly before the block belong to it (locals the block uses)
    at = f.text.find(blk.text, s0)
    pre = []
    while at > 0:
        ps_ = f.text.rfind("\n", 0, at - 1) + 1
        ln = f.text[ps_:at].strip()
        if (re.match(r"^let (mut )?\w+(: [\w<>&]+)? = [^;{}]*;$", ln) or ln.startswith("//")) and ps_ > ob0:
            pre.insert(0, f.text[ps_:at]); at = ps_
        else:
            break
    if any(l.strip().startswith("let ") for l in pre):
        blk.text = "".join(pre) + blk.text
        blk.line0 -= len(pre)
        blk.log.append("R8 window extended upwards over %d `let` / comment line(s)" % len(pre))
    cuts = [blk]
    if "functions_call_tree" not in blk.text:
        raise Undecided("the block between the interrupt check and `let mut return_tmp` no longer contains the call-tree recording")
    common.r19_filter(blk)
    common.r14_map_or(blk)
    # R16
    m = re.search(r"if let Some\((\w+)\) = self\.functions_call_tree\.get_mut\((\w+)\) \{", blk.text)
    if not m:
        raise Undecided("recording block is not `if let Some(v) = self.functions_call_tree.get_mut(f) { … } else {…}`")
    from vf.rustcut import mask, match_brace
    mk = mask(blk.text)
    ob = m.end() - 1
    cb = match_brace(mk, ob, "{", "}")
    me = re.match(r"\s*else\s*\{", blk.text[cb + 1:])
    no_else = me is None
    if no_else:
        # `if let Some(v) = M.get_mut(K) { B }` without an else branch: R16 with an empty E
        blk.text = blk.text[:cb + 1] + " else { }" + blk.text[cb + 1:]
        mk = mask(blk.text)
        me = re.match(r"\s*else\s*\{", blk.text[cb + 1:])
    v, k = m.group(1), m.group(2)
    body = blk.text[ob + 1:cb]
    # Vec<String>::contains on the entry (any use of it other than push / contains is outside the shim)
    body = re.sub(r"\b%s\.contains\((\w+)\)" % re.escape(v), r"vec_contains_string(&%s, \1)" % v, body)
    if re.search(r"\b%s\.(?!push\()\w+\(" % re.escape(v), body):
        raise Undecided("recording block uses the call-tree entry through a method other than push / contains")
    blk.text = blk.text[:m.start()] + ("if self.functions_call_tree.contains_key(%(k)s) { let ghost __t0 = self.functions_call_tree@; let mut %(v)s = self.functions_call_tree.remove(%(k)s).unwrap(); let ghost __v0 = %(v)s@; "
                                       "%(body)s "
                                       "proof { if %(v)s@.len() == __v0.len() + 1 && %(v)s@.subrange(0, __v0.len() as int) =~= __v0 { assert(%(v)s@ =~= __v0.push(%(v)s@.last())); lemma_push_lists(__v0, %(v)s@, %(v)s@.last()); } "
                                       "else if %(v)s@ == __v0 { lemma_same_lists(__v0); } } "
                                       "self.functions_call_tree.insert(%(k)s.clone(), %(v)s); "
                                       "proof { assert(self.functions_call_tree@ =~= __t0.insert(*%(k)s, self.functions_call_tree@[*%(k)s])); } } else {") % {"v": v, "k": k, "body": body} + blk.text[cb + 1 + me.end():]
    blk.log.append("R16 get_mut/push -> contains_key/remove/push/insert")
    blk.sub(r"Some\((\w+)\) => \1\.contains\((\w+)\)", r"Some(\1) => vec_contains_string(\1, \2)", "R15 contains on an entry obtained by get() (slice::contains has no specification)", expect=(0, 4))
    blk.sub(r"\bvar\.to_string\(\)", "string_of(var)", "R11 to_string", expect=(0, 4))
    blk.sub(r"\"ROM_SELECT\"\.into\(\)", '"ROM_SELECT".to_string()', "R3-into", expect=(0, 4))
    blk.sub(r"self\.bankswitching_scheme\.starts_with\(\"SuperGame\"\)", "starts_with_supergame(self.bankswitching_scheme)", "R15 starts_with", expect=(0, 4))
    blk.sub(r"let mut v = Vec::new\(\);", "let mut v: Vec<String> = Vec::new();", "R3-type", expect=(0, 1))
    fm = common.Fmt({"*var": ("str", "var"), "var": ("str", "var")})
    fm.apply(blk)
    free = []
    for m_ in re.finditer(r"\bif !?([a-z_]\w*) \{", mask(blk.text)):
        nm = m_.group(1)
        if nm not in free and nm not in ("f", "var", "pos", "fixed_bank", "self") and not re.search(r"\blet (?:mut )?%s\b" % nm, blk.text) and not re.search(r"\bSome\(%s\)" % nm, blk.text):
            free.append(nm)
    if free:
        blk.log.append("R8 free boolean variables of the window (set before it in the enclosing function) -> parameters: %s" % ", ".join(free))
    fn = """
    // R8: generate_function_call(), from the interrupt check through the call-tree recording, verbatim; free variables are parameters
    pub fn call_block(&mut self, f: &Function, var: &String, pos: usize, fixed_bank: u32%(free)s) -> (res: Result<ExprType, Error>)
        ensures
            // every successful path emits exactly one call of the callee: an inline expansion, a JSR, or a JSR to its bank-switching stub
            res is Ok ==> (final(self).pushed@.len() + final(self).jsr@.len() == old(self).pushed@.len() + old(self).jsr@.len() + 1), //@ C12:call-emitted-once
            res is Ok ==> ((final(self).pushed@.len() == old(self).pushed@.len() + 1 && final(self).pushed@[old(self).pushed@.len() as int]@ == var@)
                || (final(self).jsr@.len() == old(self).jsr@.len() + 1 && (final(self).jsr@[old(self).jsr@.len() as int]@ == var@ || final(self).jsr@[old(self).jsr@.len() as int]@ == "Call"@ + var@))), //@ C12:call-targets-callee
            // ... and records it in the published call tree under the function being generated
            (res is Ok && old(self).current_function is Some) ==> recorded(old(self).functions_call_tree@, final(self).functions_call_tree@, old(self).current_function->Some_0, var@), //@ C12:call-recorded
            (res is Ok && old(self).current_function is None) ==> final(self).functions_call_tree@ == old(self).functions_call_tree@, //@ C12:call-no-caller
            final(self).current_function == old(self).current_function,
            // the callee (called or expanded in place) leaves N/Z in a state the generator knows nothing about
            res is Ok ==> final(self).flags == FlagsState::Unknown, //@ C01,C14:call-forgets-flags
    {
        broadcast use vstd::std_specs::hash::group_hash_axioms;
        proof { axiom_string_key_model(); reveal_strlit("Call"); }
%s
        proof {
            if self.current_function is Some && self.functions_call_tree@.contains_key(self.current_function->Some_0) {
                let e = self.functions_call_tree@[self.current_function->Some_0]@;
                if e.len() > 0 { assert(e[e.len() - 1]@ == e.last()@); }
            }
        }
        Ok(ExprType::Nothing)
    }
""".replace("%(free)s", "".join(", %s: bool" % x for x in free)).replace("%s", "%(body)s") % {"body": blk.text}
    fshim, fcut = common.plain_fields_shim(SourceFile(repo, "src/compile.rs"), "Function", "Function")
    fshim = fshim.replace(" }", ", pub code: Option<u8> }")      # `code` is only tested with is_some()
    specs = SPECS.replace("%(function_shim)s", fshim)
    text = common.PRELUDE + common.header_comment(NAME, cuts) + "verus! {\n" + common.DEC_SPECS + specs + fm.text() + \
        "impl<'a> GeneratorState<'a> {\n" + STUBS + fn + "\n}\n" + common.CANARY + "\n} // verus!\n"
    u.text[None] = text
    u.rewrites = common.collect_rewrites(cuts) + ["R8: block cut between anchors `if f.interrupt {` and `let mut return_tmp`; free variables f, var, pos, fixed_bank became parameters"]
    u.dropped = ["everything of generate_function_call outside the block (parameter evaluation, register saving, return value)", "R6 shims"]
    return u
