"""U-macro: Context::undefine -- the nested search loops (R8) and the indices used on the three parallel tables (C08: '#undef removes exactly the named macro')."""
import re
from vf.core import Unit
from vf.rustcut import SourceFile, Undecided, Cut, mask, match_brace
from . import common

NAME = "U-macro"
TOOL = "verus"
PROPS = ["C08", "C16", "C07"]
RLIMIT = 100
TRUSTED = ["verus 0.2026.09.13 + z3", "A-vstd (for-loops over &Vec / slice iterators with break, String ==)"]

SPECS = """
// position of the first table entry whose name is n, scanning chunk by chunk
pub open spec fn at(t: Seq<Vec<String>>, k: int, i: int, n: Seq<char>) -> bool { 0 <= k < t.len() && 0 <= i < t[k]@.len() && t[k]@[i]@ == n }
pub open spec fn none_before(t: Seq<Vec<String>>, k: int, i: int, n: Seq<char>) -> bool {
    (forall|a: int, b: int| 0 <= a < k && 0 <= b < t[a]@.len() ==> (#[trigger] t[a]@[b])@ != n)
    && (0 <= k < t.len() ==> forall|b: int| 0 <= b < i && b < t[k]@.len() ==> (#[trigger] t[k]@[b])@ != n)
}
pub open spec fn defined_in(t: Seq<Vec<String>>, n: Seq<char>) -> bool { exists|a: int, b: int| 0 <= a < t.len() && 0 <= b < t[a]@.len() && (#[trigger] t[a]@[b])@ == n }
"""


def candidates(f):
    """many macros: a function-like macro falling on the last slot of a 100-entry chunk (with or without the feature's predefined macro) is still expanded"""
    out = []
    for pad in (97, 98, 99, 197, 198):
        src = "".join("#define M%d %d\n" % (i, i) for i in range(pad)) + "#define inc1(a) a+1\n#define inc2(a) a+2\nvoid main() { X = inc1(5); Y = inc2(7); }\n"
        out.append({"source": src, "args": ["-O0"], "expect": {"panic": False, "stdout_contains": "LDY #9"}, "note": "%d object-like macros, then two function-like ones" % pad})
        out.append({"source": src, "args": ["-O0"], "expect": {"panic": False, "stdout_contains": "LDX #6"}, "note": "%d object-like macros, then two function-like ones" % pad})
    return out


DEF_SPECS = """
// ---- define / define_ex: the four chunked tables stay in step, and every chunk's RegexSet is built from that chunk's current patterns ------------------
pub mod define_part {
use super::*;
#[derive(Debug)]
pub struct Error { pub e: u8 }
// R6 shims of the regex crate's types: what they were built from (ghost)
pub struct Regex { pub pat: Ghost<Seq<char>> }
impl Regex { #[verifier::external_body] pub fn new(p: &str) -> (r: Result<Regex, Error>) ensures r is Ok && r->Ok_0.pat@ == p@ { unimplemented!() } }     // A-regex-compiles
pub struct RegexSet { pub pats: Ghost<Seq<String>> }
impl RegexSet {
    #[verifier::external_body] pub fn new(v: &Vec<String>) -> (r: Result<RegexSet, Error>) ensures r is Ok && r->Ok_0.pats@ == v@ { unimplemented!() }
    #[verifier::external_body] pub fn empty() -> (r: RegexSet) ensures r.pats@ == Seq::<String>::empty() { unimplemented!() }
}
#[verifier::external_body] pub fn string_clone(s: &String) -> (r: String) ensures r == *s { s.clone() }
#[verifier::external_body] pub fn vec_last_vs(v: &Vec<Vec<String>>) -> (r: Option<&Vec<String>>) ensures v@.len() == 0 ==> r is None, v@.len() > 0 ==> r is Some && *r->Some_0 == v@[v@.len() - 1] { v.last() }
pub struct Context {
    pub regex_sets: Vec<RegexSet>,
    pub defs_ex: Vec<Vec<String>>,
    pub defs_ex_ex: Vec<Vec<String>>,
    pub regexes: Vec<Vec<(Regex, String)>>,
    pub flat: Ghost<Seq<Seq<char>>>,        // the names entered in the flat map `defs`, which #ifdef / #ifndef / redefinition / #undef consult (get_macro)
}
pub open spec fn in_step(c: Context, k: int) -> bool {
    c.regex_sets@[k].pats@ == c.defs_ex_ex@[k]@ && c.defs_ex@[k]@.len() == c.defs_ex_ex@[k]@.len() && c.regexes@[k]@.len() == c.defs_ex@[k]@.len()
}
pub open spec fn wf(c: Context) -> bool {
    c.defs_ex@.len() >= 1 && c.defs_ex_ex@.len() == c.defs_ex@.len() && c.regexes@.len() == c.defs_ex@.len() && c.regex_sets@.len() == c.defs_ex@.len()
    && forall|k: int| 0 <= k < c.defs_ex@.len() ==> #[trigger] in_step(c, k)
}
// the macro (name, pattern, replacement) has been appended to the chunk that was last; the earlier chunks are untouched; a full chunk is followed by a fresh empty one
pub open spec fn appended(c0: Context, c1: Context, name: String, pattern: Seq<char>, value: String) -> bool {
    let k = c0.defs_ex@.len() - 1;
    c1.defs_ex@.len() >= c0.defs_ex@.len()
    && (forall|a: int| 0 <= a < k ==> #[trigger] c1.defs_ex@[a] == c0.defs_ex@[a] && c1.defs_ex_ex@[a] == c0.defs_ex_ex@[a] && c1.regexes@[a] == c0.regexes@[a])
    && c1.defs_ex@[k]@ =~= c0.defs_ex@[k]@.push(name)
    && c1.defs_ex_ex@[k]@.len() == c0.defs_ex_ex@[k]@.len() + 1 && c1.defs_ex_ex@[k]@.subrange(0, c0.defs_ex_ex@[k]@.len() as int) =~= c0.defs_ex_ex@[k]@ && c1.defs_ex_ex@[k]@[c0.defs_ex_ex@[k]@.len() as int]@ == pattern
    && c1.regexes@[k]@.len() == c0.regexes@[k]@.len() + 1 && c1.regexes@[k]@.subrange(0, c0.regexes@[k]@.len() as int) =~= c0.regexes@[k]@
    && c1.regexes@[k]@[c0.regexes@[k]@.len() as int].0.pat@ == pattern && c1.regexes@[k]@[c0.regexes@[k]@.len() as int].1 == value
    && (c1.defs_ex@.len() > c0.defs_ex@.len() ==> c1.defs_ex@.len() == c0.defs_ex@.len() + 1 && c1.defs_ex@[k + 1]@.len() == 0)
}
%(fmt)s
impl Context {
    // R6: the flat name -> body map `defs` (BTreeMap): only which names were entered is tracked
    #[verifier::external_body] pub fn defs_insert(&mut self, k: String, v: String)
        ensures final(self).regex_sets == old(self).regex_sets, final(self).defs_ex == old(self).defs_ex, final(self).defs_ex_ex == old(self).defs_ex_ex, final(self).regexes == old(self).regexes,
            final(self).flat@ == old(self).flat@.push(k@),
    { unimplemented!() }
%(fns)s
}
} // mod define_part
"""


def build_define(f, cuts):
    """define / define_ex with the `last_mut()` updates written as pop / push of the last chunk (R18), the builder-style `&mut Self` result dropped"""
    fm = common.Fmt({"&n": ("str", "&n")})
    fns = []
    for name, sig, hdr in (
        ("define", "pub fn define<N: Into<String>, V: Into<String>>(&mut self, name: N, value: V) -> &mut Self",
         """pub fn define(&mut self, name: String, value: String)
        requires wf(*old(self)),
        ensures wf(*final(self)), //@ C08:define-keeps-regex-sets-in-step
            appended(*old(self), *final(self), name, "\\\\b"@ + name@ + "\\\\b"@, value), //@ C08:define-appends-the-macro
            final(self).flat@ == old(self).flat@.push(name@), //@ C07,C08:define-records-the-name-for-ifdef
"""),
        ("define_ex", "pub fn define_ex<N: Into<String>>(&mut self, name: N, value: (String, String)) -> &mut Self",
         """pub fn define_ex(&mut self, name: String, value: (String, String))
        requires wf(*old(self)),
        ensures wf(*final(self)), //@ C08:define-ex-keeps-regex-sets-in-step
            appended(*old(self), *final(self), name, value.0@, value.1), //@ C08:define-ex-appends-the-macro
            final(self).flat@ == old(self).flat@.push(name@), //@ C07,C08:define-ex-records-the-name-for-ifdef
""")):
        c = f.fn(name, within="Context")
        cuts.append(c)
        c.sub(r"let n = name\.into\(\);", "let n = name;", "R3 Into<String> at a String argument is the identity", expect=1)
        c.sub(r"let v = value\.into\(\);", "let v = value;", "R3 Into<String> at a String argument is the identity", expect=(0, 1))
        c.sub(r"\n\s*self\s*\n(\s*\})\s*\Z", r"\n\1", "R28 builder-style result `self` (&mut Self) dropped: the function is used for its effect", expect=1, flags=0)
        c.sub(r"self\.defs\.insert\(", "self.defs_insert(", "R6 BTreeMap insert -> stub recording the name", expect=(0, 1))
        c.sub(r"\b(n|v|value\.0|value\.1)\.clone\(\)", r"string_clone(&\1)", "R11 String::clone -> shim", expect=(0, 6))
        c.sub(r"Regex::new\(&(\w+(?:\.\d)?)\)", r"Regex::new(\1.as_str())", "R3 explicit &String -> &str", expect=1)
        c.sub(r"self\.(defs_ex|defs_ex_ex|regexes)\.last_mut\(\)\.unwrap\(\)\.push\(([^;]*)\);", r"{ let mut __c = self.\1.pop().unwrap(); __c.push(\2); self.\1.push(__c); }",
              "R18 last_mut().unwrap().push(x) -> pop / push of the same chunk with x appended", expect=3)
        c.sub(r"\*self\.regex_sets\.last_mut\(\)\.unwrap\(\)\s*=\s*RegexSet::new\(self\.defs_ex_ex\.last\(\)\.unwrap\(\)\)\.unwrap\(\);",
              "{ let __s = RegexSet::new(vec_last_vs(&self.defs_ex_ex).unwrap()).unwrap(); let __o = self.regex_sets.pop(); self.regex_sets.push(__s); }",
              "R18 *last_mut().unwrap() = v -> pop / push", expect=1)
        c.sub(r"self\.defs_ex\.last\(\)\.unwrap\(\)\.len\(\)", "vec_last_vs(&self.defs_ex).unwrap().len()", "R18 Vec::last -> shim", expect=1)
        fm.apply(c)
        c.set_header(hdr, expect_sig=sig)
        c.body_start("        let ghost c0 = *self;")
        # proof hints around the roll-over test (wherever it stands): the state before it is in step chunk by chunk, and so is the state after it
        c.before(r"^\s*if vec_last_vs\(&self\.defs_ex\)\.unwrap\(\)\.len\(\) >= 100 \{", """        proof {
            let k = c0.defs_ex@.len() - 1;
            assert forall|a: int| 0 <= a < self.defs_ex@.len() && self.defs_ex@.len() == c0.defs_ex@.len() implies #[trigger] in_step(*self, a) by {
                assert(in_step(c0, a));
                if a < k { assert(self.defs_ex@[a] == c0.defs_ex@[a] && self.defs_ex_ex@[a] == c0.defs_ex_ex@[a] && self.regexes@[a] == c0.regexes@[a] && self.regex_sets@[a] == c0.regex_sets@[a]); }
            }
        }
        let ghost c1 = *self;""")
        c.after_block(r"^\s*if vec_last_vs\(&self\.defs_ex\)\.unwrap\(\)\.len\(\) >= 100 \{", """
        proof {
            let k = c0.defs_ex@.len() - 1;
            assert forall|a: int| 0 <= a < self.defs_ex@.len() && wf(c1) implies #[trigger] in_step(*self, a) by {
                if a <= k { assert(in_step(c1, a)); assert(self.defs_ex@[a] == c1.defs_ex@[a] && self.defs_ex_ex@[a] == c1.defs_ex_ex@[a] && self.regexes@[a] == c1.regexes@[a] && self.regex_sets@[a] == c1.regex_sets@[a]); }
            }
        }""")
        fns.append(c.text)
    return DEF_SPECS % {"fmt": fm.text(), "fns": "\n".join(fns)}


def build(repo):
    u = Unit(NAME, TOOL, PROPS, ["src/cpp.rs: Context::undefine (search loops, R8; index expressions of the removals)"],
             assumptions=["only the search and the indices are under contract: the removals themselves (`self.defs_ex[k].remove(i)` …: IndexMut on Vec<Vec<_>>), define/define_ex (last_mut), the BTreeMap `defs`, Regex/RegexSet and replace_all are outside the verifier's subset / are regex-crate semantics",
                          "the caller guarantees the macro is defined (process() guards the call with get_macro(expr).is_some()); that `defs` and the chunked tables hold the same names is an invariant of define/undefine that is NOT proved",
                          "whole-identifier matching (\\\\b), argument substitution, nested expansion, the 100-entry chunking of regex sets and the -D option loop are NOT decided"])
    f = SourceFile(repo, "src/cpp.rs")
    un = f.fn("undefine", within="Context")
    cuts = [un]
    body = un.body_only()
    mk = mask(body)
    m = re.search(r"let mut i = 0;\s*let mut k = 0;\s*for defs_ex in &self\.defs_ex \{", mk)
    if not m:
        raise Undecided("undefine(): search loops not found")
    cb = match_brace(mk, m.end() - 1)
    loops = Cut(body[m.start():cb + 1], un.rel, un.line0, "undefine(): nested search loops (R8)")
    cuts.append(loops)
    tail = body[cb + 1:]
    loops.sub(r"let mut i = 0;", "let mut i: usize = 0;", "R3-type", expect=1)
    loops.sub(r"let mut k = 0;", "let mut k: usize = 0;", "R3-type", expect=1)
    loops.sub(r"\bj\.eq\(&n\)", "(*j == n)", "R15 a.eq(&b) -> *a == b", expect=(0, 1))
    loops.sub(r"for defs_ex in &self\.defs_ex \{", "for defs_ex in it1: &self.defs_ex {", "for-loop ghost iterator name")
    loops.sub(r"for j in defs_ex\.iter\(\) \{", "for j in it2: defs_ex.iter() {", "for-loop ghost iterator name")
    loops.loop_spec(1, r"^for defs_ex in it1: &self\.defs_ex$", """
            invariant_except_break k == it1.index@,
            invariant k <= self.defs_ex@.len(), self.defs_ex@.len() < usize::MAX, forall|a: int| 0 <= a < self.defs_ex@.len() ==> (#[trigger] self.defs_ex@[a])@.len() < usize::MAX, none_before(self.defs_ex@, k as int, 0, n@), //@ C08:undef-search-outer
            ensures (k < self.defs_ex@.len() && at(self.defs_ex@, k as int, i as int, n@) && none_before(self.defs_ex@, k as int, i as int, n@)) || (k == self.defs_ex@.len() && !defined_in(self.defs_ex@, n@)), //@ C08:undef-search-result
""")
    loops.loop_spec(2, r"^for j in it2: defs_ex\.iter\(\)$", """
                invariant_except_break i == it2.index@, !found,
                invariant i <= defs_ex@.len(), defs_ex@.len() < usize::MAX, defs_ex@ == self.defs_ex@[k as int]@, k < self.defs_ex@.len(), none_before(self.defs_ex@, k as int, i as int, n@), //@ C08:undef-search-inner
                ensures found ==> at(self.defs_ex@, k as int, i as int, n@) && none_before(self.defs_ex@, k as int, i as int, n@), //@ C08:undef-found-is-first
                    !found ==> i == defs_ex@.len() && none_before(self.defs_ex@, k as int, i as int, n@),
""")
    idx = re.findall(r"self\.(defs_ex|defs_ex_ex|regexes)\[([^\]]+)\]\.remove\(([^)]+)\)", tail)
    idx2 = re.findall(r"self\.regex_sets\[([^\]]+)\]\s*=\s*RegexSet::new\(&self\.defs_ex_ex\[([^\]]+)\]\)", tail)
    if not idx2:
        # R18: `X.last_mut().unwrap()` / `X.last().unwrap()` index the last chunk: X[X.len() - 1]
        m2 = re.search(r"\*self\.regex_sets\.last_mut\(\)\.unwrap\(\)\s*=\s*RegexSet::new\(\s*&?self\.defs_ex_ex\.last\(\)\.unwrap\(\)\s*\)", tail)
        if m2:
            idx2 = [("self.defs_ex.len() - 1", "self.defs_ex.len() - 1")]
    if len(idx) != 3 or len(idx2) != 1:
        raise Undecided("undefine(): expected three `self.<table>[k].remove(i)` statements and one regex_set rebuild, found %d / %d" % (len(idx), len(idx2)))
    checks = []
    for t, kk, ii in idx:
        checks.append("        assert(%s == k && %s == i); //@ C08:undef-%s-same-position" % (kk, ii, t))
    checks.append("        assert(%s == k && %s == k); //@ C08:undef-regex-set-rebuilt-for-that-chunk" % idx2[0])
    fn = """
pub struct Context { pub defs_ex: Vec<Vec<String>> }       // R6 shim: the table the search reads
impl Context {
    // R8: the search loops of undefine(), verbatim; returns the position the removals use
    pub fn undefine_search(&self, n: String) -> (r: (usize, usize))
        requires self.defs_ex@.len() < usize::MAX, forall|a: int| 0 <= a < self.defs_ex@.len() ==> (#[trigger] self.defs_ex@[a])@.len() < usize::MAX,   // resource bound (tables fit in memory)
        ensures
            // the position found is the first entry named n (chunk k, offset i) ...
            defined_in(self.defs_ex@, n@) ==> at(self.defs_ex@, r.0 as int, r.1 as int, n@) && none_before(self.defs_ex@, r.0 as int, r.1 as int, n@), //@ C08:undef-finds-the-named-macro
            // ... and nothing is found for an undefined name (the removals would then index out of range: caller obligation)
            !defined_in(self.defs_ex@, n@) ==> r.0 == self.defs_ex@.len(), //@ C08,C16:undef-absent-name
    {
%s
        (k, i)
    }
    // the index expressions used on the parallel tables, verbatim from the statements after the loops
    pub fn undefine_indices(&self, k: usize, i: usize)
        requires k < self.defs_ex@.len(),
    {
%s
    }
}
""" % (loops.text, "\n".join(checks))
    defpart = build_define(f, cuts)
    text = common.PRELUDE + common.header_comment(NAME, cuts) + "verus! {\n" + common.DEC_SPECS + SPECS + fn + defpart + common.CANARY + "\n} // verus!\n"
    u.text[None] = text
    u.rewrites = common.collect_rewrites(cuts)
    u.dropped = ["the removals and the regex-set rebuild themselves (only their index expressions are checked)", "define / define_ex / replace_all / get_macro"]
    return u
