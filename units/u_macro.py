"""U-macro: Context::undefine -- the nested search loops (R8) and the indices used on the three parallel tables (C08: '#undef removes exactly the named macro')."""
import re
from vf.core import Unit
from vf.rustcut import SourceFile, Undecided, Cut, mask, match_brace
from . import common

NAME = "U-macro"
TOOL = "verus"
PROPS = ["C08", "C16"]
RLIMIT = 100
TRUSTED = ["verus 0.2026.09.13 + z3", "A-vstd (for-loops over &Vec / slice iterators with break, String ==)"]

SPECS = """
// position of the first table entry whose name is n, scanning chunk by chunk
pub open spec fn at(t: Seq<Vec<String>>, k: int, i: int, n: Seq<char>) -> bool { 0 <= k < t.len() && 0 <= i < t[k]@.len() && t[k]@[i]@ == n }
pub open spec fn none_before(t: Seq<Vec<String>>, k: int, i: int, n: Seq<char>) -> bool {
    (forall|a: int, b: int| 0 <= a < k && 0 <= b < t[a]@.len() ==> (#[trigger] t[a]@[b])@ != n)
    && (0 <= k < t.len() ==> forall|b: int| 0 <= b < i && b < t[k]@.len() ==> (#[trigger] t[k]@[b])@ != n)
}
pub open spec fn defined_in(t: Seq<Vec<String>>, n: Seq<char>) -> bool { exists|a: int, b: int| 0 <= a < t.len() && 0 <= b < t[a]@.len() && (#[trigger] t[a]@[b])@ == n }
"""


def build(repo):
    u = Unit(NAME, TOOL, PROPS, ["src/cpp.rs: Context::undefine (search loops, R8; index expressions of the removals)"],
             assumptions=["only the search and the indices are under contract: the removals themselves (`self.defs_ex[k].remove(i)` …: IndexMut on Vec<Vec<_>>), define/define_ex (last_mut), the BTreeMap `defs`, Regex/RegexSet and replace_all are outside the verifier's subset / are regex-crate semantics",
                          "the caller guarantees the macro is defined (process() guards the call with get_macro(expr).is_some()); that `defs` and the chunked tables hold the same names is an invariant of define/undefine that is NOT proved",
                          "whole-identifier matching (\\\\b), argument substitution, nested expansion, the 100-entry chunking of regex sets and the -D option loop are NOT decided"])
    f = SourceFile(repo, "src/cpp.rs")
    un = f.fn("undefine", within="Context")
    cuts = [un]
    body = un.body_only()
    mk = mask(body)
    m = re.search(r"let mut i = 0;\s*let mut k = 0;\s*for defs_ex in &self\.defs_ex \{", mk)
    if not m:
        raise Undecided("undefine(): search loops not found")
    cb = match_brace(mk, m.end() - 1)
    loops = Cut(body[m.start():cb + 1], un.rel, un.line0, "undefine(): nested search loops (R8)")
    cuts.append(loops)
    tail = body[cb + 1:]
    loops.sub(r"let mut i = 0;", "let mut i: usize = 0;", "R3-type", expect=1)
    loops.sub(r"let mut k = 0;", "let mut k: usize = 0;", "R3-type", expect=1)
    loops.sub(r"\bj\.eq\(&n\)", "(*j == n)", "R15 a.eq(&b) -> *a == b", expect=(0, 1))
    loops.sub(r"for defs_ex in &self\.defs_ex \{", "for defs_ex in it1: &self.defs_ex {", "for-loop ghost iterator name")
    loops.sub(r"for j in defs_ex\.iter\(\) \{", "for j in it2: defs_ex.iter() {", "for-loop ghost iterator name")
    loops.loop_spec(1, r"^for defs_ex in it1: &self\.defs_ex$", """
            invariant_except_break k == it1.index@,
            invariant k <= self.defs_ex@.len(), self.defs_ex@.len() < usize::MAX, forall|a: int| 0 <= a < self.defs_ex@.len() ==> (#[trigger] self.defs_ex@[a])@.len() < usize::MAX, none_before(self.defs_ex@, k as int, 0, n@), //@ C08:undef-search-outer
            ensures (k < self.defs_ex@.len() && at(self.defs_ex@, k as int, i as int, n@) && none_before(self.defs_ex@, k as int, i as int, n@)) || (k == self.defs_ex@.len() && !defined_in(self.defs_ex@, n@)), //@ C08:undef-search-result
""")
    loops.loop_spec(2, r"^for j in it2: defs_ex\.iter\(\)$", """
                invariant_except_break i == it2.index@, !found,
                invariant i <= defs_ex@.len(), defs_ex@.len() < usize::MAX, defs_ex@ == self.defs_ex@[k as int]@, k < self.defs_ex@.len(), none_before(self.defs_ex@, k as int, i as int, n@), //@ C08:undef-search-inner
                ensures found ==> at(self.defs_ex@, k as int, i as int, n@) && none_before(self.defs_ex@, k as int, i as int, n@), //@ C08:undef-found-is-first
                    !found ==> i == defs_ex@.len() && none_before(self.defs_ex@, k as int, i as int, n@),
""")
    idx = re.findall(r"self\.(defs_ex|defs_ex_ex|regexes)\[([^\]]+)\]\.remove\(([^)]+)\)", tail)
    idx2 = re.findall(r"self\.regex_sets\[([^\]]+)\]\s*=\s*RegexSet::new\(&self\.defs_ex_ex\[([^\]]+)\]\)", tail)
    if not idx2:
        # R18: `X.last_mut().unwrap()` / `X.last().unwrap()` index the last chunk: X[X.len() - 1]
        m2 = re.search(r"\*self\.regex_sets\.last_mut\(\)\.unwrap\(\)\s*=\s*RegexSet::new\(\s*&?self\.defs_ex_ex\.last\(\)\.unwrap\(\)\s*\)", tail)
        if m2:
            idx2 = [("self.defs_ex.len() - 1", "self.defs_ex.len() - 1")]
    if len(idx) != 3 or len(idx2) != 1:
        raise Undecided("undefine(): expected three `self.<table>[k].remove(i)` statements and one regex_set rebuild, found %d / %d" % (len(idx), len(idx2)))
    checks = []
    for t, kk, ii in idx:
        checks.append("        assert(%s == k && %s == i); //@ C08:undef-%s-same-position" % (kk, ii, t))
    checks.append("        assert(%s == k && %s == k); //@ C08:undef-regex-set-rebuilt-for-that-chunk" % idx2[0])
    fn = """
pub struct Context { pub defs_ex: Vec<Vec<String>> }       // R6 shim: the table the search reads
impl Context {
    // R8: the search loops of undefine(), verbatim; returns the position the removals use
    pub fn undefine_search(&self, n: String) -> (r: (usize, usize))
        requires self.defs_ex@.len() < usize::MAX, forall|a: int| 0 <= a < self.defs_ex@.len() ==> (#[trigger] self.defs_ex@[a])@.len() < usize::MAX,   // resource bound (tables fit in memory)
        ensures
            // the position found is the first entry named n (chunk k, offset i) ...
            defined_in(self.defs_ex@, n@) ==> at(self.defs_ex@, r.0 as int, r.1 as int, n@) && none_before(self.defs_ex@, r.0 as int, r.1 as int, n@), //@ C08:undef-finds-the-named-macro
            // ... and nothing is found for an undefined name (the removals would then index out of range: caller obligation)
            !defined_in(self.defs_ex@, n@) ==> r.0 == self.defs_ex@.len(), //@ C08,C16:undef-absent-name
    {
%s
        (k, i)
    }
    // the index expressions used on the parallel tables, verbatim from the statements after the loops
    pub fn undefine_indices(&self, k: usize, i: usize)
        requires k < self.defs_ex@.len(),
    {
%s
    }
}
""" % (loops.text, "\n".join(checks))
    text = common.PRELUDE + common.header_comment(NAME, cuts) + "verus! {\n" + SPECS + fn + common.CANARY + "\n} // verus!\n"
    u.text[None] = text
    u.rewrites = common.collect_rewrites(cuts)
    u.dropped = ["the removals and the regex-set rebuild themselves (only their index expressions are checked)", "define / define_ex / replace_all / get_macro"]
    return u
