"""U-decl: compile_decl. (1) The header lines of an included assembler block (`; file: `, `; codesize: `, `; bank: `) as compile_decl reads them -- the three tests of
the `Rule::included_assembler` arm cut as a window (R8) and verified in Verus against shims of str::starts_with / str::split_at that carry the
panic condition of split_at as a precondition: the text is split only at an offset that the prefix just tested guarantees to be inside the line and
on a character boundary (C16: a header line cut short, or with a multi-byte character after the colon, is ignored, never a panic).
(2) Every alternative of the grammar rule `decl` has an arm in the match of compile_decl, so its `unreachable!()` fallback is not reached from a parsed program
(scan of the grammar file and of the function text, emitted as literal asserts)."""
import re
from vf.core import Unit
from vf.rustcut import SourceFile, Undecided, mask, match_brace
from . import common

NAME = "U-decl"
TOOL = "verus"
PROPS = ["C16"]
RLIMIT = 50
TRUSTED = ["verus 0.2026.09.13 + z3", "R15 shims: str::starts_with(ASCII literal of n bytes) makes every offset 0..=n a character boundary inside the text; str::split_at(mid) panics exactly when mid is not such an offset (Rust std documentation)"]

SPECS = """
// offset n is inside s and on a character boundary (what str::split_at needs)
pub uninterp spec fn boundary(s: &str, n: int) -> bool;
#[verifier::external_body] pub fn str_starts_with_ascii(s: &str, lit: &str, n: usize) -> (r: bool)
    ensures r ==> (forall|k: int| 0 <= k <= n ==> #[trigger] boundary(s, k))
{ s.starts_with(lit) }
#[verifier::external_body] pub fn str_split_at<'b>(s: &'b str, mid: usize) -> (r: (&'b str, &'b str))
    requires boundary(s, mid as int)
{ s.split_at(mid) }
#[verifier::external_body] pub fn str_to_string(s: &str) -> (r: String) { s.to_string() }
#[verifier::external_body] pub fn str_trim<'b>(s: &'b str) -> (r: &'b str) { s.trim() }
#[verifier::external_body] pub fn parse_usize_ok(s: &str) -> (r: Option<usize>) { s.parse::<usize>().ok() }
#[verifier::external_body] pub fn parse_u32_ok(s: &str) -> (r: Option<u32>) { s.parse::<u32>().ok() }
"""


def candidates(f):
    def prog(hdr, note):
        return {"source": "=== ASSEMBLER BEGIN ===\n%s\n\tNOP\n==== ASSEMBLER END ====\nvoid main() { }\n" % hdr, "args": ["-O0"], "expect": {"panic": False}, "note": note}
    return [prog("; codesize:", "codesize header without a value"), prog("; codesize: ", "codesize header with a blank only"), prog("; codesize:é", "multi-byte character after the colon"),
            {"source": "void a() {}\nvoid (*tab[1])() = {a}\nvoid main() { }\n", "args": ["-O0"], "expect": {"panic": False}, "note": "table of function pointers: accepted by the grammar"},
            prog("; file:", "file header without a value"), prog("; bank:", "bank header without a value"), prog("; codesize: 12", "ordinary header")]


def build(repo):
    u = Unit(NAME, TOOL, PROPS, ["src/compile.rs: CompilerState::compile_decl, arm Rule::included_assembler: the tests on a header line (R8)", "src/compile.rs: CompilerState::compile_decl (arms of its match, scan)", "src/cc6502.pest: rule decl (scan)"],
             assumptions=["R15 shims of str::starts_with / split_at / trim / parse (see trusted)", "the rest of the arm (splitting the block into lines, the push) is not under contract"])
    comp = SourceFile(repo, "src/compile.rs")
    ps, pob, pcb = comp.find_fn_span("compile_decl")
    m = mask(comp.text)
    arm = re.compile(r"Rule::included_assembler\s*=>\s*\{").search(m, pob, pcb)
    if not arm:
        raise Undecided("compile_decl: arm Rule::included_assembler not found")
    ae = match_brace(m, arm.end() - 1)
    win = comp.block(r"^\s*if line\.starts_with\(", r"^\s*\} else \{", arm.end(), ae, desc="compile_decl(): Rule::included_assembler arm, the tests on one header line (R8)")
    n_sw = [0]

    def sw(mm):
        lit = mm.group(2)
        if not re.match(r'^[\x20-\x7e]*$', lit) or "\\" in lit:
            raise Undecided("starts_with literal is not plain ASCII: %r" % lit)
        n_sw[0] += 1
        return "str_starts_with_ascii(%s, \"%s\", %d)" % (mm.group(1), lit, len(lit))
    win.text, k = re.subn(r"\b(\w+)\.starts_with\(\"([^\"]*)\"\)", sw, win.text)
    win.log.append("R15 starts_with(ASCII literal) -> shim carrying the literal's length (x%d)" % k)
    if k == 0:
        raise Undecided("no starts_with test in the header window")

    n_sp = [0]

    def tail(mm):
        n_sp[0] += 1
        e = "({ assert(boundary(%s, %s as int)); //@ C16:header-split-%d-inside-the-line-on-a-character-boundary\n str_split_at(%s, %s) }).1" % (mm.group(1), mm.group(2), n_sp[0], mm.group(1), mm.group(2))
        if mm.group(3):
            e = "str_trim(%s)" % e
        if mm.group(4) == ".into()":
            return "str_to_string(%s)" % e
        return "parse_%s_ok(%s)" % (mm.group(5), e)
    win.text, k2 = re.subn(r"\b(\w+)\.split_at\((\d+)\)\.1((?:\.trim\(\))?)(\.into\(\)|\.parse::<(\w+)>\(\)\.ok\(\))", tail, win.text)
    win.log.append("R15 split_at(n).1[.trim()].into() / .parse::<T>().ok() -> shims (x%d)" % k2)
    if "split_at(" in win.text.replace("str_split_at(", ""):
        raise Undecided("a split_at of another shape in the header window")
    fn = """
// R8: compile_decl(), Rule::included_assembler: what is done with one (trimmed) header line, verbatim; the three results are the arm's locals
fn header_line(line: &str, filename0: Option<String>, codesize0: Option<usize>, bank0: Option<u32>) -> (r: (Option<String>, Option<usize>, Option<u32>))
{
    let mut filename = filename0; let mut codesize = codesize0; let mut bank = bank0;
%s
    (filename, codesize, bank)
}
""" % win.text
    # (2) alternatives of the grammar rule `decl` against the arms of compile_decl's match
    pest = SourceFile(repo, "src/cc6502.pest")
    dm = re.search(r"^decl\s*=\s*\{([^}]*)\}", pest.text, re.M)
    if not dm:
        raise Undecided("grammar rule `decl` not found")
    alts = [a.strip() for a in dm.group(1).split("|")]
    if not all(re.match(r"^\w+$", a) for a in alts):
        raise Undecided("grammar rule `decl` is not a plain list of alternatives: %r" % alts)
    body_m = m[pob:pcb]
    arms = set(re.findall(r"Rule::(\w+)(?=[^=]*=>)", body_m))
    scan = "\n// alternatives of the grammar rule `decl`: %s; arms of compile_decl: %s\nproof fn scan_decl_arms() {\n" % (alts, sorted(arms))
    for a in alts:
        scan += "    assert(%s); //@ C16:decl-alternative-%s-has-an-arm\n" % ("true" if a in arms else "false", a.replace("_", "-"))
    scan += "}\n"
    fn = fn + scan
    u.text[None] = common.PRELUDE + common.header_comment(NAME, [win]) + "verus! {\n" + SPECS + fn + common.CANARY + "\n} // verus!\n"
    u.rewrites = common.collect_rewrites([win])
    u.dropped = ["the rest of compile_decl"]
    return u
