"""U-appcode: AssemblyCode::append_code (inline expansion with label suffixing), verbatim (C13, C14, C04)."""
from vf.core import Unit
from vf.rustcut import SourceFile
from . import common

NAME = "U-appcode"
TOOL = "verus"
PROPS = ["C14", "C13", "C04", "C18", "C16", "C03", "C02", "C01", "C15"]
RLIMIT = 100
TRUSTED = ["verus 0.2026.09.13 + z3", "A-vstd (Vec push, for-loop over &Vec)", "A-fmt (R4)", "A-clone: #[derive(Clone)] on AsmLine is structural"]

SPECS = """
// A-clone: the derived Clone of AsmLine copies every field (Verus gives no specification for a derived Clone of a non-Copy type)
pub open spec fn inst_eq(a: AsmInstruction, b: AsmInstruction) -> bool {
    a.mnemonic == b.mnemonic && a.dasm_operand@ == b.dasm_operand@ && a.cycles == b.cycles && a.cycles_alt == b.cycles_alt && a.nb_bytes == b.nb_bytes && a.protected == b.protected
}
pub open spec fn line_eq(a: AsmLine, b: AsmLine) -> bool {
    match (a, b) {
        (AsmLine::Label(x), AsmLine::Label(y)) => x@ == y@,
        (AsmLine::Instruction(x), AsmLine::Instruction(y)) => inst_eq(x, y),
        (AsmLine::Inline(x, n), AsmLine::Inline(y, m)) => x@ == y@ && n == m,
        (AsmLine::Comment(x), AsmLine::Comment(y)) => x@ == y@,
        (AsmLine::Dummy, AsmLine::Dummy) => true,
        _ => false,
    }
}
#[verifier::external_body]
pub fn clone_line(l: &AsmLine) -> (r: AsmLine) ensures line_eq(r, *l) { l.clone() }

// ---- spec of the renaming ------------------------------------------------------------------------------------------
pub open spec fn suffix(n: u32) -> Seq<char> { "inline"@ + dec(n as int) }
pub open spec fn local_ref(m: AsmMnemonic) -> bool {
    m == AsmMnemonic::BCC || m == AsmMnemonic::BCS || m == AsmMnemonic::BEQ || m == AsmMnemonic::BMI || m == AsmMnemonic::BNE || m == AsmMnemonic::BPL || m == AsmMnemonic::JMP
}
// dst is src with every label definition and every branch/JMP operand suffixed; everything else is an exact copy
pub open spec fn renamed(src: AsmLine, dst: AsmLine, n: u32) -> bool {
    match src {
        AsmLine::Label(l) => dst is Label && dst->Label_0@ == l@ + suffix(n),
        AsmLine::Instruction(i) => if local_ref(i.mnemonic) {
                dst is Instruction && dst->Instruction_0.mnemonic == i.mnemonic && dst->Instruction_0.dasm_operand@ == i.dasm_operand@ + suffix(n)
                && dst->Instruction_0.cycles == i.cycles && dst->Instruction_0.cycles_alt == i.cycles_alt && dst->Instruction_0.nb_bytes == i.nb_bytes
                // a branch the generator protected (the BEQ that guards the second branch of a `>` / `<=` sequence) is still protected in the copy: the optimizer folds unprotected ones
                && dst->Instruction_0.protected == i.protected
            } else { line_eq(dst, src) },
        _ => line_eq(dst, src),
    }
}
pub open spec fn lab_of(l: AsmLine) -> Seq<char> { l->Label_0@ }
pub open spec fn ref_of(l: AsmLine) -> Seq<char> { l->Instruction_0.dasm_operand@ }
pub open spec fn is_local_ref(l: AsmLine) -> bool { l is Instruction && local_ref(l->Instruction_0.mnemonic) }
// suffixing is injective: two names are equal after renaming iff they were equal before
pub proof fn lemma_suffix_injective(a: Seq<char>, b: Seq<char>, s: Seq<char>)
    ensures (a + s == b + s) <==> (a == b)
{
    if a + s == b + s {
        assert(a.len() == b.len()) by { assert((a + s).len() == a.len() + s.len()); assert((b + s).len() == b.len() + s.len()); }
        assert forall|i: int| 0 <= i < a.len() implies a[i] == b[i] by { assert((a + s)[i] == a[i]); assert((b + s)[i] == b[i]); }
        assert(a =~= b);
    }
}
// hence a branch of the expansion resolves to a label of the expansion exactly when it did inside the callee
pub proof fn lemma_resolution_preserved(br: AsmLine, lab: AsmLine, br2: AsmLine, lab2: AsmLine, n: u32)
    requires is_local_ref(br), lab is Label, renamed(br, br2, n), renamed(lab, lab2, n)
    ensures (ref_of(br2) == lab_of(lab2)) <==> (ref_of(br) == lab_of(lab)) //@ C13,C14:rename-resolution-preserved
{
    lemma_suffix_injective(ref_of(br), lab_of(lab), suffix(n));
}
"""


def build(repo):
    u = Unit(NAME, TOOL, PROPS, ["src/assemble.rs: AssemblyCode::append_code"],
             assumptions=["A-clone (derived Clone of AsmLine is structural)", "A-fmt", "A-vstd",
                          "labels of two expansions with different counters are not proved disjoint (would need the shape of generator labels)",
                          "JSR operands and inline-assembly text are not renamed (by design of append_code)",
                          "live registers at the call site, parameter passing and behavioural equivalence of inline vs. call are whole-program semantics (not decided)"])
    f, types, cuts = common.asm_types(repo)
    ac = f.fn("append_code", within="AssemblyCode")
    cuts.append(ac)
    common.r24_inline_closures(ac)
    nsw = common.r15_starts_with_lit(ac)
    common.r15_contains_lit(ac)
    ac.sub(r"\bl\.clone\(\)", "string_clone(l)", "R11 String::clone -> shim", expect=(0, 4))
    fm = common.Fmt({"l": ("str", "l"), "inst.dasm_operand": ("str", "&inst.dasm_operand"), "inline_counter": ("int", None)})
    fm.apply(ac, expect=(1, 8))
    ac.sub(r"\bi\.clone\(\)", "clone_line(i)", "R-clone (A-clone shim; body is the original call)", expect=(1, 3))
    ac.set_header("""pub fn append_code(&mut self, code: &AssemblyCode, inline_counter: u32)
        ensures
            final(self).code@.len() == old(self).code@.len() + code.code@.len(), //@ C14:append-length
            final(self).code@.subrange(0, old(self).code@.len() as int) =~= old(self).code@, //@ C14:append-frame
            forall|k: int| 0 <= k < code.code@.len() ==> renamed(code.code@[k], #[trigger] final(self).code@[old(self).code@.len() + k], inline_counter), //@ C14,C13,C04,C18,C16,C03,C02:append-renamed-clone
""", expect_sig="fn append_code(&mut self, code: &AssemblyCode, inline_counter: u32)")
    ac.loop_spec(1, r"^for i in &code\.code$", """
            invariant
                self.code@.len() == old(self).code@.len() + it.index@, //@ C14:append-length-inv
                self.code@.subrange(0, old(self).code@.len() as int) =~= old(self).code@, //@ C14:append-frame-inv
                forall|k: int| 0 <= k < it.index@ ==> renamed(code.code@[k], #[trigger] self.code@[old(self).code@.len() + k], inline_counter), //@ C14:append-renamed-inv
""", new_header="for i in it: &code.code")
    ac.at_block_start(r"for i in it: &code\.code", "            let ghost before = self.code@;\n            proof { reveal_strlit(\"inline\"); reveal_strlit(\"\"); }")
    ac.at_block_end(r"for i in it: &code\.code", """
            proof {
                assert(self.code@.len() == before.len() + 1);
                assert(self.code@.subrange(0, before.len() as int) =~= before);
                assert(*i == code.code@[it.index@ as int]);
                // concatenation is associative (extensional equality hint)
                if *i is Label { assert(((*i)->Label_0@ + "inline"@) + dec(inline_counter as int) =~= (*i)->Label_0@ + suffix(inline_counter)); }
                if *i is Instruction { assert(((*i)->Instruction_0.dasm_operand@ + "inline"@) + dec(inline_counter as int) =~= (*i)->Instruction_0.dasm_operand@ + suffix(inline_counter)); }
                assert(renamed(*i, self.code@[before.len() as int], inline_counter)); //@ C14,C13,C04,C18,C16,C03,C02,C01,C15:append-line-renamed
                assert forall|k: int| 0 <= k < it.index@ implies renamed(code.code@[k], #[trigger] self.code@[old(self).code@.len() + k], inline_counter) by {
                    assert(self.code@[old(self).code@.len() + k] == before[old(self).code@.len() + k]);
                }
            }
""")
    text = common.PRELUDE + common.header_comment(NAME, cuts) + "verus! {\n" + types + common.DEC_SPECS + SPECS + common.STR_PREFIX_SHIM + common.STR_CONTAINS_SHIM + fm.text() + \
        "impl AssemblyCode {\n" + ac.text + "\n}\n" + common.CANARY + "\n} // verus!\n"
    u.text[None] = text
    u.rewrites = common.collect_rewrites(cuts)
    u.dropped = ["R2, R4 (format!), i.clone() -> clone_line(i) shim"]
    return u
